"""Source-to-Lean translation of selected pure functions of packaging -> Generated/PySrc.lean

Reads the *current source text* of every selected function (``inspect`` + ``ast``) and translates the supported
Python subset statement by statement into a Lean ``def`` in ``do`` notation over ``PyRt.M = Except PyExc`` whose
values are ``PyRt.PyVal`` (run-time: ``lean/PkgModel/PyRt.lean``).  The equivalence of each translated function
with the hand-written model function the property theorems are about is a theorem under
``lean/PkgProofs/Props/Src/`` — so a semantic edit of one of these Python functions changes the generated
definition and breaks a proof obligation of the owning property.

Anything outside the subset makes the function *unsupported*: a stub that throws ``PySrcUnsupported`` is
emitted together with ``def <name>_supported : Bool := false`` and the reason; the owning property's theorem
``Src.<name>_translated`` (``<name>_supported = true``) then fails.  Nothing is skipped silently.

Supported subset (see ``Fn`` below; everything else raises ``Unsupported``):
  statements   assignment to names (tuple targets, ``head, *rest``, parallel tuple assignment, chained ``a = b = e``),
               annotated and augmented assignment to names, ``if/elif/else``, ``for`` over an iterable (tuple
               targets, ``break``/``continue``; a loop variable read after its loop becomes an ordinary local),
               ``return``, ``raise Cls(...)``, ``assert``, ``pass``, ``try/except Cls`` (no ``else``/``finally``; early
               ``return`` inside is fine), doc strings, ``logger.debug/info/warning(...)`` (dropped, arguments still
               evaluated), a mutating list method on an *owned* local (``append/extend/insert/remove``),
               ``yield``/``yield from`` (items accumulated in a list, returned as a materialised iterator),
               ``self.x = e`` inside ``__init__`` (functional update of the fresh object; ``__init__`` returns it),
               ``f = self._get_operator(op)`` followed by ``f(a, b)`` and ``kw = {"k": e}`` followed by ``g(**kw)``
               (both resolved at translation time)
  expressions  constants, names (locals, parameters, module constants, the sentinels of ``_structures``,
               ``NotImplemented``), ``and/or/not`` with Python's value semantics and short circuit, comparisons
               (chained too; on instances of tracked classes through the translated ``__lt__`` … ``__eq__``),
               ``is None``/``is not None``, ``in``/``not in``, ``+ - *`` and unary minus, conditional expressions,
               subscripts and slices with step 1, list/tuple displays, list comprehensions and generator expressions
               with one ``for`` clause (tuple targets, ``if`` clauses), ``lambda`` as an argument of the supported
               helpers, f-strings of simple values and of instances of tracked classes with a ``__str__``,
               attribute access resolved through the class's MRO (property -> translated getter, otherwise instance
               field; a dispatcher definition on the run-time class name where a tracked subclass overrides it;
               ``super().prop`` with its instance check), calls of the builtins / methods / ``itertools`` helpers in
               ``BUILTINS``/``METHODS``/``ITERTOOLS_FN`` (plus ``range``, ``map``, ``max(default=)``, ``min``/``max`` of
               two, ``isinstance``, ``hash``, ``any``/``all`` of a generator), calls of other functions of the library
               (translated as well, positional and keyword arguments, constant defaults), ``functools.singledispatch``
               functions (dispatch on the class of the first argument), constructors of tracked classes (through the
               translated ``__init__``, or a run-time primitive listed in ``PRIMITIVE_INITS``: ``Version(...)``),
               ``re.match(<literal>, s)`` / ``<compiled global>.search(s)`` for the pattern texts the run-time has a
               matcher for, reads of the world outside (``EXTERNAL_READS``/``EXTERNAL_CALLS``/``EXTERNAL_HASATTR``: the
               function then takes the environment table ``PyRt.Env`` as its first parameter)
Extensions for markers / _parser / metadata / licenses (x3; the handlers are the `x3_*` methods of ``Fn``):
  recursion    functions that call themselves or each other (and functions with a ``while`` loop) take a fuel argument:
               ``f__fuel : Nat → …`` (structural recursion on the fuel, a recursive group is a ``mutual`` block; a
               ``while`` loop is ``for __i in List.range (__fuel + 1)`` plus a flag that says it ended by itself; running
               out is ``RecursionError``), and the entry point ``f`` starts it from the size of its arguments
               (``PyRt.fuelOf``; for parser functions from the remaining input, ``PyTok.fuelOf``)
  statements   ``try/except/else`` (a flag records that the body ran to its end); ``while`` (no ``else``); ``x[k] = e`` and
               ``x[k] op= e`` on an *owned* list / dict; ``d.update(e)`` on an owned dict; nested mutation ``xs[i].append(e)``
               when every element of ``xs`` is a list display of its own; ``with tokenizer.enclosing_tokens(a, b, around=…):``
               (a pair of primitives around the body; no ``return``/``break``/``continue`` inside); an assignment
               ``msg = f"…"`` whose only uses are arguments of ``raise Cls(msg)`` is dropped (exceptions carry their class only)
  parameters   ``*args`` (one tuple parameter; call sites pack the extra positional arguments)
  in place     a function that updates one parameter in place *and* returns it at every ``return``
               (``_normalize_extra_values``, ``_repair_python_full_version``) is translated as returning the updated value;
               a call ``f(x)`` on a local rebinds it (``x ← f x``), and writes it back when ``x`` is the element of a list
               being enumerated (``for i, x in enumerate(xs): f(x)`` → ``xs[i] ← f x``); a loop over a list may only replace
               the element it is at
  state        functions whose first parameter is annotated ``Tokenizer`` run in the state monad ``PyTok.TM``: the tokenizer is
               the state, its methods (``check/read/expect/consume/raise_syntax_error``, ``.position``) are primitives of
               ``lean/PkgModel/PyTok.lean`` (x9: proved equal to the translated methods of the class, see "Ninth round"); the tokenizer may
               only be used as their receiver or handed on to another such function, and not inside a ``try`` body
  oracles      inside the modules listed in ``ORACLE_CALLS`` a call of a listed function / constructor / method
               (``canonicalize_name``, ``Specifier(...)``, ``spec.contains``, ``utils.canonicalize_name``,
               ``pathlib.PurePosixPath(p).is_absolute()``, ``str.lower`` …) becomes ``PyRt.ext_call ext "<name>" [args]``
               (arguments bound by the callee's signature); the function then takes the oracle ``ext : PyRt.Oracle``
  values       dict displays with constant keys, ``d[k]`` / ``d.get`` / ``k in d`` on values known to be dicts (annotation,
               ``cast("dict…", …)``, display), constant module-level lists / dicts inlined, ``x in {constants}``
               (``PyRt.contains_set``), membership and ``[k]["id"]`` on tables that are regenerated as data elsewhere
               (``TABLE_GLOBALS``), a module-level dict of callables (``_operators.get(k)`` yields a reference by key,
               ``oper(a, b)`` dispatches on it; ``operator.lt`` … and lambdas), named-tuple constructors, ``zip`` of two,
               ``s.split()``, ``s.strip()`` (Unicode, per module), ``s.translate(_ASCII_LOWER)``, ``pattern.match`` for the
               pattern texts in ``MATCH_PATTERNS``, ``typing.cast``, ``x.__class__.__name__``, ``hash`` kept symbolic
               (``SYMBOLIC_HASH``), a method call on a value of statically unknown class dispatched over the tracked classes
               that define it (``m.serialize()``), ``if not isinstance(x, C): return …`` narrows ``x`` to ``C`` afterwards
Second round (blocks marked `x2`; run-time additions in ``lean/PkgModel/PyRx.lean``):
  compiled patterns  ``<compiled global>.match/.search(s)`` of a pattern registered with ``translate.regex_source``
               becomes acceptance by the verified matcher on the regenerated term (``PyRx.rx_test Gen.<Name>…``; truth
               value only, no groups); ``_canonicalize_regex.sub``, ``_build_tag_regex.match`` and the inline
               ``re.match`` of ``parse_wheel_filename`` go to structure-specific primitives over the tables that
               ``translators/names.py`` measures from the same objects (``MEASURED_PATTERNS`` / ``MEASURED_INLINE``);
               any other ``re.match(<literal>, s)`` is accepted when the literal is a sequence of literal characters
               and ``<atom>+`` runs whose greedy reading is the only one (``_seq_pattern``; classes swept from the
               interpreter's parser), ``m.group("<name>")`` is resolved to the group's index
  sets         ``set()``, ``s.add(x)`` on an owned local, ``frozenset(xs)`` / ``set(xs)``, ``x in {c1, c2}``: members in
               insertion order without duplicates modulo the *translated* ``__eq__`` of the member class (which must
               also define ``__hash__``) or ``==`` of plain values; hash-table order is not modelled
  other        ``typing.cast``; ``<module-level dict of constants>.get(k[, d])`` (current contents inlined);
               ``raise C(...) from e``; ``warnings.warn`` dropped like logging; ``.lower()`` is the full per-code-point
               table in ``FULL_LOWER_MODULES`` (ASCII elsewhere); ``s.count(c)``; unary minus; a parameter narrowed by a
               top-level ``if not isinstance(p, C): return/raise``; a list bound to fresh values in every branch of a
               top-level ``if`` (or returned by a library function all of whose returns are fresh) counts as owned;
               ``and``/``or`` keep their short circuit whenever an operand contains a lifted action
Normalisation (x4; `x4_normalise`, applied to the AST before anything else, and `x4_*` methods of ``Fn``): behaviour-preserving
spellings are mapped to one canonical form so that a harmless refactor regenerates the same (or a trivially convertible) Lean
definition.  Every rule preserves results, exceptions and evaluation order:
  N1  ``m[g]`` -> ``m.group(g)`` when local ``m`` is bound once, by a ``match``/``search``/``fullmatch`` call
  N2  ``xs += e`` -> ``xs.extend(e)`` when every binding of local ``xs`` is a freshly built list (``list.__iadd__`` is ``extend``)
  N3  ``yield from xs`` (``xs`` a plain local) -> ``for v in xs: yield v`` (consumers only iterate)
  N4  ``map(str.m, e.split(…))`` -> ``(v.m() for v in e.split(…))``; ``list(map(…))`` -> the list comprehension
  N5  a call of a private helper *the proofs do not know* (not in ``X4_KNOWN_HELPERS`` / ``SELECTED``), module-level function or
      method of the caller's class, whose only ``return`` is its last statement, is spliced into the caller when it is the whole
      right-hand side of a statement (``x = _h(a)``, ``x[k] = _h(a)``, ``return _h(a)``, ``_h(a)``): parameters bound to the
      arguments in order, locals renamed apart (conditions at ``_inline_helpers``) — extracting / inlining a helper is invisible
  N6  ``x = a if c else b`` (one plain name as target) -> ``if c: x = a`` / ``else: x = b``
  N7  ``x = {E for a in A for b in B if c …}`` -> ``x = set()`` and the nested loops adding ``E`` (loop variables renamed apart)
  sets  ``x in <module-level / class-level set or frozenset of str / int constants>`` -> ``PyRt.contains_set`` on the members in
        sorted order (hoisting an inline display into a named constant; iteration order of a set is unobservable through ``in``)
  names renaming a local is invisible already: Lean's ``do`` notation orders the state of a loop by declaration, not by name
Eighth round (x8; blocks marked `x8`), further normalisations and subset additions, same conditions (results, exceptions,
evaluation order preserved):
  N5+ the spliced helper may have *early returns*: ``if c: …; return a`` followed by ``rest`` is read as ``if c: … return a`` /
      ``else: rest`` (``_x8_tailify``) until every ``return`` is in tail position — none inside a loop / ``try`` / ``with``, no path
      that falls off the end — and each tail ``return e`` becomes the caller's statement with ``e``; statement forms added:
      ``raise _h(a)`` and ``xs.append(_h(a))`` (``xs`` a list built in the caller); a ``with`` block without ``as`` and without
      ``return`` inside may be part of the helper
  N8  in ``__init__``: ``v = K.__new__(K); v.a = e; self.f = v`` (``v`` used nowhere else) -> ``self.f = K.__new__(K); self.f.a = e``
  N9  a bare ``self.f: T`` (annotation without value) in a method executes nothing: dropped
  N10 ``for x in <tuple of ≤ 8 str/int constants, display or module-level>: if c(x): B(x); break`` + ``else: E`` -> the chain
      ``if c(k1): B(k1) elif … else: E`` (``x`` used only inside the loop, no other ``break`` / ``continue``)
  ``x in NAMED_SET`` / ``not in`` also in expression position (``return a and x in S``); ``frozenset(K(t) for t in … [if …])``
  makes the members instances of ``K`` exactly like ``frozenset(map(K, …))`` (class inference of set fields);
  ``<module-level pattern>.fullmatch(x)`` / ``.match(x)`` in ``parse_wheel_filename`` is the pattern ``names.py`` measures
  (``Gen.NameTables.wheelName*``: one atom under ``*``; with ``fullmatch`` the anchors are optional)
Subset additions of x4: list / tuple displays with starred elements (``[*a, x, *b]``: unpacked left to right into a fresh
list), oracle methods on a local bound once by an oracle constructor (``p = pathlib.PurePosixPath(x)`` … ``p.is_absolute()``),
``TABLE[k](a, b)`` and ``k in TABLE`` on a module-level table of callables, ``x = None`` sentinels next to the one binding that
decides the class of a local, ``PyRt.str_partition`` (one-character separator; defined through ``splitOnMax c 1``).
Fifth round (blocks marked `x5`; run-time additions in ``lean/PkgModel/PySet.lean``):
  set fields   an instance attribute that ``__init__`` only ever binds to ``frozenset(…)`` / ``set(…)`` (or declares as
               ``set[str]``) is a set: its truth value, ``len``, ``a | b``, ``a == b``, ``frozenset(a)``, ``sorted(a)`` go to set
               primitives; *iterating* it (``for``, comprehensions, ``any``/``all``, ``iter``) goes through ``PySet.iter_ord env``:
               the iteration order is read from the environment table (key ``frozenset.order``), so the function takes
               ``env`` and its theorem holds for every order; building a set of ``Specifier``s evaluates the translated
               ``__hash__`` of every element and deduplicates with the translated ``__eq__`` (``X5_HASHED_MEMBERS``)
  objects      ``obj.x = e`` on a local bound once to ``C(…)`` and otherwise only read as ``obj.attr`` / returned; ``self.x = e``
               in a property setter (``<Class>.<prop>.fset`` in ``SELECTED``; like ``__init__`` it hands back the updated
               object); ``self.x: T = e`` in ``__init__``; ``self.f = K.__new__(K)`` directly followed by ``self.f.a = e``;
               ``self.__class__(…)`` and ``isinstance(x, self.__class__)`` for a class without tracked subclasses;
               instance fields declared ``self.x: K`` / ``K | None`` in ``__init__`` have class K (``a == b`` on an optional
               field tests ``None`` first); the truth value of an instance of a class with ``__len__`` (and no
               ``__bool__``) is ``len(x) != 0`` through the translated ``__len__``
  classes      the class of a reassigned name is followed through the control flow (``x5_class_at``): constructor calls,
               ``if not isinstance(x, C): x = C(…)``, ``if isinstance(x, (A, B)): x = C(…) elif not isinstance(x, C): return``;
               for a *parameter* that is reassigned this replaces the "assigned once" rule (its first value is the
               caller's); ``str(x)`` under ``if isinstance(x, (str, K))`` dispatches on the run-time class
  other        ``sorted(xs)`` of strings, ``iter(xs)``, ``bool(x)``, ``"…{}…".format(*xs)``, ``map(<tracked class>, xs)``,
               ``Specifier(…)`` as the primitive ``PySet.mkSpecifier`` (scanner ``S.parseSpec``; only while the source of
               ``Specifier.__init__`` has the digest in ``PRIMITIVE_INIT_GUARDS``), ``s.strip()`` in ``specifiers.py``
Sixth round (blocks marked `x6`; run-time additions in ``lean/PkgModel/PyPlat.lean``, ``PyElf.lean``, ``PyMd.lean``):
  rewriting    the functions listed in ``X6_FUNCTIONS`` go through a pass over their ast (``_X6Rewrite``, before the analyses)
               that brings the platform code into the subset and leaves pseudo-calls ``__x6_*`` for ``Fn.x6_call``; every
               rewrite keeps Python's evaluation order, what cannot be rewritten faithfully is left alone and then refused:
               ``import m`` inside a function (the module found — or the ImportError — is the environment entry ``import m``;
               ``hasattr(m, "a")``, ``m.a``, ``m.f(args)`` on it: ``PyPlat.hasattr`` / ``call_attr``), ``with <probe>(…) as f:``
               for the probes in ``X6_ENV_CONTEXTS`` (``f = <probe>(…)`` then the body), unpacking into more than three names
               or into ``self.x`` targets (``PyPlat.unpack_n`` then one assignment per target, left to right), named tuples of
               the module as plain tuples (``C(a, b)``, ``C(*xs)``, ``C(k=…)`` in field order; ``.field`` by index), module-level
               dicts with tuple keys / a ``defaultdict`` (``k in D``, ``D[k]``: current contents and default inlined), a dict
               display subscripted or ``.get``-ed at once, ``&``, members of ``IntEnum`` classes as their numbers, a local bound
               once to a set display of constants and only used in ``in`` tests, ``"…{k}…".format(k=…)`` with the keywords in
               field order (an f-string), a parameter left to a default that is a probe of the interpreter
               (``_32_BIT_INTERPRETER``: read from the environment), ``subprocess.run(…).stdout`` as a read of the environment
               under the key *source text of that expression* (``PyPlat.env_read``)
  probes       ``sysconfig.get_platform()``, ``platform.mac_ver()/ios_ver()/system()``, ``_get_musl_version(exe)``,
               ``_parse_elf(exe)``, ``sys.executable``, ``sys.implementation._multiarch`` are environment entries;
               ``functools.lru_cache`` wrappers in ``X6_TRANSPARENT_CACHES`` are translated through ``__wrapped__``;
               ``<module of packaging>.<function>(…)`` is a call of that (translated) function; a function that is both a
               probe of earlier rounds and translated now (``platform_tags``) stays a probe for its earlier callers
  ELFFile      the binary file is a value held in ``self._f`` (``PyElf.fileOf data pos``): ``self._f.seek(x)`` rebinds ``self``,
               ``self._read(fmt)`` is the primitive ``PyElf.read_struct`` (guarded by a digest of ``ELFFile._read``; it reads the
               format *string*, so the layout strings of the source are tied to ``Gen.TagTables.elfFormats`` by the theorem);
               in ``__init__`` a read rebinds ``self`` as well (sequential reads), in any other method every read must directly
               follow a ``seek`` (``seek_first``), so the position a read leaves behind is never observed; ``bytes(xs)``, bytes
               constants, ``os.fsdecode`` (ASCII), ``s.strip(chars)``
  metadata     ``message = EmailMessage(); message["content-type"] = v`` is the oracle call ``EmailMessage.set_content_type(v)``
               whose answer stands for ``(get_content_type().lower(), params)``; ``_Validator.__get__`` (exact statement shapes
               only): ``cache = instance.__dict__`` makes the record's field list the instance dict (``cache[k] = v`` is
               ``PyMd.setattr_dyn``), ``del instance._raw[k]`` is ``PyMd.del_field_item``, the reflective
               ``getattr(self, f"_process_{self.name}")`` with its ``AttributeError`` fall-through is a dispatcher over the
               ``_process_*`` methods the class defines, and the function hands back ``(value, instance)``
Seventh round (blocks marked `x7`; run-time additions in ``lean/PkgModel/PyX7.lean``, model additions in ``lean/PkgModel/Repr.lean``):
  values       ``{v!r}`` (``PyRt.repr``: None / bool / int / ASCII str), ``<compiled global>.split(s)`` for a pattern that is one
               character class (ranges swept from the interpreter's parser), ``getattr(obj, f"<prefix>{…}")`` on an instance of
               a tracked class without tracked subclasses (a bound-method value by name; every ``<prefix>*`` attribute of the class
               must be a plain function), ``obj.<class-level dict of constants>[k]``, ``isinstance(x, bytes)`` and
               ``isinstance(x, <class of another library>)`` by class name
  exceptions   the functions in ``X7_MX_FUNCTIONS`` run in ``PyX7.MX`` (exception objects): ``raise <expr>``, ``except C as e`` (``e`` is
               the object, a legacy class name appears as an object without attributes), ``assert``; constructors of exception
               classes: a class of the library with a Python-level ``__init__`` through its translation, *message parameters* (only
               handed to ``super().__init__``) receive ``None`` and their argument — which must be a pure text — is not evaluated;
               ``ExceptionGroup(msg, xs)`` is ``PyX7.exception_group xs``; builtin classes are objects without attributes; a local
               that only holds message texts for such constructors is dropped; ``X.__cause__ = e`` has no effect;
               ``super().__init__(…)`` in the ``__init__`` of an exception class has no effect
  classmethods the ``cls`` parameter is dropped (``cls`` = the defining class, refused when it has subclasses): ``cls()``,
               ``cls.__dict__.get(k)`` (the table ``<Class>.__descriptors`` of descriptor objects generated from the class),
               ``cls.<classmethod>(…)``; ``ins = cls()`` makes ``ins`` the instance local: ``ins.x = e``, ``v = ins.<descriptor>`` and
               ``getattr(ins, key)`` (generated ``<Class>.__getattr__dyn``; rebinds ``ins``)
  metadata     ``frozenset(d) | <module frozenset>``, ``s -= {constants}``, ``sorted(s, key=str)`` (str members), ``<module list>.index(x)``,
               ``<module dict>[k]`` / ``k in <module dict>``, ``d.copy()`` on a parameter annotated with a dict type (TypedDict),
               ``for k in d`` where ``d`` comes from a call annotated ``-> tuple[…, dict[…]]``; parameters annotated
               ``email.message.Message`` are message *values* (``PyX7.msg_*``): ``del msg[k]`` rebinds the parameter (not seen by the
               caller), ``msg.get_payload(decode=…)``; ``b.decode("utf8", "strict")``
Ninth round (blocks marked `x9`; run-time additions in ``lean/PkgModel/PyX9.lean``):
  tokenizer    the methods of ``Tokenizer`` are translated (``self`` is the state of ``PyTok.TM``): ``self.source`` / ``self.position`` /
               ``self.next_token`` are reads of the state, ``self.next_token = e`` and ``self.position += e`` updates
               (``PyX9.set_next_token`` / ``advance``), ``name in self.rules`` and ``self.rules[name].match(self.source, self.position)``
               (also through a local bound once to ``self.rules[name]``) the primitives ``PyX9.has_rule`` / ``rule_match`` over the
               regenerated rules, ``m[0]`` / ``m.group(0)`` of such a match ``PyX9.match_group0``; ``Token(…)`` (a dataclass of the module
               built from all its fields in order); ``raise self.m(…)`` (the call, then ``TypeError`` for a value that is no exception);
               ``raise ParserSyntaxError(…)`` evaluates its arguments; calls of the other methods stay the primitives of PyTok.lean, which
               ``Src/Tokenizer.lean`` proves equal to the translated methods — ``STATE_GUARD`` is no longer consulted (``__init__`` alone keeps
               a digest, ``X9_TOKENIZER_INIT_GUARD``: ``PyTok.new``; the class may define nothing else).  A generator behind
               ``@contextlib.contextmanager`` with one top-level bare ``yield`` is cut there: ``<f>__enter`` returns the local that is live
               across the ``yield``, ``<f>__exit`` takes it as first parameter (``<f>__with``: the pair around ``self.consume(body)``, for
               ``src.call``)
  parse_email  a rewriting pass (``_X9MailRewrite``): ``email.parser.Parser(…).parsestr(x, …)`` / ``BytesParser(…).parsebytes(x, …)`` is an
               oracle call whose key is the *source text of the call* (``x`` blanked) and whose answer is the message value
               ``obj "Message" …`` of PyX7.lean; on a local only bound that way: ``.keys()``, ``.get_all(n)``, ``.get_payload(decode=…)``;
               ``frozenset(msg.keys())`` (plain ``==``), ``email.header.decode_header(h)`` (the chunks the ``Header`` value carries),
               ``str(email.header.make_header(chunks))`` (``Email.renderChunks`` on ``utf8`` / ``latin1`` chunks),
               ``isinstance(h, email.header.Header)`` (also true for a header whose ``decode_header`` raises: ``HeaderErr``);
               ``d.setdefault(k, []).append(x)`` / ``.extend(xs)``, ``d[k].append(x)``, ``x = d.pop(k)`` on an owned dict of lists
               (functional updates); an expression statement ``b.decode("utf8", "strict")``; a tuple loop target with a component the
               body rebinds; ``a in <named constant set> and b`` in a value context; storing an owned list into a dict (``d[k] = xs``)
               inside the loop body that binds ``xs = []`` afresh, after its last in-place update
  in-out       a library function that deletes headers of a message parameter (``del msg[k]``) is translated a second time as
               ``<f>__io`` in ``PyX9.SM = ExceptT PyExc (StateM PyVal)`` — the message is the state, reads are ``get`` — when it is called
               as the whole body of a ``try`` with a message local: ``try: x = f(m, …) except C: … else: …`` becomes a ``match`` on
               ``PyX9.runSM (f__io …) m`` after ``m`` has been rebound to the message afterwards (no Lean ``try``: nothing is restored)
Checks made by the translator (a failure makes the function unsupported):
  * a local changed inside a ``try`` body (other than by its last simple statement) must not be read in a handler or after
    a handler that falls through: Lean's ``try … catch`` restores the locals of the ``try`` start;
  * a short-circuit operand with a lifted sub-term opens its own ``do`` block (an operand is "pure" only if no ``(← …)``
    occurs in it);
  * a local that may be unassigned when read is read through ``PyRt.bound`` (``UnboundLocalError`` as in CPython);
    hoisted locals start as ``PyVal.unbound``;
  * a list that is mutated in place is *owned*: from the last top-level ``x = <fresh list>`` before its first
    mutation on it is only bound to freshly built lists and never used where an alias could be created (so the
    functional update ``x ← PyRt.list_append x e`` is faithful); it may be passed to a library function whose
    return annotation is a scalar;
  * the reflective helper ``Specifier._get_operator`` is evaluated at translation time only while its source text
    is exactly the text recorded in ``PARTIAL_EVAL_GUARDS``;
  * recursion through a dispatcher definition is refused.
Trusted for resolving attribute access: parameter annotations, the return annotations of library helpers and
``self.x = C(...)`` in ``__init__`` (they decide which class's MRO is consulted).
"""
from __future__ import annotations

import ast
import importlib
import inspect
import textwrap

from translate import table

# ---------------------------------------------------------------------------------------------- selection
# (lean name, module, attribute path).  The owning property modules list the equivalence theorems.
SELECTED = [
    ("_parse_letter_version", "packaging.version", "_parse_letter_version"),
    ("_is_not_suffix", "packaging.specifiers", "_is_not_suffix"),
    ("_version_join", "packaging.specifiers", "_version_join"),
    ("_pad_version", "packaging.specifiers", "_pad_version"),
    ("_cmpkey", "packaging.version", "_cmpkey"),
    ("Version.__str__", "packaging.version", "Version.__str__"),
    ("Version.public", "packaging.version", "Version.public"),
    ("Version.base_version", "packaging.version", "Version.base_version"),
    ("Version.is_prerelease", "packaging.version", "Version.is_prerelease"),
    ("_TrimmedRelease.release", "packaging.version", "_TrimmedRelease.release"),
    ("_py_interpreter_range", "packaging.tags", "_py_interpreter_range"),
    ("_abi3_applies", "packaging.tags", "_abi3_applies"),
    ("_is_threaded_cpython", "packaging.tags", "_is_threaded_cpython"),
    ("compatible_tags", "packaging.tags", "compatible_tags"),
    ("cpython_tags", "packaging.tags", "cpython_tags"),
    ("Specifier._compare_less_than", "packaging.specifiers", "Specifier._compare_less_than"),
    ("Specifier._compare_greater_than", "packaging.specifiers", "Specifier._compare_greater_than"),
    ("Specifier._compare_less_than_equal", "packaging.specifiers", "Specifier._compare_less_than_equal"),
    ("Specifier._compare_greater_than_equal", "packaging.specifiers", "Specifier._compare_greater_than_equal"),
    ("Specifier._compare_arbitrary", "packaging.specifiers", "Specifier._compare_arbitrary"),
    ("Specifier._compare_equal", "packaging.specifiers", "Specifier._compare_equal"),
    ("Specifier._compare_not_equal", "packaging.specifiers", "Specifier._compare_not_equal"),
    ("Specifier._compare_compatible", "packaging.specifiers", "Specifier._compare_compatible"),
    ("Specifier.prereleases", "packaging.specifiers", "Specifier.prereleases"),
    ("Specifier.contains", "packaging.specifiers", "Specifier.contains"),
    ("Specifier.filter", "packaging.specifiers", "Specifier.filter"),
]
# --- x2: second round (small gaps of round one; utils.py; the rest of tags.py; platform code; SpecifierSet)
SELECTED += [
    ("_BaseVersion.__ne__", "packaging.version", "_BaseVersion.__ne__"),
    ("Tag.__str__", "packaging.tags", "Tag.__str__"),
    ("Tag.__eq__", "packaging.tags", "Tag.__eq__"),
    ("Tag.__hash__", "packaging.tags", "Tag.__hash__"),
    ("canonicalize_name", "packaging.utils", "canonicalize_name"),
    ("is_normalized_name", "packaging.utils", "is_normalized_name"),
    ("parse_tag", "packaging.tags", "parse_tag"),
    ("parse_sdist_filename", "packaging.utils", "parse_sdist_filename"),
    ("parse_wheel_filename", "packaging.utils", "parse_wheel_filename"),
    ("_normalize_string", "packaging.tags", "_normalize_string"),
    ("interpreter_name", "packaging.tags", "interpreter_name"),
    ("interpreter_version", "packaging.tags", "interpreter_version"),
    ("_generic_abi", "packaging.tags", "_generic_abi"),
    ("generic_tags", "packaging.tags", "generic_tags"),
    ("sys_tags", "packaging.tags", "sys_tags"),
    ("_mac_arch", "packaging.tags", "_mac_arch"),
    ("_mac_binary_formats", "packaging.tags", "_mac_binary_formats"),
    ("_parse_glibc_version", "packaging._manylinux", "_parse_glibc_version"),
    ("_glibc_version_string", "packaging._manylinux", "_glibc_version_string"),
]

# classes whose instances the translated code handles as records `PyVal.obj <class name> <fields>`; attribute access on
# a value of one of these classes is resolved through the class's MRO (property -> translated getter, method ->
# translated function, otherwise instance field), with a run-time dispatch on the class name where a tracked
# subclass overrides the attribute
TRACKED = [
    ("packaging.version", "_Version"), ("packaging.version", "_BaseVersion"), ("packaging.version", "Version"),
    ("packaging.version", "_TrimmedRelease"), ("packaging.tags", "Tag"), ("packaging.specifiers", "Specifier"),
]

LEAN_KEYWORDS = {
    "prefix", "postfix", "infix", "infixl", "infixr", "notation", "local", "end", "from", "at", "do", "then", "else",
    "if", "fun", "let", "have", "show", "match", "with", "in", "open", "section", "namespace", "variable", "universe",
    "def", "theorem", "instance", "structure", "class", "inductive", "where", "deriving", "import", "export", "mutual",
    "private", "protected", "partial", "unsafe", "macro", "syntax", "by", "for", "return", "mut", "try", "catch",
    "finally", "break", "continue", "unless", "calc", "using", "attribute", "set_option", "example", "axiom", "abbrev",
    "opaque", "nomatch", "nofun", "Type", "Sort", "Prop", "true", "false", "extends", "scoped", "omit", "include",
    "forall", "exists", "this", "suffices", "obtain", "initialize", "elab", "rec", "noncomputable", "nonrec", "termination_by",
    "decreasing_by", "declare_syntax_cat", "init_quot", "hiding", "renaming", "instances", "public", "meta", "module", "all",
}


class Unsupported(Exception):
    pass


def lname(n: str) -> str:
    """a Python identifier as a Lean identifier"""
    if n == "_":
        return "_py_"
    if n in LEAN_KEYWORDS or not n.isascii():
        return "«" + n + "»"
    return n


def lstr(s: str) -> str:
    """a Python str constant as a `Py.Str` term"""
    if s.isascii() and s.isprintable() and '"' not in s and "\\" not in s:
        return f'(Py.ofString "{s}")'
    return "[" + ", ".join(str(ord(c)) for c in s) + "]"


def lconst(v) -> str:
    """a Python constant (None/bool/int/str, tuples and lists of those) as a PyVal term"""
    if v is None:
        return "PyVal.none"
    if v is True:
        return "(PyVal.bool true)"
    if v is False:
        return "(PyVal.bool false)"
    if isinstance(v, int):
        return f"(PyVal.int {v})" if v >= 0 else f"(PyVal.int ({v}))"
    if isinstance(v, str):
        return f"(PyVal.str {lstr(v)})"
    if isinstance(v, tuple):
        return "(PyVal.tuple [" + ", ".join(lconst(x) for x in v) + "])"
    if isinstance(v, list):
        return "(PyVal.list [" + ", ".join(lconst(x) for x in v) + "])"
    raise Unsupported(f"constant of type {type(v).__name__}")


# ---------------------------------------------------------------------------------------------- run-time tables
# builtin name -> (run-time function, arity) ; all take PyVals and return M PyVal unless listed in PURE
BUILTINS = {
    "len": ("PyRt.len", 1), "int": ("PyRt.int_", 1), "str": ("PyRt.str_", 1), "list": ("PyRt.list_", 1),
    "tuple": ("PyRt.tuple_", 1), "reversed": ("PyRt.reversed", 1), "enumerate": ("PyRt.enumerate", 1),
    "any": ("PyRt.any_", 1), "all": ("PyRt.all_", 1), "sorted": ("PyRt.sorted_", 1), "bool": ("PyRt.bool_", 1),
}
# method name -> (run-time function, number of arguments after the receiver)
METHODS = {
    "lower": ("PyRt.str_lower", 0), "upper": ("PyRt.str_upper", 0), "isdigit": ("PyRt.str_isdigit", 0),
    "startswith": ("PyRt.str_startswith", 1), "endswith": ("PyRt.str_endswith", 1), "join": ("PyRt.str_join", 1),
    "split": ("PyRt.str_split", 1), "strip": ("PyRt.str_strip", 0), "rpartition": ("PyRt.str_rpartition", 1),
    "partition": ("PyRt.str_partition", 1), "replace": ("PyRt.str_replace", 2), "group": ("PyRt.match_group", 1),
    "groups": ("PyRt.match_groups", 0),
}
MUTATORS = {"append": ("PyRt.list_append", 1), "extend": ("PyRt.list_extend", 1), "insert": ("PyRt.list_insert", 2),
            "remove": ("PyRt.list_remove", 1)}
OTHER_MUTATORS = {"pop", "sort", "reverse", "clear", "add", "update", "discard", "setdefault"}
# regular-expression literals the run-time has a hand-written matcher for (PyRt.re_match); any other pattern text
# makes the function unsupported
SUPPORTED_PATTERNS = {r"cp\d+(.*)"}
# reads of the world outside the selected functions: source form -> key in the environment table `PyRt.Env`
# (the generated function then takes `env` as its first parameter)
EXTERNAL_READS = {"sys.version_info", "sys.maxunicode", "EXTENSION_SUFFIXES"}
EXTERNAL_CALLS = {"platform_tags", "sysconfig.get_config_var"}
EXTERNAL_HASATTR = {("sys", "gettotalrefcount")}
DROPPED_CALLS = {"logger.debug", "logger.info", "logger.warning"}          # logging: no effect on the result
SCALAR_RETURNS = {"bool", "str", "int", "None"}
# constructors that are run-time primitives (the class's `__init__` is not translated): (module, class) -> Lean function
# taking the class name and the arguments
PRIMITIVE_INITS = {("packaging.version", "Version", "__init__"): "PyRt.mkVersion"}
# compiled patterns (module globals) the run-time has a matcher for, by pattern text
SUPPORTED_SEARCH_PATTERNS = {r"^([0-9]+)((?:a|b|c|rc)[0-9]+)$"}
# reflective helpers that the translator evaluates at generation time; guarded by the exact source of the helper
PARTIAL_EVAL_GUARDS = {
    "Specifier._get_operator": (
        "def _get_operator(self, op: str) -> CallableOperator:\n"
        "    operator_callable: CallableOperator = getattr(\n"
        "        self, f\"_compare_{self._operators[op]}\"\n"
        "    )\n"
        "    return operator_callable\n"),
}
_RICH = {ast.Lt: "__lt__", ast.LtE: "__le__", ast.Gt: "__gt__", ast.GtE: "__ge__", ast.Eq: "__eq__", ast.NotEq: "__ne__"}
# itertools.<name> -> run-time function taking (Lean function, PyVal)
ITERTOOLS_FN = {"takewhile": "PyRt.takewhile", "dropwhile": "PyRt.dropwhile"}
# contexts in which a mutated (owned) list may be read without creating an alias: builtin consumers
CONSUMERS = {"len", "list", "tuple", "sorted", "any", "all", "max", "min", "enumerate", "reversed", "bool", "str"}
FRESH_CALLS = {"list", "sorted"}

# --- x3: markers (C07, C09) -----------------------------------------------------------------------------------------
SELECTED += [
    ("_normalize_extra_values", "packaging.markers", "_normalize_extra_values"),
    ("_format_marker", "packaging.markers", "_format_marker"),
    ("_eval_op", "packaging.markers", "_eval_op"),
    ("_normalize", "packaging.markers", "_normalize"),
    ("_get_env", "packaging.markers", "_get_env"),
    ("_evaluate_markers", "packaging.markers", "_evaluate_markers"),
    ("format_full_version", "packaging.markers", "format_full_version"),
    ("_repair_python_full_version", "packaging.markers", "_repair_python_full_version"),
    ("Marker.__str__", "packaging.markers", "Marker.__str__"),
    ("Marker.__eq__", "packaging.markers", "Marker.__eq__"),
    ("Marker.__hash__", "packaging.markers", "Marker.__hash__"),
    ("Marker.evaluate", "packaging.markers", "Marker.evaluate"),
    ("Marker.__init__", "packaging.markers", "Marker.__init__"),
]
TRACKED += [("packaging._parser", "Node"), ("packaging._parser", "Variable"), ("packaging._parser", "Value"),
            ("packaging._parser", "Op"), ("packaging.markers", "Marker")]
# functions / constructors / methods that the code of a module calls but that are modelled elsewhere: inside the named
# module a call of one of them becomes `PyRt.ext_call ext "<name>" [args]` (the function then takes the oracle `ext`)
ORACLE_CALLS = {
    "packaging.markers": {"canonicalize_name", "Specifier", "Specifier.contains", "default_environment"},
}
# modules in which `hash(v)` stays symbolic (`PyRt.hash_sym`), so that the hashed key is visible in the result
SYMBOLIC_HASH = {"packaging.markers"}
DICT_MUTATORS = {"update": ("PyRt.dict_update", 1)}
DICT_METHODS = {"copy": ("PyRt.dict_copy", 0), "keys": ("PyRt.dict_keys", 0), "items": ("PyRt.dict_items", 0)}
OPERATOR_FN = {"lt": "PyRt.lt {a} {b}", "le": "PyRt.le {a} {b}", "gt": "PyRt.gt {a} {b}", "ge": "PyRt.ge {a} {b}",
               "eq": "pure (PyRt.eq {a} {b})", "ne": "pure (PyRt.ne {a} {b})"}
# --- x3: the parser (C07, C08, C09): functions over a shared, mutated `Tokenizer` run in the state monad `PyTok.TM`; the
# tokenizer's methods are primitives of lean/PkgModel/PyTok.lean
SELECTED += [
    ("process_env_var", "packaging._parser", "process_env_var"),
    ("process_python_str", "packaging._parser", "process_python_str"),
    ("_parse_marker_var", "packaging._parser", "_parse_marker_var"),
    ("_parse_marker_op", "packaging._parser", "_parse_marker_op"),
    ("_parse_marker_item", "packaging._parser", "_parse_marker_item"),
    ("_parse_marker_atom", "packaging._parser", "_parse_marker_atom"),
    ("_parse_marker", "packaging._parser", "_parse_marker"),
    ("_parse_full_marker", "packaging._parser", "_parse_full_marker"),
    ("parse_marker", "packaging._parser", "parse_marker"),
    ("_parse_version_many", "packaging._parser", "_parse_version_many"),
    ("_parse_specifier", "packaging._parser", "_parse_specifier"),
    ("_parse_extras_list", "packaging._parser", "_parse_extras_list"),
    ("_parse_extras", "packaging._parser", "_parse_extras"),
    ("_parse_requirement_marker", "packaging._parser", "_parse_requirement_marker"),
    ("_parse_requirement_details", "packaging._parser", "_parse_requirement_details"),
    ("_parse_requirement", "packaging._parser", "_parse_requirement"),
    ("parse_requirement", "packaging._parser", "parse_requirement"),
]
TRACKED += [("packaging._parser", "ParsedRequirement")]
STATE_CLASS = ("packaging._tokenizer", "Tokenizer")
STATE_MONAD = "PyTok.TM"
STATE_IMPORT = "PkgModel.PyTok"
# method -> (primitive, positional arguments kept, keyword arguments kept (with their defaults))
STATE_METHODS = {
    "check": ("PyTok.check", 1, {"peek": "(PyVal.bool false)"}),
    "read": ("PyTok.read", 0, {}),
    "expect": ("PyTok.expect", 1, {}),                  # `expected=` is only the message
    "consume": ("PyTok.consume", 1, {}),
    "raise_syntax_error": ("PyTok.raise_syntax_error", 0, {}),   # message and span are not kept
}
# the primitives mirror this text of the class (doc strings and comments aside): sha256 of the ast dump of its methods
STATE_GUARD = "bf841c8223628ed05d38c233699386b97f8813a766c28f2f299b42cdd65e0654"
EXTERNAL_MODULE_CALLS = {("ast", "literal_eval"): ("PyTok.literal_eval", STATE_IMPORT)}
# --- x3: metadata (C17, C18)
SELECTED += [
    ("_parse_keywords", "packaging.metadata", "_parse_keywords"),
    ("_parse_project_urls", "packaging.metadata", "_parse_project_urls"),
    ("_Validator._process_metadata_version", "packaging.metadata", "_Validator._process_metadata_version"),
    ("_Validator._process_name", "packaging.metadata", "_Validator._process_name"),
    ("_Validator._process_version", "packaging.metadata", "_Validator._process_version"),
    ("_Validator._process_summary", "packaging.metadata", "_Validator._process_summary"),
    ("_Validator._process_dynamic", "packaging.metadata", "_Validator._process_dynamic"),
    ("_Validator._process_provides_extra", "packaging.metadata", "_Validator._process_provides_extra"),
    ("_Validator._process_requires_python", "packaging.metadata", "_Validator._process_requires_python"),
    ("_Validator._process_requires_dist", "packaging.metadata", "_Validator._process_requires_dist"),
    ("_Validator._process_license_expression", "packaging.metadata", "_Validator._process_license_expression"),
    ("_Validator._process_license_files", "packaging.metadata", "_Validator._process_license_files"),
]
ORACLE_CALLS["packaging.metadata"] = {
    "utils.canonicalize_name", "version_module.parse", "specifiers.SpecifierSet", "requirements.Requirement",
    "licenses.canonicalize_license_expression", "pathlib.PurePosixPath", "pathlib.PureWindowsPath",
    "PurePosixPath.is_absolute", "PureWindowsPath.is_absolute", "PureWindowsPath.as_posix", "str.lower"}
# modules in which `s.strip()` is the Unicode-aware primitive of PyMetaRt
UNICODE_STRIP = {"packaging.metadata": ("PyMetaRt.str_strip", "PkgModel.PyMetaRt")}
# modules in which `x in {constants}` keeps the hashability test of a set (`PyRt.contains_set`); elsewhere a set display in
# a membership test is read as a tuple (x2)
SET_HASH_CHECK_MODULES = {"packaging.licenses", "packaging.metadata"}
# --- x3: licenses (C19)
SELECTED += [("canonicalize_license_expression", "packaging.licenses", "canonicalize_license_expression")]
# module-level tables that are regenerated as data elsewhere (`Generated/SpdxTables`): (module, name) -> run-time table name;
# supported uses: `k in T`, `k not in T`, `T[k]["id"]`
TABLE_GLOBALS = {("packaging.licenses", "LICENSES"): "LICENSES", ("packaging.licenses", "EXCEPTIONS"): "EXCEPTIONS"}
TABLE_IMPORT = "PkgModel.PyLic"
# compiled patterns matched with `.match` by a hand-written matcher: (pattern text, flags) -> (primitive, import)
MATCH_PATTERNS = {("^[A-Za-z0-9.-]+$", 32): ("PyLic.ref_match", "PkgModel.PyLic")}
# --- x3 end ---------------------------------------------------------------------------------------------------------
# --- x2: tables of the second round -----------------------------------------------------------------------------------
METHODS.update({"count": ("PyRx.str_count", 1)})
# `s.add(x)` on an owned set local: the run-time function also takes the equality function of the member class
OTHER_MUTATORS.discard("add")
MUTATORS.update({"add": ("PyRx.set_add", 1)})
FRESH_CALLS |= {"set"}
CONSUMERS |= {"frozenset", "set"}
# modules whose strings are arbitrary text: `.lower()` is the full per-code-point table there (PyRx.str_lower_full),
# elsewhere the ASCII run-time function
FULL_LOWER_MODULES = {"packaging.utils"}
# compiled patterns whose *structure* harness/translators/names.py measures into Gen.NameTables:
# (module, global name) -> (kind, structure flag, Lean arguments)
EXTERNAL_READS |= {"sys.implementation.name"}
DROPPED_CALLS |= {"warnings.warn"}                 # no effect on the result (arguments are still evaluated)
# library functions that are probes of the world outside: calls become reads of the environment table
EXTERNAL_CALLS |= {"_glibc_version_string_confstr", "_glibc_version_string_ctypes"}
MEASURED_PATTERNS = {
    ("packaging.utils", "_canonicalize_regex"): ("class_plus", "Gen.NameTables.canonStructureOk", "Gen.NameTables.separators"),
    ("packaging.utils", "_build_tag_regex"): ("two_runs", "Gen.NameTables.buildStructureOk",
                                               "Gen.NameTables.digitTable Gen.NameTables.notDot"),
}
# the one inline `re.match(<literal>, x, <flags>)` of this function is measured by names.py as `^<atom>*$`
MEASURED_INLINE = {
    ("packaging.utils", "parse_wheel_filename"): ("Gen.NameTables.wheelNameStructureOk",
                                                  "Gen.NameTables.wheelNameRanges Gen.NameTables.wheelNameDollar"),
}
# --- x5: fifth round (SpecifierSet; run-time additions in lean/PkgModel/PySet.lean) -----------------------------------
SELECTED += [
    ("Specifier.__str__", "packaging.specifiers", "Specifier.__str__"),
    ("Specifier._canonical_spec", "packaging.specifiers", "Specifier._canonical_spec"),
    ("Specifier.__hash__", "packaging.specifiers", "Specifier.__hash__"),
    ("Specifier.__eq__", "packaging.specifiers", "Specifier.__eq__"),
    ("SpecifierSet.__init__", "packaging.specifiers", "SpecifierSet.__init__"),
    ("SpecifierSet.prereleases", "packaging.specifiers", "SpecifierSet.prereleases"),
    ("SpecifierSet.prereleases__set", "packaging.specifiers", "SpecifierSet.prereleases.fset"),
    ("SpecifierSet.__str__", "packaging.specifiers", "SpecifierSet.__str__"),
    ("SpecifierSet.__hash__", "packaging.specifiers", "SpecifierSet.__hash__"),
    ("SpecifierSet.__and__", "packaging.specifiers", "SpecifierSet.__and__"),
    ("SpecifierSet.__eq__", "packaging.specifiers", "SpecifierSet.__eq__"),
    ("SpecifierSet.__len__", "packaging.specifiers", "SpecifierSet.__len__"),
    ("SpecifierSet.__iter__", "packaging.specifiers", "SpecifierSet.__iter__"),
    ("SpecifierSet.__contains__", "packaging.specifiers", "SpecifierSet.__contains__"),
    ("SpecifierSet.contains", "packaging.specifiers", "SpecifierSet.contains"),
    ("SpecifierSet.filter", "packaging.specifiers", "SpecifierSet.filter"),
]
TRACKED += [("packaging.specifiers", "SpecifierSet")]
X5_IMPORT = "PkgModel.PySet"
# x5: Requirement (C08, C10)
SELECTED += [
    ("Requirement.__init__", "packaging.requirements", "Requirement.__init__"),
    ("Requirement._iter_parts", "packaging.requirements", "Requirement._iter_parts"),
    ("Requirement.__str__", "packaging.requirements", "Requirement.__str__"),
    ("Requirement.__hash__", "packaging.requirements", "Requirement.__hash__"),
    ("Requirement.__eq__", "packaging.requirements", "Requirement.__eq__"),
]
TRACKED += [("packaging.requirements", "Requirement")]
# `Specifier(...)` is a run-time primitive backed by the scanner `S.parseSpec` (PySet.mkSpecifier) — but only while the
# source of `Specifier.__init__` is the text that scanner mirrors: sha256 over the ast of the function, doc string aside
PRIMITIVE_INITS[("packaging.specifiers", "Specifier", "__init__")] = "PySet.mkSpecifier"
PRIMITIVE_INIT_GUARDS = {
    ("packaging.specifiers", "Specifier", "__init__"): "7765712a296ab9c28dc295dbfbc4bfb7b070cdddd59678d7b01b9b324803eb6f",
}
SYMBOLIC_HASH |= {"packaging.specifiers", "packaging.requirements"}
UNICODE_STRIP["packaging.specifiers"] = ("PySet.str_strip", X5_IMPORT)
# `iter(xs)` of an owned list is accepted where the iterator is handed back at once (checked in `x5_call`)
CONSUMERS |= {"iter"}
# `map(f, xs)` of an owned list is accepted where the map is consumed at once by a builtin consumer (checked in `x5_rewrite`;
# the run-time materialises it anyway)
CONSUMERS |= {"map"}
# member classes whose `__hash__` is Python code that can raise: building a set of them evaluates it for every element
X5_HASHED_MEMBERS = {("packaging.specifiers", "Specifier")}


def _x8_comp_ctor(a):
    """x8: the name K when `a` is a generator expression / list comprehension over one `for` whose element is the direct
    constructor call `K(…)` (the members of `frozenset(a)` are then instances of K, as with `map(K, …)`); else None"""
    if isinstance(a, (ast.GeneratorExp, ast.ListComp)) and len(a.generators) == 1 and not a.generators[0].is_async \
            and isinstance(a.elt, ast.Call) and isinstance(a.elt.func, ast.Name):
        bound = {t.id for t in ast.walk(a.generators[0].target) if isinstance(t, ast.Name)}
        return None if a.elt.func.id in bound else a.elt.func.id
    return None
# --- x5 end -----------------------------------------------------------------------------------------------------------
# --- x6: sixth round (platform remainder, C16; run-time additions in lean/PkgModel/PyPlat.lean, PyElf.lean) --------------
SELECTED += [
    ("_parse_musl_version", "packaging._musllinux", "_parse_musl_version"),
    ("_musllinux.platform_tags", "packaging._musllinux", "platform_tags"),
    ("_is_compatible", "packaging._manylinux", "_is_compatible"),
    ("_manylinux.platform_tags", "packaging._manylinux", "platform_tags"),
    ("_linux_platforms", "packaging.tags", "_linux_platforms"),
    ("mac_platforms", "packaging.tags", "mac_platforms"),
    ("ios_platforms", "packaging.tags", "ios_platforms"),
    ("tags.platform_tags", "packaging.tags", "platform_tags"),
]
X6_IMPORT = "PkgModel.PyPlat"
# modules whose function bodies go through the x6 rewriting pass (`Fn.x6_prepare`) before the analyses
X6_MODULES = {"packaging._manylinux", "packaging._musllinux", "packaging.tags", "packaging._elffile"}
# functions of these modules that existed before x6 keep their translation byte for byte: the pass only runs for the
# functions listed here and for helpers first reached from them
X6_FUNCTIONS = {
    ("packaging._musllinux", "_parse_musl_version"), ("packaging._musllinux", "platform_tags"),
    ("packaging._manylinux", "_is_compatible"), ("packaging._manylinux", "platform_tags"),
    ("packaging._manylinux", "_have_compatible_abi"), ("packaging._manylinux", "_is_linux_armhf"),
    ("packaging._manylinux", "_is_linux_i686"), ("packaging._manylinux", "_get_glibc_version"),
    ("packaging.tags", "_linux_platforms"), ("packaging.tags", "mac_platforms"), ("packaging.tags", "ios_platforms"),
    ("packaging.tags", "platform_tags"), ("packaging.tags", "_generic_platforms"),
    ("packaging._elffile", "ELFFile.__init__"), ("packaging._elffile", "ELFFile.interpreter"),
}
METHODS.update({"splitlines": ("PyPlat.str_splitlines", 0)})
UNICODE_STRIP["packaging._musllinux"] = ("PySet.str_strip", X5_IMPORT)
EXTERNAL_READS |= {"sys.executable", "sys.implementation._multiarch", "_32_BIT_INTERPRETER"}
# probes of the world outside: calls become look-ups in the environment table (`PyRt.env_call`)
EXTERNAL_CALLS |= {"sysconfig.get_platform", "platform.mac_ver", "platform.ios_ver", "platform.system",
                   "_get_musl_version", "_parse_elf"}
# `functools.lru_cache` wrappers that are translated through `__wrapped__`: the function reads nothing but the
# environment, which is fixed during a run, so the cache cannot be observed
X6_TRANSPARENT_CACHES = {("packaging._manylinux", "_get_glibc_version")}
# context managers that are probes: `with P(a) as f: body` is `f = P(a)` followed by the body (the manager of `_parse_elf`
# yields the parsed file or None; nothing in the bodies can raise what it would swallow)
X6_ENV_CONTEXTS = {"_parse_elf"}
SELECTED += [
    ("ELFFile.__init__", "packaging._elffile", "ELFFile.__init__"),
    ("ELFFile.interpreter", "packaging._elffile", "ELFFile.interpreter"),
]
X6_ELF_IMPORT = "PkgModel.PyElf"
# `self._read(fmt)` is the primitive `PyElf.read_struct` only while `ELFFile._read` has this source (sha256 over its ast)
X6_ELF_READ_GUARD = "ad49ef43b6d602e7ae6cbfa4457d008915cdfaaef611d7ec4df2b98d8bd0fc3f"
# x6: metadata (C17): the `EmailMessage` of `_process_description_content_type` answers through the oracle, as `Meta.Oracle.ctype`:
# `message["content-type"] = value` is the call `EmailMessage.set_content_type(value)` whose answer is the pair
# `(get_content_type().lower(), dict of the header's params)` (or the exception the setter raised)
SELECTED += [("_Validator._process_description_content_type", "packaging.metadata", "_Validator._process_description_content_type")]
X6_FUNCTIONS |= {("packaging.metadata", "_Validator._process_description_content_type")}
ORACLE_CALLS["packaging.metadata"] |= {"EmailMessage.set_content_type"}
# x6: `_Validator.__get__`: the instance `__dict__` is the field list of the object (`cache[k] = v` is a functional update of
# `instance`), `del instance._raw[k]` updates the `_raw` field, the reflective `getattr(self, f"_process_{self.name}")` is a
# dispatcher over the `_process_*` methods the class defines; the function hands back `(value, instance)`
SELECTED += [("_Validator.__get__", "packaging.metadata", "_Validator.__get__")]
X6_FUNCTIONS |= {("packaging.metadata", "_Validator.__get__")}
X6_MD_IMPORT = "PkgModel.PyMd"
# --- x6 end -----------------------------------------------------------------------------------------------------------
# --- x7: seventh round (small getters / reprs of version.py and specifiers.py; metadata entry points; tokenizer) -------------
X7_IMPORT = "PkgModel.PyX7"
SELECTED += [
    ("Version.major", "packaging.version", "Version.major"),
    ("Version.minor", "packaging.version", "Version.minor"),
    ("Version.micro", "packaging.version", "Version.micro"),
    ("Version.is_devrelease", "packaging.version", "Version.is_devrelease"),
    ("parse", "packaging.version", "parse"),
    ("_parse_local_version", "packaging.version", "_parse_local_version"),
    ("Version.__repr__", "packaging.version", "Version.__repr__"),
    ("Specifier.__repr__", "packaging.specifiers", "Specifier.__repr__"),
    ("SpecifierSet.__repr__", "packaging.specifiers", "SpecifierSet.__repr__"),
    ("Specifier.__contains__", "packaging.specifiers", "Specifier.__contains__"),
    ("Specifier._get_operator", "packaging.specifiers", "Specifier._get_operator"),
]
# x7: metadata entry points (C17, C18, C20).  Functions that handle exception *objects* run in `PyX7.MX` (see PyX7.lean)
SELECTED += [
    ("InvalidMetadata.__init__", "packaging.metadata", "InvalidMetadata.__init__"),
    ("_Validator._invalid_metadata", "packaging.metadata", "_Validator._invalid_metadata"),
    ("Metadata.from_raw", "packaging.metadata", "Metadata.from_raw"),
    ("Metadata.from_email", "packaging.metadata", "Metadata.from_email"),
]
X7_MX_FUNCTIONS = {("packaging.metadata", "Metadata.from_raw"), ("packaging.metadata", "Metadata.from_email")}
X7_MX = "PyX7.MX"
# the class whose descriptors (`_Validator` instances in its `__dict__`) the translated attribute access dispatches over
X7_DESCRIPTOR_CLASS = ("packaging.metadata", "Metadata", "_Validator")
ORACLE_CALLS["packaging.metadata"] |= {"parse_email"}
CONSUMERS |= {"ExceptionGroup"}          # copies the sequence into a tuple
SELECTED += [("_get_payload", "packaging.metadata", "_get_payload")]
X7_MESSAGE_ANN = ["email", "message", "Message"]
# --- x7 end -----------------------------------------------------------------------------------------------------------
# --- x9: ninth round (the `Tokenizer` methods, C07/C08/C09; the main loop of `parse_email`, C18) — run-time: lean/PkgModel/PyX9.lean
X9_IMPORT = "PkgModel.PyX9"
# the methods of the tokenizer are translated (state monad, `self` is the state); what stays primitive: the fields of the state
# (`self.source`, `self.position`, `self.next_token`) and `self.rules[name].match(self.source, self.position)` over the
# regenerated rules.  `Src/Tokenizer.lean` proves each translated method equal to the primitive of PyTok.lean that the
# translated parser functions call, so the digest guard on the class (`STATE_GUARD`) is no longer consulted.
SELECTED += [
    ("Tokenizer.check", "packaging._tokenizer", "Tokenizer.check"),
    ("Tokenizer.read", "packaging._tokenizer", "Tokenizer.read"),
    ("Tokenizer.expect", "packaging._tokenizer", "Tokenizer.expect"),
    ("Tokenizer.consume", "packaging._tokenizer", "Tokenizer.consume"),
    ("Tokenizer.raise_syntax_error", "packaging._tokenizer", "Tokenizer.raise_syntax_error"),
    # the generator behind `@contextlib.contextmanager` is cut at its one top-level `yield`: `__enter` returns the local that is
    # live across the `yield`, `__exit` takes it as its first parameter; `__with` is the pair around `self.consume(body)`
    ("Tokenizer.enclosing_tokens__enter", "packaging._tokenizer", "Tokenizer.enclosing_tokens"),
    ("Tokenizer.enclosing_tokens__exit", "packaging._tokenizer", "Tokenizer.enclosing_tokens"),
    ("Tokenizer.enclosing_tokens__with", "packaging._tokenizer", "Tokenizer.enclosing_tokens"),
]
X9_TOKENIZER_TRANSLATED = True      # the `Tokenizer` methods are proof obligations of C07/C08/C09 (no digest guard on the class)
# `Tokenizer(source, rules=…)` itself stays the primitive `PyTok.new`, while `__init__` has this source (sha256 over its ast); the
# class may define nothing besides the constructor and the translated methods
X9_TOKENIZER_INIT_GUARD = "055e2691dfc5cbdc716aff96e948bbc47cd5dcec7407a5da318a6ee09835936d"
X9_TOKENIZER_METHODS = {"__init__", "check", "read", "expect", "consume", "raise_syntax_error", "enclosing_tokens"}
X9_STATE_FIELDS = {"source": "PyX9.source", "next_token": "PyX9.next_token"}
# x9: `parse_email` (C18).  A rewriting pass (`_X9MailRewrite`) brings the loop into the subset: the standard-library parser call is
# an oracle call under the *source text of the call* (the message it returns is the value `obj "Message" …` of PyX7.lean), the
# methods of that message and `email.header.decode_header` / `str(email.header.make_header(…))` are primitives of PyX9.lean over
# the data the message value carries, `d.setdefault(k, []).append/extend`, `d[k].append`, `d.pop(k)` on the two owned dicts of lists
# are functional updates.  A callee that changes the message it is given (`del msg[k]` in `_get_payload`) is translated a second
# time into `PyX9.SM` (`<name>__io`: the message is the *state*, so the caller sees the change also when the call raises), and
# `try: x = f(msg, …) except C: … else: …` around such a call becomes a `match` on `PyX9.runSM` — no Lean `try`, so no local is lost.
SELECTED += [("parse_email", "packaging.metadata", "parse_email")]

# --- x10: tenth round (the remaining probe wrappers: what they do with the probe's answer is library logic) ----------
SELECTED += [
    ("_glibc_version_string_confstr", "packaging._manylinux", "_glibc_version_string_confstr"),
    ("default_environment", "packaging.markers", "default_environment"),
]
EXTERNAL_CALLS |= {"os.confstr", "platform.machine", "platform.release", "platform.version", "platform.python_version",
                   "platform.python_implementation", "platform.python_version_tuple"}
EXTERNAL_READS |= {"sys.implementation.version", "os.name", "sys.platform"}
X9_MAIL_FUNCTIONS = {("packaging.metadata", "parse_email")}
X9_SM = "PyX9.SM"
# --- x9 end -----------------------------------------------------------------------------------------------------------


# ---------------------------------------------------------------------------------------------- one function
# ---------------------------------------------------------------------------------------------- x4: normalisation
# Behaviour-preserving spellings of the same Python code are mapped to one canonical AST before translation, so that a
# harmless refactor regenerates the same Lean definition.  Every rule preserves results, exceptions and evaluation order:
#   N1  `m[g]`  ->  `m.group(g)`            when local `m` is bound once, by a `match`/`search`/`fullmatch` call
#                                            (`re.Match.__getitem__` is defined as `group`)
#   N2  `xs += e`  ->  `xs.extend(e)`      when every binding of local `xs` in the function is a freshly built list
#                                            (`list.__iadd__` is `extend`: same iteration of `e`, same TypeError)
#   N3  `yield from xs` (xs a plain local)  ->  `for v in xs: yield v`   (every consumer of the translated generators only
#                                            iterates; no `send`/`throw`, and the value of the `yield from` is unused)
#   N4  `map(str.m, e.split(…))`  ->  `(v.m() for v in e.split(…))`, and `list(map(…))` -> the list comprehension
#                                            (`str.split` returns exact `str` objects, for which `str.m(v)` is `v.m()`)
_MATCH_CALLS = {"match", "search", "fullmatch"}


def _always_fresh_list(fn, name):
    if name in [a.arg for a in fn.args.args + fn.args.kwonlyargs] or (fn.args.vararg and fn.args.vararg.arg == name):
        return False
    binds = [n for n in _walk_scope(fn.body) if name in _targets_of(n) and not isinstance(n, ast.AugAssign)]
    if not binds:
        return False
    for b in binds:
        if not isinstance(b, (ast.Assign, ast.AnnAssign)) or b.value is None:
            return False
        tgts = b.targets if isinstance(b, ast.Assign) else [b.target]
        if not all(isinstance(t, ast.Name) for t in tgts) or not _is_fresh_list(b.value):
            return False
    return True


def _bound_once_by_match(fn, name):
    binds = [n for n in _walk_scope(fn.body) if name in _targets_of(n)]
    if len(binds) != 1 or not isinstance(binds[0], (ast.Assign, ast.AnnAssign)) or name in [a.arg for a in fn.args.args]:
        return False
    v = binds[0].value
    tgt = binds[0].targets[0] if isinstance(binds[0], ast.Assign) else binds[0].target
    return isinstance(tgt, ast.Name) and isinstance(v, ast.Call) and isinstance(v.func, ast.Attribute) and v.func.attr in _MATCH_CALLS


class _X4Normaliser(ast.NodeTransformer):
    def __init__(self, fn):
        self.fn = fn

    def visit_Subscript(self, node):
        self.generic_visit(node)
        if isinstance(node.ctx, ast.Load) and isinstance(node.value, ast.Name) and not isinstance(node.slice, ast.Slice) \
                and _bound_once_by_match(self.fn, node.value.id):                                              # N1
            new = ast.Call(func=ast.Attribute(value=node.value, attr="group", ctx=ast.Load()), args=[node.slice], keywords=[])
            return ast.copy_location(new, node)
        return node


    def visit_Expr(self, node):
        self.generic_visit(node)
        if isinstance(node.value, ast.YieldFrom) and isinstance(node.value.value, ast.Name):                  # N3
            self.n = getattr(self, "n", 0) + 1
            v = f"__yv{self.n}"
            loop = ast.For(target=ast.Name(id=v, ctx=ast.Store()), iter=node.value.value,
                           body=[ast.Expr(value=ast.Yield(value=ast.Name(id=v, ctx=ast.Load())))], orelse=[], type_comment=None)
            return ast.copy_location(loop, node)
        return node

    def visit_Call(self, node):
        self.generic_visit(node)
        def as_genexp(c):
            if isinstance(c, ast.Call) and isinstance(c.func, ast.Name) and c.func.id == "map" and len(c.args) == 2 and not c.keywords \
                    and isinstance(c.args[0], ast.Attribute) and isinstance(c.args[0].value, ast.Name) and c.args[0].value.id == "str" \
                    and isinstance(c.args[1], ast.Call) and isinstance(c.args[1].func, ast.Attribute) and c.args[1].func.attr == "split":
                self.n = getattr(self, "n", 0) + 1
                v = f"__mv{self.n}"
                elt = ast.Call(func=ast.Attribute(value=ast.Name(id=v, ctx=ast.Load()), attr=c.args[0].attr, ctx=ast.Load()), args=[], keywords=[])
                return elt, [ast.comprehension(target=ast.Name(id=v, ctx=ast.Store()), iter=c.args[1], ifs=[], is_async=0)]
            return None
        if isinstance(node.func, ast.Name) and node.func.id == "list" and len(node.args) == 1 and not node.keywords:       # N4
            g = as_genexp(node.args[0])
            if g is not None:
                return ast.copy_location(ast.ListComp(elt=g[0], generators=g[1]), node)
        g = as_genexp(node)
        if g is not None:
            return ast.copy_location(ast.GeneratorExp(elt=g[0], generators=g[1]), node)
        return node

    def visit_Try(self, node):
        self.in_try = getattr(self, "in_try", 0) + 1
        self.generic_visit(node)
        self.in_try -= 1
        return node

    def visit_Assign(self, node):
        self.generic_visit(node)
        # N7: `x = {E for a in A for b in B if c …}` -> `x = set()` and the nested loops adding `E` (loop variables renamed apart:
        # a comprehension has a scope of its own)
        if len(node.targets) == 1 and isinstance(node.targets[0], ast.Name) and isinstance(node.value, ast.SetComp) \
                and getattr(self, "in_try", 0) == 0 \
                and all(isinstance(g.target, ast.Name) and not g.is_async for g in node.value.generators):
            # (not inside a `try`: if the comprehension raised, `x` would be left bound to a partial set)
            self.n = getattr(self, "n", 0) + 1
            x = node.targets[0].id
            ren = {g.target.id: f"__sc{self.n}_{g.target.id}" for g in node.value.generators}
            import copy
            body = [ast.Expr(value=ast.Call(func=ast.Attribute(value=ast.Name(id=x, ctx=ast.Load()), attr="add", ctx=ast.Load()),
                                            args=[_Renamer(ren).visit(copy.deepcopy(node.value.elt))], keywords=[]))]
            seen = dict(ren)
            for gi in range(len(node.value.generators) - 1, -1, -1):
                g = node.value.generators[gi]
                inner = {k: v for k, v in ren.items() if k in [h.target.id for h in node.value.generators[:gi]]}
                for c in reversed(g.ifs):
                    vis = {k: v for k, v in ren.items() if k in [h.target.id for h in node.value.generators[:gi + 1]]}
                    body = [ast.If(test=_Renamer(vis).visit(copy.deepcopy(c)), body=body, orelse=[])]
                body = [ast.For(target=ast.Name(id=ren[g.target.id], ctx=ast.Store()), iter=_Renamer(inner).visit(copy.deepcopy(g.iter)),
                                body=body, orelse=[], type_comment=None)]
            init = ast.Assign(targets=[ast.Name(id=x, ctx=ast.Store())], value=ast.Call(func=ast.Name(id="set", ctx=ast.Load()), args=[], keywords=[]),
                              type_comment=None)
            out = [init] + body
            for st_ in out:
                for n_ in ast.walk(st_):
                    n_.lineno, n_.end_lineno = node.lineno, getattr(node, "end_lineno", node.lineno)
                    n_.col_offset, n_.end_col_offset = getattr(node, "col_offset", 0), getattr(node, "end_col_offset", 0)
            return out
        # N6: `x = a if c else b` -> `if c: x = a` / `else: x = b` (one plain name as target)
        if len(node.targets) == 1 and isinstance(node.targets[0], ast.Name) and isinstance(node.value, ast.IfExp):
            mk = lambda v: ast.copy_location(ast.Assign(targets=[ast.Name(id=node.targets[0].id, ctx=ast.Store())], value=v, type_comment=None), node)
            return ast.copy_location(ast.If(test=node.value.test, body=[mk(node.value.body)], orelse=[mk(node.value.orelse)]), node)
        return node

    def visit_AugAssign(self, node):
        self.generic_visit(node)
        if isinstance(node.op, ast.Add) and isinstance(node.target, ast.Name) and _always_fresh_list(self.fn, node.target.id):   # N2
            call = ast.Call(func=ast.Attribute(value=ast.Name(id=node.target.id, ctx=ast.Load()), attr="extend", ctx=ast.Load()),
                            args=[node.value], keywords=[])
            return ast.copy_location(ast.Expr(value=call), node)
        return node


# N5: inlining of small private helpers.  Extracting a block into a private helper (or inlining one) is the commonest harmless
# refactor; the proofs know the functions by name, so a helper *they do not know* is spliced back into its caller:
#   `x = _h(a, b)` / `x[k] = _h(a, b)` / `return _h(a, b)` / `_h(a, b)` (a statement whose whole right-hand side is the call)
# becomes: the parameters bound to the arguments in order (an argument that is a plain name / constant is substituted when the
# helper never rebinds that parameter), the helper's body with its locals renamed apart, its final `return e` turned into
# the original statement with `e` in place of the call.  Conditions: `_h` is a module-level function of the same module whose
# name starts with `_`, is not one of X4_KNOWN_HELPERS (functions with an equivalence theorem of their own) nor SELECTED, has no
# decorator, no `*args`/`**kwargs`/keyword-only parameters, does not call itself, and its only `return` is its last top-level
# statement (so control flow needs no encoding); no `yield`, `global`, `nonlocal`, nested `def`/`class`/`lambda`, `try`, `with`;
# no global or builtin name it uses is a local of the caller.  Also for `self._m(…)` when `_m` is a private method of the caller's
# class that no class of the module overrides.
X4_KNOWN_HELPERS = {
    "_parse_letter_version", "_is_not_suffix", "_version_join", "_pad_version", "_cmpkey", "_version_nodot",
    "_py_interpreter_range", "_abi3_applies", "_is_threaded_cpython", "_get_config_var", "_cpython_abis", "_version_split",
    "_coerce_version", "_normalize_string", "_generic_abi", "_mac_arch", "_mac_binary_formats", "_parse_glibc_version",
    "_glibc_version_string", "_normalize_extra_values", "_format_marker", "_eval_op", "_normalize", "_get_env",
    "_evaluate_markers", "_repair_python_full_version", "_parse_marker_op", "_parse_marker_var", "_parse_marker_item",
    "_parse_marker_atom", "_parse_marker", "_parse_full_marker", "_parse_version_many", "_parse_specifier",
    "_parse_extras_list", "_parse_extras", "_parse_requirement_marker", "_parse_requirement_details", "_parse_requirement",
    "_parse_keywords", "_parse_project_urls", "_parse_local_version", "_parse_project_urls", "_get_payload",
    "Specifier._get_operator",          # evaluated at translation time (PARTIAL_EVAL_GUARDS)
    "ELFFile._read",                    # x6: a run-time primitive of its own (`struct.unpack` on the file)
}


def _inlinable_method(owner, attr, globs, caller_name):
    """N5 for `self._m(…)`: a private method of the caller's class that no class of the module overrides"""
    if owner is None or not attr.startswith("_") or attr.startswith("__") or attr == caller_name:
        return None
    f = inspect.getattr_static(owner, attr, None)
    if not inspect.isfunction(f) or f.__globals__ is not globs:
        return None
    qual = f"{owner.__name__}.{attr}"
    if any(qual == sel[2] or sel[2].endswith("." + attr) for sel in SELECTED) or qual in X4_KNOWN_HELPERS:
        return None
    for c in globs.values():
        if inspect.isclass(c) and c is not owner and issubclass(c, owner) and attr in c.__dict__:
            return None
    return _helper_node(f, attr)


def _inlinable_helper(name, globs, caller_name):
    """the FunctionDef of helper `name` when it may be spliced into a caller, else None"""
    f = globs.get(name)
    if not name.startswith("_") or name.startswith("__") or name in X4_KNOWN_HELPERS or name == caller_name \
            or not inspect.isfunction(f) or f.__globals__ is not globs or f.__name__ != name:
        return None
    if any(name == sel[2] for sel in SELECTED):
        return None
    return _helper_node(f, name)


def _x8_tailify(stmts):
    """x8: the statement list with every `return` in tail position — `if c: A` (A does not fall through) followed by `rest`
    becomes `if c: A else: rest`, recursively — or None when that is not possible (a `return` inside a loop / `try` / `with`,
    a path that falls off the end, a bare `return`).  The result's last statement is a `return e` or an `if` both of whose
    branches are such lists or end in `raise`."""
    def has_ret(x):
        return any(isinstance(n, ast.Return) for n in ast.walk(x))
    out = []
    for i, st in enumerate(stmts):
        rest = stmts[i + 1:]
        if isinstance(st, ast.Return):
            return out + [st] if st.value is not None else None          # what follows is dead
        if isinstance(st, ast.Raise):
            return out + [st]
        if isinstance(st, ast.If) and (has_ret(st) or not _falls_through([st])):
            b_ft, e_ft = _falls_through(st.body), (_falls_through(st.orelse) if st.orelse else True)
            if b_ft and e_ft:
                return None                                   # a `return` somewhere inside, yet both arms go on
            body = _x8_tailify(st.body + (rest if b_ft else []))
            orelse = _x8_tailify(st.orelse + (rest if e_ft else []))
            if body is None or orelse is None:
                return None
            return out + [ast.copy_location(ast.If(test=st.test, body=body, orelse=orelse), st)]
        if has_ret(st):
            return None
        out.append(st)
    return None                                               # falls off the end: an implicit `return None`


def _helper_node(f, name):
    try:
        node = ast.parse(textwrap.dedent(inspect.getsource(f))).body[0]
    except (OSError, SyntaxError, TypeError):
        return None
    if not isinstance(node, ast.FunctionDef) or node.decorator_list:
        return None
    a = node.args
    if a.vararg or a.kwarg or a.kwonlyargs or a.posonlyargs:
        return None
    body = list(node.body)
    if body and isinstance(body[0], ast.Expr) and isinstance(body[0].value, ast.Constant) and isinstance(body[0].value.value, str):
        body = body[1:]
    if not body:
        return None
    if not isinstance(body[-1], ast.Return) or body[-1].value is None \
            or any(isinstance(n, ast.Return) for n in ast.walk(ast.Module(body=body[:-1], type_ignores=[]))):
        # x8: early returns — accepted when `if c: …return` / rest  ≡  `if c: …return` / `else: rest` brings every `return`
        # into tail position (none inside a loop), see `_x8_tailify`
        body = _x8_tailify(body)
        if body is None:
            return None
    for n in ast.walk(ast.Module(body=body, type_ignores=[])):
        if isinstance(n, (ast.Yield, ast.YieldFrom, ast.Global, ast.Nonlocal, ast.FunctionDef, ast.ClassDef,
                          ast.Lambda, ast.AsyncFunctionDef, ast.Await, ast.Try)):
            return None
        # x8: a `with` block is spliced like any other statement when it binds no name (`as`) and holds no `return`
        if isinstance(n, ast.With) and (any(i.optional_vars is not None for i in n.items)
                                        or any(isinstance(x, ast.Return) for x in ast.walk(n))):
            return None
    for n in ast.walk(node):
        if isinstance(n, ast.Call) and isinstance(n.func, ast.Name) and n.func.id == name:
            return None
        if isinstance(n, (ast.Lambda,)) or (isinstance(n, (ast.Yield, ast.YieldFrom))):
            return None
    node.body = body
    return node


class _Renamer(ast.NodeTransformer):
    def __init__(self, mapping):
        self.mapping = mapping          # name -> replacement expression (ast) or new name (str)

    def visit_Name(self, node):
        r = self.mapping.get(node.id)
        if r is None:
            return node
        if isinstance(r, str):
            return ast.copy_location(ast.Name(id=r, ctx=node.ctx), node)
        import copy
        return ast.copy_location(copy.deepcopy(r), node)


def _inline_helpers(fn, globs, counter=None, depth=0, owner=None):
    """splice unknown private helpers into the statements of `fn` (see N5)"""
    import copy
    counter = counter if counter is not None else [0]

    def call_of(st):
        """(call, rebuild) when the statement's whole right-hand side is a call of a plain name"""
        if isinstance(st, ast.Assign) and isinstance(st.value, ast.Call):
            return st.value, lambda e: ast.copy_location(ast.Assign(targets=st.targets, value=e, type_comment=None), st)
        if isinstance(st, ast.AnnAssign) and isinstance(st.value, ast.Call):
            return st.value, lambda e: ast.copy_location(ast.AnnAssign(target=st.target, annotation=st.annotation, value=e, simple=st.simple), st)
        if isinstance(st, ast.Return) and isinstance(st.value, ast.Call):
            return st.value, lambda e: ast.copy_location(ast.Return(value=e), st)
        if isinstance(st, ast.Expr) and isinstance(st.value, ast.Call) and isinstance(st.value.func, ast.Attribute) \
                and st.value.func.attr == "append" and isinstance(st.value.func.value, ast.Name) and len(st.value.args) == 1 \
                and not st.value.keywords and isinstance(st.value.args[0], ast.Call) \
                and _always_fresh_list(fn, st.value.func.value.id):
            # x8: `xs.append(_h(…))`, xs a list built here (looking `append` up cannot fail or run code)
            return st.value.args[0], lambda e: ast.copy_location(ast.Expr(value=ast.Call(
                func=st.value.func, args=[e], keywords=[])), st)
        if isinstance(st, ast.Expr) and isinstance(st.value, ast.Call):
            return st.value, lambda e: ast.copy_location(ast.Expr(value=e), st)
        if isinstance(st, ast.Raise) and isinstance(st.exc, ast.Call) and st.cause is None:      # x8: `raise _h(…)`
            return st.exc, lambda e: ast.copy_location(ast.Raise(exc=e, cause=None), st)
        return None, None

    assigned_in_caller = {n for s in _walk_scope(fn.body) for n in _targets_of(s)}
    caller_locals = assigned_in_caller | {a.arg for a in fn.args.args + fn.args.kwonlyargs}

    def splice(st):
        call, rebuild = call_of(st)
        if call is None or depth > 2:
            return None
        if any(isinstance(a, ast.Starred) for a in call.args) or any(k.arg is None for k in call.keywords):
            return None
        pos_args = list(call.args)
        if isinstance(call.func, ast.Name) and call.func.id not in caller_locals:
            h = _inlinable_helper(call.func.id, globs, fn.name)
        elif isinstance(call.func, ast.Attribute) and isinstance(call.func.value, ast.Name) and fn.args.args \
                and call.func.value.id == fn.args.args[0].arg and call.func.value.id not in assigned_in_caller:
            h = _inlinable_method(owner, call.func.attr, globs, fn.name)          # `self._m(…)`
            pos_args = [call.func.value] + pos_args
        else:
            return None
        if h is None:
            return None
        params = [a.arg for a in h.args.args]
        defaults = dict(zip(params[len(params) - len(h.args.defaults):], h.args.defaults))
        bound = {}
        if len(pos_args) > len(params):
            return None
        for p_, a in zip(params, pos_args):
            bound[p_] = a
        for k in call.keywords:
            if k.arg not in params or k.arg in bound:
                return None
            bound[k.arg] = k.value
        # keyword arguments are evaluated after the positional ones, in source order: keep that order
        order = [p_ for p_, _ in zip(params, pos_args)] + [k.arg for k in call.keywords]
        for p_ in params:
            if p_ not in bound:
                if p_ not in defaults or not isinstance(defaults[p_], ast.Constant):
                    return None
                bound[p_] = defaults[p_]
                order.append(p_)
        assigned = {n for s in _walk_scope(h.body) for n in _targets_of(s)}
        loopvars = {t.id for n in ast.walk(h) if isinstance(n, (ast.For, ast.comprehension)) for t in ast.walk(n.target) if isinstance(t, ast.Name)}
        # a global / builtin the helper refers to must not be shadowed by a local of the caller once the body is spliced in
        free = {n.id for st_ in h.body for n in ast.walk(st_) if isinstance(n, ast.Name)} - assigned - loopvars - set(params)
        if free & caller_locals:
            return None
        counter[0] += 1
        tag = f"__h{counter[0]}_"
        mapping = {}
        pre = []
        for p_ in order:
            a = bound[p_]
            simple = isinstance(a, ast.Constant) or (isinstance(a, ast.Name))
            if simple and p_ not in assigned and p_ not in loopvars:
                mapping[p_] = a
            else:
                mapping[p_] = tag + p_
                pre.append(ast.copy_location(ast.Assign(targets=[ast.Name(id=tag + p_, ctx=ast.Store())], value=a, type_comment=None), st))
        for v in (assigned | loopvars) - set(params):
            mapping[v] = tag + v
        body = [_Renamer(mapping).visit(copy.deepcopy(s)) for s in h.body]
        def retarget(stmts):                                   # x8: every tail `return e` becomes the statement with `e`
            last = stmts[-1]
            if isinstance(last, ast.Return):
                return stmts[:-1] + [copy.deepcopy(rebuild(last.value))]
            if isinstance(last, ast.If):
                last.body, last.orelse = retarget(last.body), retarget(last.orelse)
            return stmts
        out = pre + retarget(body)
        for s in out:
            for n in ast.walk(s):
                ast.copy_location(n, st) if not hasattr(n, "lineno") else None
                n.lineno, n.end_lineno = st.lineno, getattr(st, "end_lineno", st.lineno)
                n.col_offset, n.end_col_offset = getattr(st, "col_offset", 0), getattr(st, "end_col_offset", 0)
        return out

    def walk_block(stmts):
        out = []
        for st in stmts:
            for field in ("body", "orelse", "finalbody"):
                if hasattr(st, field) and isinstance(getattr(st, field), list) and not isinstance(st, (ast.FunctionDef, ast.ClassDef)):
                    setattr(st, field, walk_block(getattr(st, field)))
            if isinstance(st, ast.Try):
                for hd in st.handlers:
                    hd.body = walk_block(hd.body)
            rep = splice(st)
            out.extend(rep if rep is not None else [st])
        return out

    before = counter[0]
    fn.body = walk_block(fn.body)
    if counter[0] != before and depth < 2:
        _inline_helpers(fn, globs, counter, depth + 1, owner)          # helpers of helpers
    return fn


def _x8_fold_fresh_object(fn):
    """N8 (x8): inside `__init__`, in one block,
        v = K.__new__(K); v.a = e; self.f = v          (v a local bound only there and used nowhere else, e without v)
    becomes
        self.f = K.__new__(K); self.f.a = e
    — the spelling the x5 subset has (`x5_nested_store`).  The object is not reachable before `__init__` returns, and an
    exception raised by `e` leaves `__init__` in both spellings, so storing the empty object first is not observable."""
    if fn.name != "__init__" or not fn.args.args:
        return fn
    me = fn.args.args[0].arg
    uses = {}
    for n in ast.walk(fn):
        if isinstance(n, ast.Name):
            uses[n.id] = uses.get(n.id, 0) + 1
    def is_new(v):
        return isinstance(v, ast.Call) and isinstance(v.func, ast.Attribute) and v.func.attr == "__new__" \
            and isinstance(v.func.value, ast.Name) and len(v.args) == 1 and not v.keywords \
            and isinstance(v.args[0], ast.Name) and v.args[0].id == v.func.value.id
    def fold(stmts):
        out, i = [], 0
        while i < len(stmts):
            a = stmts[i]
            if i + 2 < len(stmts) and isinstance(a, ast.Assign) and len(a.targets) == 1 and isinstance(a.targets[0], ast.Name) \
                    and is_new(a.value):
                v = a.targets[0].id
                b, c = stmts[i + 1], stmts[i + 2]
                if v != me and v not in [x.arg for x in fn.args.args + fn.args.kwonlyargs] and uses.get(v) == 3 \
                        and isinstance(b, ast.Assign) and len(b.targets) == 1 and isinstance(b.targets[0], ast.Attribute) \
                        and isinstance(b.targets[0].value, ast.Name) and b.targets[0].value.id == v \
                        and not any(isinstance(x, ast.Name) and x.id == v for x in ast.walk(b.value)) \
                        and isinstance(c, ast.Assign) and len(c.targets) == 1 and isinstance(c.targets[0], ast.Attribute) \
                        and isinstance(c.targets[0].value, ast.Name) and c.targets[0].value.id == me \
                        and isinstance(c.value, ast.Name) and c.value.id == v:
                    f = c.targets[0].attr
                    s1 = ast.copy_location(ast.Assign(
                        targets=[ast.Attribute(value=ast.Name(id=me, ctx=ast.Load()), attr=f, ctx=ast.Store())],
                        value=a.value, type_comment=None), a)
                    s2 = ast.copy_location(ast.Assign(
                        targets=[ast.Attribute(value=ast.Attribute(value=ast.Name(id=me, ctx=ast.Load()), attr=f, ctx=ast.Load()),
                                               attr=b.targets[0].attr, ctx=ast.Store())],
                        value=b.value, type_comment=None), b)
                    out += [s1, s2]
                    i += 3
                    continue
            for fld in ("body", "orelse", "finalbody"):
                if isinstance(getattr(a, fld, None), list) and not isinstance(a, (ast.FunctionDef, ast.ClassDef, ast.Lambda)):
                    setattr(a, fld, fold(getattr(a, fld)))
            for h in getattr(a, "handlers", []) or []:
                h.body = fold(h.body)
            out.append(a)
            i += 1
        return out
    fn.body = fold(fn.body)
    # N9 (x8): a bare `self.f: T` (annotation without a value) executes nothing inside a function: dropped
    class _DropBare(ast.NodeTransformer):
        def visit_AnnAssign(self, node):
            if node.value is None and isinstance(node.target, ast.Attribute) and isinstance(node.target.value, ast.Name) \
                    and node.target.value.id == me:
                return ast.copy_location(ast.Pass(), node)
            return node
        def visit_FunctionDef(self, node):
            return node if node is not fn else self.generic_visit(node)
        def visit_Lambda(self, node):
            return node
    fn = _DropBare().visit(fn)
    return fn


def _x8_unroll_for_else(fn, globs):
    """N10 (x8): `for x in <constant tuple>: if c(x): B(x); break` + `else: E` is the chain
    `if c(k1): B(k1) elif c(k2): B(k2) … else: E` — the loop over a short tuple of str / int constants (a display, or a
    module-level tuple no local shadows) is unrolled when its body is that single `if` ending in `break`, `B` holds no other
    `break` / `continue`, and the loop variable is a plain name used only inside the loop and never rebound there."""
    import copy
    caller_locals = {n for s_ in _walk_scope(fn.body) for n in _targets_of(s_)} | {a.arg for a in fn.args.args + fn.args.kwonlyargs}
    for_targets = {}
    for n in ast.walk(fn):
        if isinstance(n, (ast.For, ast.comprehension)):
            for t in ast.walk(n.target):
                if isinstance(t, ast.Name):
                    for_targets[t.id] = for_targets.get(t.id, 0) + 1

    def constants(it):
        if isinstance(it, ast.Tuple) and all(isinstance(x, ast.Constant) for x in it.elts):
            vals = [x.value for x in it.elts]
        elif isinstance(it, ast.Name) and it.id not in caller_locals and it.id not in for_targets \
                and isinstance((globs or {}).get(it.id), tuple):
            vals = list(globs[it.id])
        else:
            return None
        if not 1 <= len(vals) <= 8 or not all(type(v) in (str, int) for v in vals):
            return None
        return vals

    def unroll(st):
        if not (isinstance(st, ast.For) and st.orelse and isinstance(st.target, ast.Name) and len(st.body) == 1
                and isinstance(st.body[0], ast.If) and not st.body[0].orelse and st.body[0].body
                and isinstance(st.body[0].body[-1], ast.Break)):
            return None
        x = st.target.id
        vals = constants(st.iter)
        inner = st.body[0]
        B = inner.body[:-1]
        if vals is None or not B or x in caller_locals or for_targets.get(x, 0) != 1:
            return None
        if any(isinstance(n, (ast.Break, ast.Continue, ast.Return.__class__)) and isinstance(n, (ast.Break, ast.Continue))
               for b in B for n in ast.walk(b)):
            return None
        inside = {id(n) for n in ast.walk(st)}
        if any(isinstance(n, ast.Name) and n.id == x and id(n) not in inside for n in ast.walk(fn)):
            return None
        chain = list(st.orelse)
        for v in reversed(vals):
            ren = _Renamer({x: ast.Constant(value=v)})
            chain = [ast.copy_location(ast.If(test=ren.visit(copy.deepcopy(inner.test)),
                                              body=[ren.visit(copy.deepcopy(b)) for b in B], orelse=chain), st)]
        for n in ast.walk(chain[0]):
            if not hasattr(n, "lineno"):
                ast.copy_location(n, st)
        return chain

    def walk(stmts):
        out = []
        for st in stmts:
            for fld in ("body", "orelse", "finalbody"):
                if isinstance(getattr(st, fld, None), list) and not isinstance(st, (ast.FunctionDef, ast.ClassDef)):
                    setattr(st, fld, walk(getattr(st, fld)))
            for h in getattr(st, "handlers", []) or []:
                h.body = walk(h.body)
            rep = unroll(st)
            out.extend(rep if rep is not None else [st])
        return out
    fn.body = walk(fn.body)
    return fn


def x4_normalise(fn, globs=None, owner=None):
    if globs is not None:
        fn = _inline_helpers(fn, globs, owner=owner)
        fn = _x8_unroll_for_else(fn, globs)              # x8: N10
    fn = _X4Normaliser(fn).visit(fn)
    fn = _x8_fold_fresh_object(fn)                       # x8: N8
    ast.fix_missing_locations(fn)
    return fn


class Fn:
    def __init__(self, ctx, lean_name, pyfunc, owner_cls=None):
        self.ctx, self.lean_name, self.pyfunc, self.owner_cls = ctx, lean_name, pyfunc, owner_cls
        src = textwrap.dedent(inspect.getsource(pyfunc))
        tree = ast.parse(src)
        self.node = tree.body[0]
        if not isinstance(self.node, ast.FunctionDef):
            raise Unsupported("not a plain function definition")
        _qn = pyfunc.__qualname__.split(".")
        _owner = pyfunc.__globals__.get(_qn[0]) if len(_qn) == 2 and inspect.isclass(pyfunc.__globals__.get(_qn[0])) else None
        self.node = x4_normalise(self.node, pyfunc.__globals__, _owner)   # x4: behaviour-preserving spellings -> one canonical AST
        self.globals = pyfunc.__globals__
        self.tmp = 0
        self.lines = []
        self.owner = None                     # the class a method / property getter is defined in
        qn = pyfunc.__qualname__.split(".")
        if len(qn) == 2 and qn[0] in self.globals and inspect.isclass(self.globals[qn[0]]):
            self.owner = self.globals[qn[0]]
        self._class_guard = set()
        self.state_param = None    # x3: name of the parameter that holds the shared, mutated Tokenizer
        a0 = self.node.args.args[0] if self.node.args.args else None
        if a0 is not None and ctx.is_state_fn(pyfunc):
            self.state_param = a0.arg
        self.fn_locals = {}        # local name -> ("get_operator", class, receiver term, operator term)
        self.dict_locals = {}      # local name -> {constant key: Lean local holding the value}

    # ------------------------------------------------------------------ static classes (for attribute resolution)
    def ann_class(self, ann):
        """the tracked class an annotation names (`C`, `C | None`, `Optional[C]` are read as C)"""
        if ann is None:
            return None
        if isinstance(ann, ast.Constant) and isinstance(ann.value, str):
            try:
                ann = ast.parse(ann.value, mode="eval").body
            except SyntaxError:
                return None
        if isinstance(ann, ast.BinOp) and isinstance(ann.op, ast.BitOr):
            for side in (ann.left, ann.right):
                if not (isinstance(side, ast.Constant) and side.value is None):
                    return self.ann_class(side)
            return None
        if isinstance(ann, ast.Name):
            v = self.globals.get(ann.id)
            if inspect.isclass(v) and self.ctx.is_tracked(v):
                return v
        return None

    def static_class(self, e):
        """the tracked class the value of `e` is an instance of, as far as annotations / constructor calls say; else None.
        Trusted: parameter annotations and `self.x = C(...)` in `__init__` (documented in the module header)."""
        r5 = self.x5_static_class(e)                          # --- x5
        if r5 is not _MISSING:
            return r5
        if isinstance(e, ast.Name):
            if e.id in self.bound_stack():
                return None
            args = self.node.args.args
            if self.owner is not None and args and e.id == args[0].arg and e.id not in self.param_assigned_names():
                return self.owner
            for a in args + self.node.args.kwonlyargs:
                if a.arg == e.id and e.id not in self.param_assigned_names():
                    c = self.ann_class(a.annotation)
                    return c if c is not None else (self.narrowed_class(e) or self.x3_guard_class(e))      # --- x2 / x3
            # a local assigned exactly once, from an expression of known class
            key = ("local", e.id)
            if key in self._class_guard:
                return None
            self._class_guard.add(key)
            try:
                found = [n for n in _walk_scope(self.node.body) if e.id in _targets_of(n)]
                # x4: besides `x = None` sentinels (an attribute of None is AttributeError here as well)
                found = [b for b in found if not (isinstance(b, ast.Assign) and len(b.targets) == 1 and isinstance(b.targets[0], ast.Name)
                                                  and isinstance(b.value, ast.Constant) and b.value.value is None)] or found
                if len(found) == 1 and isinstance(found[0], (ast.Assign, ast.AnnAssign)):
                    st = found[0]
                    tgt = st.targets[0] if isinstance(st, ast.Assign) else st.target
                    if isinstance(tgt, ast.Name) and st.value is not None:
                        return self.static_class(st.value)
            finally:
                self._class_guard.discard(key)
            return None
        if isinstance(e, ast.Call) and isinstance(e.func, ast.Name) and e.func.id not in self.locals:
            v = self.globals.get(e.func.id)
            if inspect.isclass(v) and self.ctx.is_tracked(v):
                return v
            if inspect.isfunction(v) and (v.__module__ or "").startswith("packaging"):
                try:                                  # the declared return class of a helper of the library
                    node = ast.parse(textwrap.dedent(inspect.getsource(v))).body[0]
                    saved = self.globals
                    self.globals = v.__globals__
                    try:
                        return self.ann_class(node.returns)
                    finally:
                        self.globals = saved
                except (OSError, SyntaxError):
                    return None
            return None
        if isinstance(e, ast.Attribute):
            c = self.static_class(e.value)
            if c is not None:
                return self.ctx.field_class(c, e.attr)
        if isinstance(e, ast.IfExp):
            a, b = self.static_class(e.body), self.static_class(e.orelse)
            if a is not None and b is not None:
                for k in a.__mro__:
                    if self.ctx.is_tracked(k) and k in b.__mro__:
                        return k
        return None

    # --- x2: `if not isinstance(p, C): return/raise …` at the top level of the body narrows parameter p to C afterwards
    def narrowed_class(self, e):
        for st in self.node.body:
            if getattr(st, "lineno", 0) >= getattr(e, "lineno", 0):
                break
            if isinstance(st, ast.If) and not st.orelse and not _falls_through(st.body) \
                    and isinstance(st.test, ast.UnaryOp) and isinstance(st.test.op, ast.Not):
                t = st.test.operand
                if isinstance(t, ast.Call) and isinstance(t.func, ast.Name) and t.func.id == "isinstance" and len(t.args) == 2 \
                        and isinstance(t.args[0], ast.Name) and t.args[0].id == e.id and isinstance(t.args[1], ast.Name):
                    v = self.globals.get(t.args[1].id)
                    if inspect.isclass(v) and self.ctx.is_tracked(v):
                        return v
        return None

    def param_assigned_names(self):
        return {n for st in _walk_scope(self.node.body) for n in _targets_of(st)} & set(self.params())

    # ------------------------------------------------------------------ helpers
    def fresh(self, base="t"):
        self.tmp += 1
        return f"__{base}{self.tmp}"

    def params(self):
        a = self.node.args
        if a.kwarg or a.posonlyargs:
            raise Unsupported("**kwargs / positional-only parameters")
        # x3: `*values` is one parameter holding the tuple of the extra positional arguments
        return [x.arg for x in a.args] + ([a.vararg.arg] if a.vararg else []) + [x.arg for x in a.kwonlyargs]

    # ------------------------------------------------------------------ analyses
    def analyse(self):
        body = self.node.body
        self.is_gen = any(isinstance(n, (ast.Yield, ast.YieldFrom)) for n in _walk_scope(body))
        params = self.params()
        assigned = []        # locals in order of first assignment
        for n in _walk_scope(body):
            for name in _targets_of(n):
                if name not in assigned:
                    assigned.append(name)
            if isinstance(n, (ast.Global, ast.Nonlocal, ast.AsyncFor, ast.AsyncWith, ast.Delete,
                              ast.ClassDef, ast.FunctionDef, ast.AsyncFunctionDef, ast.Match, ast.Import, ast.ImportFrom)):
                raise Unsupported(f"statement {type(n).__name__}")
        # loop variables that are read after their loop (Python leaks them) or assigned elsewhere become ordinary locals
        self.leaking = set()
        covered = {}                     # loop variable -> ids of the nodes inside some construct that binds it
        for n in _walk_scope(body, into_exprs=True):
            names = []
            if isinstance(n, ast.For):
                names = [t.id for t in ast.walk(n.target) if isinstance(t, ast.Name)]
            elif isinstance(n, (ast.ListComp, ast.GeneratorExp, ast.SetComp, ast.DictComp)):
                names = [t.id for g in n.generators for t in ast.walk(g.target) if isinstance(t, ast.Name)]
            elif isinstance(n, ast.Lambda):
                names = [a.arg for a in n.args.args]
            for v in names:
                covered.setdefault(v, set()).update(id(x) for x in ast.walk(n))
        loopvars = {t.id for n in _walk_scope(body) if isinstance(n, ast.For) for t in ast.walk(n.target) if isinstance(t, ast.Name)}
        for m in _walk_scope(body, into_exprs=True):
            if isinstance(m, ast.Name) and m.id in loopvars and id(m) not in covered.get(m.id, ()):
                self.leaking.add(m.id)
        for v in self.leaking:
            if v not in assigned:
                assigned.append(v)
        loop_names = {t.id for n in _walk_scope(body) if isinstance(n, ast.For) for t in ast.walk(n.target) if isinstance(t, ast.Name)}
        self.locals = set(assigned) | set(params) | loop_names
        self.param_assigned = [p for p in params if p in assigned]
        self.is_init = self.owner is not None and (self.node.name == "__init__" or self.x5_is_setter())      # x5: a property setter
        if self.is_init and params:
            if params[0] not in self.param_assigned:
                self.param_assigned.append(params[0])
        # mutated names
        self.mutated = set()
        for n in _walk_scope(body):
            if isinstance(n, ast.Expr) and isinstance(n.value, ast.Call) and isinstance(n.value.func, ast.Attribute) \
                    and isinstance(n.value.func.value, ast.Name) and n.value.func.attr in (set(MUTATORS) | OTHER_MUTATORS) \
                    and n.value.func.value.id in self.locals:
                if n.value.func.attr in DICT_MUTATORS and self.x3_is_dict_name(n.value.func.value.id):
                    continue                             # x3: checked in x3_analyse
                if n.value.func.attr in OTHER_MUTATORS:
                    raise Unsupported(f"in-place method {n.value.func.attr}")
                self.mutated.add(n.value.func.value.id)
            if isinstance(n, (ast.Assign, ast.AugAssign, ast.AnnAssign)):
                ts = n.targets if isinstance(n, ast.Assign) else [n.target]
                for t in ts:
                    if self.is_init and isinstance(n, ast.Assign) and isinstance(t, ast.Attribute) \
                            and isinstance(t.value, ast.Name) and t.value.id == params[0]:
                        continue                         # self.x = e inside __init__
                    if isinstance(t, ast.Subscript) and isinstance(t.value, ast.Name) and t.value.id in self.locals:
                        continue                         # x3: `name[k] = e`, checked in x3_analyse
                    if self.x5_attr_store_ok(n, t) or self.x5_nested_store(n, t):
                        continue                         # x5: `obj.x = e` on a local that holds a fresh object
                    if self.x7_attr_store_ok(n, t):
                        continue                         # x7: `exc.__cause__ = e`, `ins._raw = e`
                    for sub in ast.walk(t):
                        if isinstance(sub, (ast.Subscript, ast.Attribute)) and isinstance(sub.ctx, ast.Store):
                            raise Unsupported("assignment to a subscript or attribute")
        self.x3_analyse(body)
        self._check_ownership(body)
        # hoisting: locals whose first assignment is not a top-level statement of the body
        top_first = set()
        seen = set()
        for st in body:
            here = _targets_of(st) if isinstance(st, (ast.Assign, ast.AnnAssign, ast.AugAssign)) else []
            for n in _walk_scope([st]):
                for name in _targets_of(n):
                    if name not in seen:
                        seen.add(name)
                        if name in here:
                            top_first.add(name)
        self.hoisted = [v for v in assigned if v not in top_first and v not in params]
        self.declared = set(params) | set(self.hoisted)
        self._check_definite(body)
        self.x5_rewrite()                                    # x5

    def _check_ownership(self, body):
        if not self.mutated:
            return
        # a name may hold shared values (parameter, results of calls) *before* the last top-level `m = <fresh list>`
        # that precedes every in-place mutation of m; from there on it must be owned
        self.owned_from = {}
        for m in self.mutated:
            muts = [n.lineno for n in _walk_scope(body)
                    if isinstance(n, ast.Expr) and isinstance(n.value, ast.Call) and isinstance(n.value.func, ast.Attribute)
                    and isinstance(n.value.func.value, ast.Name) and n.value.func.value.id == m and n.value.func.attr in MUTATORS]
            muts += [n.lineno for n in _walk_scope(body) if _nested_mutation(n) == m]          # x3
            first = min(muts)
            fresh = [st for st in body if isinstance(st, ast.Assign) and len(st.targets) == 1
                     and isinstance(st.targets[0], ast.Name) and st.targets[0].id == m and _is_fresh_list(st.value)
                     and st.lineno < first]
            # x2: a top-level `if` before the first mutation whose every branch ends by binding m to a fresh list
            fresh += [st for st in body if isinstance(st, ast.If) and st.end_lineno < first and self._if_binds_fresh(st, m)]
            fresh.sort(key=lambda st: st.lineno)
            self.owned_from[m] = (fresh[-1].end_lineno if isinstance(fresh[-1], ast.If) else fresh[-1].lineno) if fresh else 0
            if m in self.params() and not fresh:
                raise Unsupported(f"parameter {m} is mutated in place")
        for n in _walk_scope(body):
            if isinstance(n, (ast.Assign, ast.AnnAssign, ast.AugAssign)):
                if isinstance(n, ast.AugAssign):
                    if isinstance(n.target, ast.Name) and n.target.id in self.mutated:
                        raise Unsupported("augmented assignment to a list that is mutated in place")
                    continue
                value = n.value
                targets = n.targets if isinstance(n, ast.Assign) else [n.target]
                for t in targets:
                    pairs = []
                    if isinstance(t, ast.Name):
                        pairs = [(t, value)]
                    elif isinstance(t, (ast.Tuple, ast.List)) and isinstance(value, (ast.Tuple, ast.List)) and len(t.elts) == len(value.elts):
                        pairs = list(zip(t.elts, value.elts))
                    elif isinstance(t, (ast.Tuple, ast.List)):
                        if any(isinstance(e, ast.Name) and e.id in self.mutated for e in t.elts):
                            raise Unsupported("a list that is mutated in place is bound by unpacking")
                    for tt, vv in pairs:
                        if isinstance(tt, ast.Name) and tt.id in self.mutated and vv is not None and not _is_fresh_list(vv) \
                                and not self._fresh_call(vv) and n.lineno >= self.owned_from[tt.id]:
                            raise Unsupported(f"{tt.id} is mutated in place but bound to a value that may be shared")
            if isinstance(n, ast.For):
                for sub in ast.walk(n.target):
                    if isinstance(sub, ast.Name) and sub.id in self.mutated:
                        raise Unsupported("loop variable is mutated in place")
        # every Load of a mutated name must be in a non-aliasing context
        parents = {}
        for n in _walk_scope(body, into_exprs=True):
            for c in ast.iter_child_nodes(n):
                parents[c] = n
        for n in _walk_scope(body, into_exprs=True):
            if isinstance(n, ast.Name) and isinstance(n.ctx, ast.Load) and n.id in self.mutated:
                p = parents.get(n)
                ok = False
                if n.lineno <= self.owned_from[n.id]:
                    ok = True                                    # still the shared value
                elif isinstance(p, ast.Call) and isinstance(p.func, ast.Name) and n in p.args and self._scalar_callee(p.func.id):
                    ok = True                                    # a selected function that returns a scalar
                elif isinstance(p, ast.Attribute) and p.value is n:
                    ok = True                                    # receiver of a method / attribute
                elif isinstance(p, ast.Subscript) and p.value is n:
                    ok = True
                elif isinstance(p, ast.Call) and isinstance(p.func, ast.Name) and p.func.id in CONSUMERS and n in p.args:
                    ok = True
                elif isinstance(p, ast.Call) and isinstance(p.func, ast.Attribute) and p.func.attr in ("join", "from_iterable") and n in p.args:
                    ok = True
                elif isinstance(p, (ast.For, ast.comprehension)) and p.iter is n:
                    ok = True
                elif isinstance(p, ast.Return):
                    ok = True
                elif isinstance(p, ast.Compare):
                    ok = True
                elif isinstance(p, ast.Starred):
                    ok = True
                elif isinstance(p, ast.Assign) and p.value is n and len(p.targets) == 1 and isinstance(p.targets[0], ast.Tuple) \
                        and all(isinstance(x, ast.Name) for x in p.targets[0].elts):
                    ok = True                                    # x3: unpacking reads the elements, no alias of the list
                elif isinstance(p, (ast.If, ast.IfExp, ast.UnaryOp)):
                    ok = True                                    # truth test
                elif isinstance(p, ast.BoolOp) and isinstance(parents.get(p), (ast.If, ast.UnaryOp)):
                    ok = True                                    # truth test inside a condition
                elif self.x9_list_alias_ok(n, p, body):          # x9
                    ok = True
                if not ok:
                    raise Unsupported(f"{n.id} is mutated in place and used where an alias could be created")

    # --- x2: freshness through branches / library functions
    def _fresh_call(self, v, depth=0):
        """a call of a function of the library every `return` of which hands back a freshly built list (a display, a
        comprehension, `list(...)`, a local that only ever holds such lists, or a call of another such function)"""
        if not (isinstance(v, ast.Call) and isinstance(v.func, ast.Name)) or depth > 3:
            return False
        f = self.globals.get(v.func.id)
        if not inspect.isfunction(f) or not (f.__module__ or "").startswith("packaging"):
            return False
        try:
            node = ast.parse(textwrap.dedent(inspect.getsource(f))).body[0]
        except (OSError, SyntaxError):
            return False
        rets = [n for n in _walk_scope(node.body) if isinstance(n, ast.Return)]
        if not rets:
            return False
        sub = Fn.__new__(Fn)
        sub.globals = f.__globals__
        for r in rets:
            x = r.value
            if x is None:
                return False
            if _is_fresh_list(x) or sub._fresh_call(x, depth + 1):
                continue
            if isinstance(x, ast.Name):
                binds = [n for n in _walk_scope(node.body) if x.id in _targets_of(n)]
                if binds and x.id not in [a.arg for a in node.args.args + node.args.kwonlyargs] and all(
                        isinstance(b, ast.Assign) and len(b.targets) == 1 and isinstance(b.targets[0], ast.Name)
                        and (_is_fresh_list(b.value) or sub._fresh_call(b.value, depth + 1)) for b in binds):
                    continue
            return False
        return True

    def _if_binds_fresh(self, st, m):
        def last_bind(stmts):
            for x in reversed(stmts):
                if isinstance(x, ast.Assign) and len(x.targets) == 1 and isinstance(x.targets[0], ast.Name) and x.targets[0].id == m:
                    return _is_fresh_list(x.value) or self._fresh_call(x.value)
                if isinstance(x, ast.If):
                    return self._if_binds_fresh(x, m)
                if any(m in _targets_of(y) for y in _walk_scope([x])):
                    return False
            return False
        return bool(st.orelse) and last_bind(st.body) and last_bind(st.orelse)

    def _scalar_callee(self, name):
        """a module-level function of packaging whose return annotation is bool/str/int/None: it cannot hand back an
        alias of a list argument (and, being translated under the same rules, does not mutate it)"""
        f = self.globals.get(name)
        if not inspect.isfunction(f) or not (f.__module__ or "").startswith("packaging"):
            return False
        try:
            node = ast.parse(textwrap.dedent(inspect.getsource(f))).body[0]
        except (OSError, SyntaxError):
            return False
        r = node.returns
        return isinstance(r, ast.Name) and r.id in SCALAR_RETURNS or (isinstance(r, ast.Constant) and r.value is None)

    def _check_definite(self, body):
        """definite-assignment analysis: `self.maybe_unbound` = the Name loads that can see an unassigned local
        (they are read through `PyRt.bound`, which raises UnboundLocalError like CPython)"""
        params = set(self.params())
        self.maybe_unbound = set()

        def expr_loads(e, defined, bound=frozenset()):
            """all local Loads in expression e are defined (comprehension / lambda targets are bound inside)"""
            if isinstance(e, (ast.ListComp, ast.GeneratorExp, ast.SetComp, ast.DictComp)):
                b = set(bound)
                for g in e.generators:
                    expr_loads(g.iter, defined, frozenset(b))
                    for t in ast.walk(g.target):
                        if isinstance(t, ast.Name):
                            b.add(t.id)
                    for c in g.ifs:
                        expr_loads(c, defined, frozenset(b))
                for part in ([e.elt] if not isinstance(e, ast.DictComp) else [e.key, e.value]):
                    expr_loads(part, defined, frozenset(b))
                return
            if isinstance(e, ast.Lambda):
                b = set(bound) | {a.arg for a in e.args.args}
                expr_loads(e.body, defined, frozenset(b))
                return
            if isinstance(e, ast.Name):
                if isinstance(e.ctx, ast.Load) and e.id in self.locals and e.id not in defined and e.id not in bound:
                    self.maybe_unbound.add(id(e))
                return
            for c in ast.iter_child_nodes(e):
                expr_loads(c, defined, bound)

        def block(stmts, defined):
            """returns the set of names definitely assigned after the block, or None if the block never falls through"""
            d = set(defined)
            for st in stmts:
                if isinstance(st, ast.Return):
                    if st.value is not None:
                        expr_loads(st.value, d)
                    return None
                if isinstance(st, ast.Raise):
                    if st.exc is not None:
                        expr_loads(st.exc, d)
                    return None
                if isinstance(st, (ast.Break, ast.Continue)):
                    return None
                if isinstance(st, ast.Assign):
                    expr_loads(st.value, d)
                    for t in st.targets:
                        if isinstance(t, ast.Attribute):
                            expr_loads(t.value, d)
                    d |= set(_targets_of(st))
                elif isinstance(st, ast.AnnAssign):
                    if st.value is not None:
                        expr_loads(st.value, d)
                        d |= set(_targets_of(st))
                elif isinstance(st, ast.AugAssign):
                    expr_loads(st.value, d)
                    if isinstance(st.target, ast.Name) and st.target.id not in d:
                        raise Unsupported(f"augmented assignment to {st.target.id}, which may be unassigned")
                elif isinstance(st, ast.If):
                    expr_loads(st.test, d)
                    a = block(st.body, d)
                    b = block(st.orelse, d)
                    if a is None and b is None:
                        return None
                    d = b if a is None else a if b is None else (a & b)
                elif isinstance(st, ast.For):
                    expr_loads(st.iter, d)
                    inner = set(d) | {t.id for t in ast.walk(st.target) if isinstance(t, ast.Name)}
                    block(st.body, inner)
                    if st.orelse:
                        raise Unsupported("for ... else")
                elif isinstance(st, ast.Try):
                    if st.finalbody:
                        raise Unsupported("try ... finally")
                    a = block(st.body, d)
                    if st.orelse and a is not None:       # x3: the else block runs after a body that completed
                        a = block(st.orelse, a)
                    outs = [a]
                    for h in st.handlers:
                        outs.append(block(h.body, d))
                    outs = [o for o in outs if o is not None]
                    if not outs:
                        return None
                    nd = outs[0]
                    for o in outs[1:]:
                        nd = nd & o
                    d = nd
                elif isinstance(st, ast.While):               # x3
                    expr_loads(st.test, d)
                    block(st.body, set(d))
                    if st.orelse:
                        raise Unsupported("while ... else")
                elif isinstance(st, ast.With):                # x3
                    for it in st.items:
                        expr_loads(it.context_expr, d)
                        if it.optional_vars is not None:
                            raise Unsupported("with ... as")
                    r = block(st.body, d)
                    if r is None:
                        return None
                    d = r
                elif isinstance(st, (ast.Expr, ast.Assert)):
                    expr_loads(st.value if isinstance(st, ast.Expr) else st.test, d)
                elif isinstance(st, ast.Pass):
                    pass
                else:
                    raise Unsupported(f"statement {type(st).__name__}")
            return d

        block(body, params)

    # ------------------------------------------------------------------ emission
    def emit(self, indent, text):
        self.lines.append("  " * indent + text)

    def translate(self):
        self.x6_prepare()                                     # x6: rewriting pass over the ast
        self.x7_prepare()                                     # x7: classmethods, exception objects
        r9 = self.x9_prepare()                                # x9: tokenizer methods, `parse_email`
        if r9 is not None:
            return r9
        self.analyse()
        params = self.params()
        sig = " ".join(lname(p) for p in params)
        self.head_index = len(self.lines)
        self.emit(0, "")                       # the header is written last: whether `env` is needed is known then
        for p in self.param_assigned:
            self.emit(1, f"let mut {lname(p)} := {lname(p)}")
        for v in self.hoisted:
            self.emit(1, f"let mut {lname(v)} : PyVal := PyVal.unbound")
        if self.is_gen:
            self.emit(1, "let mut __yield : List PyVal := []")
        body = list(self.node.body)
        if body and isinstance(body[0], ast.Expr) and isinstance(body[0].value, ast.Constant) and isinstance(body[0].value.value, str):
            body = body[1:]
        self.block(body, 1)
        if _falls_through(body):
            self.emit(1, "return " + self.default_return())
        env = "(env : PyRt.Env) " if self.lean_name in self.ctx.uses_env else ""
        env += "(ext : PyRt.Oracle) " if self.lean_name in self.ctx.uses_ext else ""          # x3
        monad = "M"
        if self.state_param is not None:                                                       # x3: state monad
            monad = STATE_MONAD
            self.ctx.imports.add(STATE_IMPORT)
            self.ctx.state_fns.add(self.lean_name)
            params = [p for p in params if p != self.state_param]
            sig = " ".join(lname(p) for p in params)
        if getattr(self, "x7_mx", False):                                                      # x7: exception objects
            monad = X7_MX
            self.ctx.imports.add(X7_IMPORT)
        if getattr(self, "x9_io", None):                                                       # x9: the message is the state
            monad = X9_SM
            self.ctx.imports.add(X9_IMPORT)
        if getattr(self, "has_while", False):
            self.ctx.loops.add(self.lean_name)
        if self.lean_name in self.ctx.recursive:                                               # x3: fuel
            ps = [lname(p) for p in params]
            self.lines[self.head_index] = (
                f"def {self.lean_name}__fuel {env}: Nat" + "".join(" → PyVal" for _ in ps) + f" → {monad} PyVal\n"
                f"  | 0" + "".join(", _" for _ in ps) + ' => throw "RecursionError"\n'
                f"  | __fuel + 1" + "".join(", " + q for q in ps) + " => do")
            return "\n".join([self.lines[self.head_index]] + ["  " + l for l in self.lines[self.head_index + 1:]])
        self.lines[self.head_index] = f"def {self.lean_name} {env}" + (f"({sig} : PyVal) " if params else "") + f": {monad} PyVal := do"
        return "\n".join(self.lines)

    def default_return(self):
        if self.is_gen:
            return "PyVal.iter __yield"
        if self.is_init:
            return lname(self.params()[0])          # convention: `__init__` hands back the initialised object
        return "PyVal.none"

    def use_env(self):
        self.ctx.uses_env.add(self.lean_name)
        return "env"

    def block(self, stmts, ind):
        if not stmts:
            self.emit(ind, "pure ()")
        for st in stmts:
            self.stmt(st, ind)

    def assign_name(self, name, rhs_pure, rhs, ind):
        """bind or rebind local `name` to a value (rhs is a PyVal term if rhs_pure else an M PyVal term)"""
        n = lname(name)
        if name in self.declared:
            self.emit(ind, f"{n} := {rhs}" if rhs_pure else f"{n} ← {rhs}")
        else:
            self.declared.add(name)
            self.emit(ind, f"let mut {n} := {rhs}" if rhs_pure else f"let mut {n} ← {rhs}")

    def stmt(self, st, ind):
        if self.x9_stmt(st, ind):                            # x9
            return
        if self.x7_stmt(st, ind):                            # x7
            return
        if self.x3_stmt(st, ind):
            return
        if self.x5_stmt(st, ind):                            # x5
            return
        if isinstance(st, ast.Pass):
            self.emit(ind, "pure ()")
        elif isinstance(st, ast.Return):
            if self.is_gen:
                if st.value is not None:          # the generator's return value is dropped by every consumer; evaluate it
                    self.emit(ind, f"let _ := {self.val(st.value)}")
                self.emit(ind, "return PyVal.iter __yield")
            elif self.is_init:
                if st.value is not None and not (isinstance(st.value, ast.Constant) and st.value.value is None):
                    raise Unsupported("__init__ returning a value")
                self.emit(ind, "return " + self.default_return())
            elif st.value is None:
                self.emit(ind, "return PyVal.none")
            else:
                self.emit(ind, "return " + self.val(st.value))
        elif isinstance(st, ast.Raise):
            self.emit(ind, f'throw "{self.exc_class(st.exc)}"')
        elif isinstance(st, ast.Assert):
            self.emit(ind, f"if !({self.cond(st.test)}) then throw PyRt.assertionError")
        elif isinstance(st, ast.Expr):
            self.expr_stmt(st.value, ind)
        elif isinstance(st, ast.AnnAssign):
            if st.value is None:
                return
            if not isinstance(st.target, ast.Name):
                raise Unsupported("annotated assignment to a non-name")
            if self.special_assign(st.target.id, st.value, ind):
                return
            p, c = self.expr(st.value)
            self.assign_name(st.target.id, p, c, ind)
        elif isinstance(st, ast.AugAssign):
            if not isinstance(st.target, ast.Name):
                raise Unsupported("augmented assignment to a non-name")
            op = self.binop_fn(st.op)
            self.emit(ind, f"{lname(st.target.id)} ← {op} {lname(st.target.id)} {self.val(st.value)}")
        elif isinstance(st, ast.Assign):
            if len(st.targets) != 1:
                if not all(isinstance(t, ast.Name) for t in st.targets):
                    raise Unsupported("chained assignment to other than names")
                t0 = self.fresh()
                p, c = self.expr(st.value)
                self.emit(ind, f"let {t0} := {c}" if p else f"let {t0} ← {c}")
                for t in st.targets:
                    self.assign_name(t.id, True, t0, ind)
                return
            t = st.targets[0]
            if isinstance(t, ast.Name) and self.special_assign(t.id, st.value, ind):
                return
            if self.is_init and isinstance(t, ast.Attribute) and isinstance(t.value, ast.Name) and t.value.id == self.params()[0]:
                me = lname(t.value.id)
                self.emit(ind, f'{me} ← PyRt.setattr {me} "{t.attr}" {self.val(st.value)}')
                return
            self.assign(t, st.value, ind)
        elif isinstance(st, ast.If):
            self.emit(ind, f"if {self.cond(st.test)} then")
            self.block(st.body, ind + 1)
            if st.orelse:
                self.emit(ind, "else")
                self.block(st.orelse, ind + 1)
        elif isinstance(st, ast.For):
            src = self.val(st.iter)
            body_assigned = {n for s in _walk_scope(st.body) for n in _targets_of(s)}
            if isinstance(st.target, ast.Name):
                tv = st.target.id
                if tv in body_assigned or tv in self.declared or tv in self.leaking:
                    t = self.fresh("x")
                    self.emit(ind, f"for {t} in (← PyRt.iterate {src}) do")
                    if tv in self.declared:
                        self.emit(ind + 1, f"{lname(tv)} := {t}")
                    else:
                        self.emit(ind + 1, f"let mut {lname(tv)} := {t}")
                else:
                    self.emit(ind, f"for {lname(tv)} in (← PyRt.iterate {src}) do")
            elif isinstance(st.target, ast.Tuple) and all(isinstance(e, ast.Name) for e in st.target.elts):
                names = [e.id for e in st.target.elts]
                for tv in names:
                    if tv in body_assigned or tv in self.declared or tv in self.leaking:
                        raise Unsupported("loop variable of a tuple target is reassigned or used after the loop")
                t = self.fresh("x")
                self.emit(ind, f"for {t} in (← PyRt.iterate {src}) do")
                self.emit(ind + 1, self.unpack_line(names, t))
                self.x3_enter_loop(st, names, ind + 1)
            else:
                raise Unsupported("loop target")
            saved = set(self.declared)
            self.loop_stack = getattr(self, "loop_stack", []) + [None]
            self.block(st.body, ind + 1)
            self.loop_stack = self.loop_stack[:-1]
            self.declared = saved | (self.declared & set(self.hoisted))
        elif isinstance(st, (ast.Break,)):
            if getattr(self, "loop_stack", None) and self.loop_stack[-1] is not None:
                self.emit(ind, f"{self.loop_stack[-1]} := true")        # x3: a `while` loop that ended by itself
            self.emit(ind, "break")
        elif isinstance(st, ast.Continue):
            self.emit(ind, "continue")
        elif isinstance(st, ast.Try):
            flag = None
            if st.orelse:                                  # x3: try/else — the flag says the body ran to its end
                flag = self.fresh("else")
                self.emit(ind, f"let mut {flag} := false")
            self.emit(ind, "try")
            saved = set(self.declared)
            self.block(st.body, ind + 1)
            if flag is not None and _falls_through(st.body):
                self.emit(ind + 1, f"{flag} := true")
            self.declared = set(saved)
            e = self.fresh("e")
            self.emit(ind, f"catch {e} =>")
            first = True
            for h in st.handlers:
                if h.name is not None and any(isinstance(n, ast.Name) and n.id == h.name for s in h.body
                                              for sub in ([s] if not isinstance(s, ast.Raise) else [])     # x3: a `raise … from exc`
                                              for n in ast.walk(sub)):                                    # keeps only the class
                    raise Unsupported("the caught exception object is used")
                classes = self.handler_classes(h.type)
                test = " || ".join(f'PyRt.catches "{c}" {e}' for c in classes)
                self.emit(ind + 1, ("if " if first else "else if ") + test + " then")
                first = False
                self.block(h.body, ind + 2)
                self.declared = set(saved)
            self.emit(ind + 1, f"else throw {e}")
            if flag is not None:
                self.emit(ind, f"if {flag} then")
                self.block(st.orelse, ind + 1)
                self.declared = set(saved) | (self.declared & set(self.hoisted))
        else:
            raise Unsupported(f"statement {type(st).__name__}")

    def special_assign(self, name, value, ind):
        """assignments whose value is not a PyVal: `f = self._get_operator(op)` (a bound method, called later) and
        `kw = {"k": e, …}` (a constant-key dict passed on with `**kw`); both are resolved at translation time"""
        assigned_once = sum(1 for n in _walk_scope(self.node.body) if name in _targets_of(n)) == 1
        if isinstance(value, ast.Call) and isinstance(value.func, ast.Attribute) and value.func.attr == "_get_operator" \
                and len(value.args) == 1 and not value.keywords:
            c = self.static_class(value.func.value)
            if c is None or not assigned_once:
                raise Unsupported("_get_operator result bound more than once / on an unknown class")
            self.check_get_operator(c)
            r, o = self.fresh("r"), self.fresh("op")
            self.emit(ind, f"let {r} := {self.val(value.func.value)}")
            self.emit(ind, f"let {o} := {self.val(value.args[0])}")
            self.fn_locals[name] = ("get_operator", c, r, o)
            return True
        if isinstance(value, ast.Dict) and assigned_once and all(isinstance(k, ast.Constant) and isinstance(k.value, str) for k in value.keys):
            uses = [n for n in _walk_scope(self.node.body, into_exprs=True) if isinstance(n, ast.Name) and n.id == name and isinstance(n.ctx, ast.Load)]
            parents = {}
            for n in _walk_scope(self.node.body, into_exprs=True):
                for ch in ast.iter_child_nodes(n):
                    parents[ch] = n
            if uses and all(isinstance(parents.get(u), ast.keyword) and parents[u].arg is None for u in uses):
                d = {}
                for k, v in zip(value.keys, value.values):
                    t = self.fresh("kw")
                    p, c = self.expr(v)
                    self.emit(ind, f"let {t} := {c}" if p else f"let {t} ← {c}")
                    d[k.value] = t
                self.dict_locals[name] = d
                return True
        return False

    def check_get_operator(self, c):
        helper = self.ctx.lookup(c, "_get_operator")
        guard = PARTIAL_EVAL_GUARDS.get(f"{c.__name__}._get_operator")
        if not inspect.isfunction(helper) or guard is None or textwrap.dedent(inspect.getsource(helper)) != guard:
            raise Unsupported("_get_operator is not the helper the translator knows how to evaluate")
        table = self.ctx.lookup(c, "_operators")
        if not isinstance(table, dict):
            raise Unsupported("operator table")
        return table

    def get_operator_dispatcher(self, c):
        """`<C>._get_operator__call self op a b`: the method `_compare_<_operators[op]>` chosen by the operator string
        (KeyError for a string that is not a key), emitted once"""
        table = self.check_get_operator(c)
        name = f"{c.__name__}._get_operator__call"
        if name not in self.ctx.dispatchers:
            body = ""
            deps = set()
            for opstr, suffix in table.items():
                impl = self.ctx.lookup(c, f"_compare_{suffix}")
                if not inspect.isfunction(impl):
                    raise Unsupported(f"_compare_{suffix} is not a plain function")
                fn = self.ctx.require(impl)
                deps.add(fn)
                body += f"if PyVal.eq op (PyVal.str {lstr(opstr)}) then {fn} self a b else "
            body += 'throw "KeyError"'
            self.ctx.dispatchers[name] = f"def {name} (self op a b : PyVal) : M PyVal :=\n  {body}"
            self.ctx.dispatcher_deps[name] = deps
        self.ctx.deps.setdefault(self.ctx.current, set()).add(name)
        return name

    def _check_loop_var_not_used_after(self, name, loop):
        """Python leaks the loop variable; the Lean binder does not: refuse functions that read it after the loop"""
        inside = {id(n) for n in ast.walk(loop)}
        for n in _walk_scope(self.node.body, into_exprs=True):
            if isinstance(n, ast.Name) and n.id == name and id(n) not in inside and isinstance(n.ctx, ast.Load):
                # a different binding of the same name elsewhere is fine only if it is assigned before; keep it simple
                if name not in self.hoisted and name not in self.params():
                    raise Unsupported(f"loop variable {name} is used outside its loop")

    def unpack_line(self, names, src):
        ns = [lname(n) for n in names]
        if len(ns) == 2:
            return f"let ({ns[0]}, {ns[1]}) ← PyRt.unpack2 {src}"
        if len(ns) == 3:
            return f"let ({ns[0]}, {ns[1]}, {ns[2]}) ← PyRt.unpack3 {src}"
        raise Unsupported(f"unpacking into {len(ns)} names")

    def assign(self, target, value, ind):
        if isinstance(target, ast.Name):
            p, c = self.expr(value)
            self.assign_name(target.id, p, c, ind)
            return
        if isinstance(target, (ast.Tuple, ast.List)):
            elts = target.elts
            stars = [i for i, e in enumerate(elts) if isinstance(e, ast.Starred)]
            if any(not isinstance(e.value if isinstance(e, ast.Starred) else e, ast.Name) for e in elts):
                raise Unsupported("nested unpacking target")
            names = [(e.value if isinstance(e, ast.Starred) else e).id for e in elts]
            if not stars and isinstance(value, (ast.Tuple, ast.List)) and len(value.elts) == len(elts) \
                    and not any(isinstance(v, ast.Starred) for v in value.elts):
                # parallel assignment: all right-hand sides first
                tmps = []
                for v in value.elts:
                    t = self.fresh()
                    p, c = self.expr(v)
                    self.emit(ind, f"let {t} := {c}" if p else f"let {t} ← {c}")
                    tmps.append(t)
                for n, t in zip(names, tmps):
                    self.assign_name(n, True, t, ind)
                return
            src = self.val(value)
            if not stars:
                tmps = [self.fresh() for _ in names]
                if len(names) == 2:
                    self.emit(ind, f"let ({tmps[0]}, {tmps[1]}) ← PyRt.unpack2 {src}")
                elif len(names) == 3:
                    self.emit(ind, f"let ({tmps[0]}, {tmps[1]}, {tmps[2]}) ← PyRt.unpack3 {src}")
                else:
                    raise Unsupported(f"unpacking into {len(names)} names")
                for n, t in zip(names, tmps):
                    self.assign_name(n, True, t, ind)
                return
            if stars == [1] and len(names) == 2:
                a, b = self.fresh(), self.fresh()
                self.emit(ind, f"let ({a}, {b}) ← PyRt.unpackHeadRest {src}")
                self.assign_name(names[0], True, a, ind)
                self.assign_name(names[1], True, b, ind)
                return
            raise Unsupported("starred unpacking other than `head, *rest`")
        raise Unsupported("assignment target " + type(target).__name__)

    def expr_stmt(self, e, ind):
        if isinstance(e, ast.Constant) and isinstance(e.value, str):
            return                                   # doc string / bare string
        if isinstance(e, ast.Yield):
            if e.value is None:
                raise Unsupported("bare yield")
            self.emit(ind, f"__yield := __yield ++ [{self.val(e.value)}]")
            return
        if isinstance(e, ast.YieldFrom):
            self.emit(ind, f"__yield := __yield ++ (← PyRt.iterate {self.val(e.value)})")
            return
        if isinstance(e, ast.Call) and ".".join(_dotted(e.func) or []) in DROPPED_CALLS:
            for a in e.args:                     # the arguments are still evaluated (they could raise)
                if isinstance(a, ast.Name) and a.id not in self.locals and a.id not in self.globals:      # x2: a builtin class
                    import builtins
                    if inspect.isclass(getattr(builtins, a.id, None)):
                        continue
                p, c = self.expr(a)
                if not p:
                    self.emit(ind, f"let _ ← {c}")
            self.emit(ind, "pure ()")
            return
        if self.x3_expr_stmt(e, ind):
            return
        if isinstance(e, ast.Call) and isinstance(e.func, ast.Attribute) and isinstance(e.func.value, ast.Name) \
                and e.func.attr in MUTATORS and e.func.value.id in self.mutated:
            fn, ar = MUTATORS[e.func.attr]
            if len(e.args) != ar or e.keywords:
                raise Unsupported(f"arguments of {e.func.attr}")
            n = lname(e.func.value.id)
            if e.func.attr == "add":                  # --- x2: sets
                self.ctx.imports.add("PkgModel.PyRx")
                self.emit(ind, f"{n} ← {fn} {self.eqf_of(e.args[0])} {n} {self.val(e.args[0])}")
                return
            self.emit(ind, f"{n} ← {fn} {n} " + " ".join(self.val(a) for a in e.args))
            return
        raise Unsupported("expression statement " + ast.dump(e)[:60])

    # ------------------------------------------------------------------ expressions
    def val(self, e) -> str:
        """a PyVal term usable inside the enclosing `do` element (monadic parts are lifted with `←`)"""
        p, c = self.expr(e)
        return c if p else f"(← {c})"

    def mval(self, e) -> str:
        """an `M PyVal` term"""
        p, c = self.expr(e)
        return f"pure {c}" if p else c

    def scoped(self, e) -> str:
        """`e` evaluated in a `do` block of its own (so that nothing is lifted out of a branch / closure)"""
        p, c = self.expr(e)
        return f"(pure {c})" if p else f"(do {c})"

    def cond(self, e) -> str:
        """a Bool term: the truth value of `e` in a condition (monadic parts lifted)"""
        c5 = self.x5_cond(e)                                  # x5: truth value of a set
        if c5 is not None:
            return c5
        if isinstance(e, ast.UnaryOp) and isinstance(e.op, ast.Not):
            return f"!({self.cond(e.operand)})"
        if isinstance(e, ast.BoolOp) and all(self.is_pure(v) for v in e.values):
            op = " && " if isinstance(e.op, ast.And) else " || "
            return "(" + op.join(self.cond(v) for v in e.values) + ")"
        if isinstance(e, ast.Compare) and len(e.ops) == 1 and self.static_class(e.left) is not None \
                and type(e.ops[0]) in _RICH:
            return f"PyRt.truthy {self.val(e)}"
        if isinstance(e, ast.Compare) and len(e.ops) == 1:
            l, r, op = e.left, e.comparators[0], e.ops[0]
            if isinstance(op, (ast.Is, ast.IsNot)) and isinstance(r, ast.Constant) and r.value is None:
                t = f"PyRt.isNone {self.val(l)}"
                return t if isinstance(op, ast.Is) else f"!({t})"
            if isinstance(op, ast.Eq):
                return f"PyVal.eq {self.val(l)} {self.val(r)}"
            if isinstance(op, ast.NotEq):
                return f"!(PyVal.eq {self.val(l)} {self.val(r)})"
            if isinstance(op, ast.In):
                return self._in(l, r, False)
            if isinstance(op, ast.NotIn):
                return self._in(l, r, True)
            if isinstance(op, (ast.Lt, ast.LtE, ast.Gt, ast.GtE)):
                lv = self.val(l)
                rv = self.val(r)
                return f"(← PyRt.cmp .{_CMP[type(op)]} {lv} {rv})"
        return f"PyRt.truthy {self.val(e)}"

    def _in(self, l, r, negate):
        lv = self.val(l)          # Python evaluates the left operand first
        special = self.x3_in(lv, r)
        if special is None:
            special = self.x4_in_constant(lv, r)
        if special is not None:
            t = f"(← {special})"
            return f"!{t}" if negate else t
        r = _set_display_as_tuple(r)
        rv = self.val(r)
        t = f"(← PyRt.contains {rv} {lv})"
        return f"!{t}" if negate else t

    # --- x4: `x in <named constant collection>` — a module-level or class-level set / frozenset of str / int constants
    # (hoisting an inline display to a named constant is a common harmless refactor).  Members are emitted sorted: the
    # iteration order of a set is not observable through `in`, and `==` of str / int members has no effect.
    def x4_constant_set(self, r):
        v = _MISSING
        if isinstance(r, ast.Name) and r.id not in self.locals and r.id not in self.bound_stack():
            v = self.globals.get(r.id, _MISSING)
        elif isinstance(r, ast.Attribute):
            c = None
            if isinstance(r.value, ast.Name) and r.value.id not in self.locals and r.value.id not in self.bound_stack() \
                    and inspect.isclass(self.globals.get(r.value.id)):
                c = self.globals[r.value.id]
            else:
                c = self.static_class(r.value)
                if c is not None and any(self.ctx.lookup(d, r.attr) is not self.ctx.lookup(c, r.attr) for d in self.ctx.subclasses(c)):
                    c = None                     # a tracked subclass overrides it
            if c is not None:
                v = self.ctx.lookup(c, r.attr)
        if isinstance(v, (set, frozenset)) and v and all(type(x) in (str, int) for x in v):
            return sorted(v, key=lambda x: (type(x).__name__, x))
        return None

    def x4_in_constant(self, lv, r):
        members = self.x4_constant_set(r)
        if members is None:
            return None
        return "PyRt.contains_set (PyVal.tuple [" + ", ".join(lconst(x) for x in members) + f"]) {lv}"

    def is_pure(self, e) -> bool:
        saved_tmp, saved_lines = self.tmp, list(self.lines)
        try:
            p, c = self.expr(e)
        finally:
            self.tmp, self.lines = saved_tmp, saved_lines
        return p and "←" not in c          # x3: a lifted sub-term would be evaluated outside the short circuit

    def expr(self, e):
        """-> (pure?, term): a PyVal term if pure, else an `M PyVal` term.  Monadic sub-terms are lifted with
        `(← …)`, which Lean hoists to the enclosing `do` element in evaluation order (left to right, as Python);
        short-circuit constructs and closures open a `do` block of their own."""
        r5 = self.x5_expr(e)                                  # x5: `|` and `==` on sets
        if r5 is not None:
            return r5
        r7 = self.x7_expr(e)                                  # x7
        if r7 is not None:
            return r7
        if isinstance(e, ast.Constant):
            if isinstance(e.value, (bool, int, str)) or e.value is None:
                return True, lconst(e.value)
            raise Unsupported(f"constant {e.value!r}")
        if isinstance(e, ast.Name):
            return self.name(e)
        if isinstance(e, ast.Tuple) or isinstance(e, ast.List):
            if any(isinstance(x, ast.Starred) for x in e.elts):
                # x4: `[a, *xs, b]` — elements evaluated and unpacked left to right into a fresh list (`tuple(...)` of it
                # for a tuple display)
                if any(isinstance(x, ast.Starred) and isinstance(x.value, ast.Starred) for x in e.elts):
                    raise Unsupported("nested star in a display")
                acc = "(PyVal.list [])"
                for x in e.elts:
                    if isinstance(x, ast.Starred):
                        acc = f"(← PyRt.list_extend {acc} {self.val(x.value)})"
                    else:
                        acc = f"(← PyRt.list_append {acc} {self.val(x)})"
                if isinstance(e, ast.Tuple):
                    return False, f"PyRt.tuple_ {acc}"
                return False, "pure " + acc
            items = ", ".join(self.val(x) for x in e.elts)
            k = "tuple" if isinstance(e, ast.Tuple) else "list"
            return True, f"(PyVal.{k} [{items}])"
        if isinstance(e, ast.UnaryOp):
            if isinstance(e.op, ast.Not):
                return True, f"(PyVal.bool ({self.cond(e)}))"
            if isinstance(e.op, ast.USub):
                if isinstance(e.operand, ast.Constant) and isinstance(e.operand.value, int) and not isinstance(e.operand.value, bool):
                    return True, lconst(-e.operand.value)
                return False, f"PyRt.neg {self.val(e.operand)}"
            raise Unsupported("unary operator")
        if isinstance(e, ast.BoolOp):
            return self.boolop(e)
        if isinstance(e, ast.Compare):
            return self.compare(e)
        if isinstance(e, ast.BinOp):
            return False, f"{self.binop_fn(e.op)} {self.val(e.left)} {self.val(e.right)}"
        if isinstance(e, ast.IfExp):
            c = self.scoped_cond(e.test)
            return False, f"(do if {c} then {self.scoped(e.body)} else {self.scoped(e.orelse)})"
        if isinstance(e, ast.Subscript) and isinstance(e.value, ast.Subscript) and self.x3_table(e.value.value) is not None:
            if isinstance(e.slice, ast.Constant) and e.slice.value == "id" and not isinstance(e.value.slice, ast.Slice):
                return False, f'PyLic.tbl_id "{self.x3_table(e.value.value)}" {self.val(e.value.slice)}'
            raise Unsupported("use of a regenerated table other than membership and [key][\"id\"]")
        if isinstance(e, ast.Subscript):
            base = self.val(e.value)
            if not isinstance(e.slice, ast.Slice) and self.x3_is_dict_expr(e.value):
                return False, f"PyRt.dict_getitem {base} {self.val(e.slice)}"
            if isinstance(e.slice, ast.Slice):
                if e.slice.step is not None:
                    raise Unsupported("slice with a step")
                lo = self.val(e.slice.lower) if e.slice.lower is not None else "PyVal.none"
                hi = self.val(e.slice.upper) if e.slice.upper is not None else "PyVal.none"
                return False, f"PyRt.getslice {base} {lo} {hi}"
            return False, f"PyRt.getitem {base} {self.val(e.slice)}"
        if isinstance(e, ast.JoinedStr):
            parts = []
            for v in e.values:
                if isinstance(v, ast.Constant):
                    parts.append(lstr(v.value))
                elif isinstance(v, ast.FormattedValue):
                    if v.format_spec is not None:
                        raise Unsupported("format specification in an f-string")
                    if v.conversion == -1:
                        t = self.str_of(v.value)
                        if t is not None:
                            parts.append(f"(← PyRt.format (← {t}))")
                        else:
                            parts.append(f"(← PyRt.format {self.val(v.value)})")
                    elif v.conversion == ord("r"):
                        self.ctx.imports.add(X7_IMPORT)           # x7: `PyRt.repr` lives in PyX7.lean
                        parts.append(f"(← PyRt.repr {self.val(v.value)})")
                    else:
                        raise Unsupported("f-string conversion")
                else:
                    raise Unsupported("f-string part")
            return True, "(PyVal.str (" + " ++ ".join(parts or ["[]"]) + "))"
        if isinstance(e, (ast.ListComp, ast.GeneratorExp)):
            p, c = False, self.comprehension(e)
            if isinstance(e, ast.ListComp):
                return False, f"PyRt.list_ (← {c})"
            return False, c
        if isinstance(e, ast.Attribute):
            return self.attribute(e)
        if isinstance(e, ast.Call):
            return self.call(e)
        if isinstance(e, ast.Dict):                      # x3: a dict display with distinct constant keys
            if any(k is None for k in e.keys) or not all(isinstance(k, ast.Constant) and isinstance(k.value, (str, int)) for k in e.keys) \
                    or len({k.value for k in e.keys}) != len(e.keys):
                raise Unsupported("dict display with keys that are not distinct constants")
            items = ", ".join(f"({lconst(k.value)}, {self.val(v)})" for k, v in zip(e.keys, e.values))
            return True, f"(PyVal.dict [{items}])"
        if isinstance(e, ast.Lambda):
            raise Unsupported("lambda outside a supported helper call")
        raise Unsupported("expression " + type(e).__name__)

    def scoped_cond(self, e):
        """a condition whose monadic parts must be evaluated here: inside the `do` that the caller opens"""
        return self.cond(e)

    def name(self, e):
        n = e.id
        if n == getattr(self, "x9_io", None) and n not in self.bound_stack():        # x9: the message is the state of `PyX9.SM`
            return False, "get"
        if n == getattr(self, "state_param", None) and n not in self.bound_stack():
            raise Unsupported(f"the {STATE_CLASS[1]} parameter used as a value")
        if n in self.bound_stack():
            return True, lname(n)
        if n in self.locals:
            if id(e) in self.maybe_unbound:
                return False, f"PyRt.bound {lname(n)}"
            return True, lname(n)
        if n == "NotImplemented":
            return True, "PyVal.notImpl"
        if n in EXTERNAL_READS and n in self.globals:
            return False, f'PyRt.env_get {self.use_env()} "{n}"'
        g = self.resolve_global(n)
        kind = g[0]
        if kind == "const":
            return True, lconst(g[1])
        if kind == "sentinel":
            return True, g[1]
        if kind == "other" and isinstance(g[1], (list, dict)) and not inspect.isclass(g[1]):      # x3: constant tables
            def const(v):
                if isinstance(v, dict):
                    return "(PyVal.dict [" + ", ".join(f"({lconst(k)}, {lconst(x)})" for k, x in v.items()) + "])"
                return lconst(v)
            try:
                return True, const(g[1])
            except Unsupported:
                pass
        raise Unsupported(f"global name {n} used as a value ({kind})")

    _bound: list = []

    def bound_stack(self):
        out = set(getattr(self, "_extra_bound", ()))
        for s in self._bound:
            out |= s
        return out

    def resolve_global(self, n):
        if n in self.globals:
            v = self.globals[n]
        else:
            import builtins
            if hasattr(builtins, n):
                return ("builtin", n)
            raise Unsupported(f"unknown name {n}")
        if v is None or isinstance(v, (bool, int, str)):
            return ("const", v)
        if isinstance(v, tuple):
            try:
                lconst(v)
                return ("const", v)
            except Unsupported:
                pass
        mod = type(v).__module__
        tname = type(v).__name__
        if mod.endswith("_structures") and tname == "InfinityType":
            return ("sentinel", "PyVal.posInf")
        if mod.endswith("_structures") and tname == "NegativeInfinityType":
            return ("sentinel", "PyVal.negInf")
        if hasattr(v, "registry") and hasattr(v, "dispatch"):
            return ("other", v)                   # functools.singledispatch function
        if inspect.isfunction(v):
            ln = self.ctx.lean_name_of(v)
            if ln is not None:
                return ("selected", ln, v)
            return ("function", v)
        if inspect.isclass(v):
            return ("class", v)
        if inspect.ismodule(v):
            return ("module", v)
        return ("other", v)

    def boolop(self, e):
        is_and = isinstance(e.op, ast.And)
        vals = e.values
        if all(self.is_pure(v) for v in vals):
            acc = self.val(vals[-1])
            for v in reversed(vals[:-1]):
                acc = f"(PyRt.{'and_' if is_and else 'or_'} {self.val(v)} {acc})"
            return True, acc
        # short circuit: each operand in a `do` of its own
        def build(i):
            if i == len(vals) - 1:
                p, c = self.expr(vals[i])
                return f"pure {c}" if p else c
            t = self.fresh("b")
            p, c = self.expr(vals[i])
            first = f"let {t} := {c}" if p else f"let {t} ← {c}"
            rest = build(i + 1)
            if is_and:
                return f"(do {first}; if PyRt.truthy {t} then (do {rest}) else pure {t})"
            return f"(do {first}; if PyRt.truthy {t} then pure {t} else (do {rest}))"
        return False, build(0)

    def rich(self, l, op, r):
        """`l op r` when l is an instance of a tracked class with a Python-level rich-comparison method: M PyVal term"""
        if type(op) not in _RICH:
            return None
        c = self.static_class(l)
        if c is None:
            return None
        name = _RICH[type(op)]
        if not inspect.isfunction(self.ctx.lookup(c, name)):
            return None
        lv = self.val(l)
        rv = self.val(r)
        def mk(impl):
            if not inspect.isfunction(impl):
                raise Unsupported(f"{name} is not a plain function in a subclass")
            fn = self.ctx.require(impl)
            return lambda x: self.call_selected(fn, [x, rv])
        call = self.dispatch(c, name, lv, mk)
        if isinstance(op, ast.Eq):
            return f"(do pure (PyRt.eqResult false (← {call})))"
        if isinstance(op, ast.NotEq):
            return f"(do pure (PyRt.eqResult true (← {call})))"
        return f"(do PyRt.cmpResult (← {call}))"

    def compare(self, e):
        if len(e.ops) == 1:
            rc = self.rich(e.left, e.ops[0], e.comparators[0])
            if rc is not None:
                return False, rc
            l, r, op = e.left, e.comparators[0], e.ops[0]
            if isinstance(op, (ast.Is, ast.IsNot)):
                if isinstance(r, ast.Constant) and r.value is None:
                    return True, f"(PyRt.{'is_none' if isinstance(op, ast.Is) else 'is_not_none'} {self.val(l)})"
                raise Unsupported("`is` with something other than None")
            if isinstance(op, ast.Eq):
                return True, f"(PyRt.eq {self.val(l)} {self.val(r)})"
            if isinstance(op, ast.NotEq):
                return True, f"(PyRt.ne {self.val(l)} {self.val(r)})"
            if isinstance(op, (ast.In, ast.NotIn)):
                lv = self.val(l)
                special = self.x3_in(lv, r)
                if special is None:
                    special = self.x4_in_constant(lv, r)          # x8 / x9: a named constant set in a value context (`a in S and b`)
                if special is not None:
                    neg = "!" if isinstance(op, ast.NotIn) else ""
                    return False, f"(do pure (PyVal.bool ({neg}(← {special}))))"
                r = _set_display_as_tuple(r)
                rv = self.val(r)
                return False, f"PyRt.{'in_' if isinstance(op, ast.In) else 'not_in'} {lv} {rv}"
            if type(op) in _CMP:
                lv = self.val(l)
                rv = self.val(r)
                return False, f"PyRt.{_CMP[type(op)]} {lv} {rv}"
            raise Unsupported("comparison operator")
        # chained: a op1 b op2 c  ==  a op1 b and b op2 c, with b evaluated once and short circuit
        operands = [e.left] + list(e.comparators)
        names = []
        pre = []
        for x in operands:
            t = self.fresh("c")
            p, c = self.expr(x)
            pre.append((t, p, c))
            names.append(t)
        def one(i):
            op = e.ops[i]
            a, b = names[i], names[i + 1]
            if isinstance(op, ast.Eq):
                return f"pure (PyRt.eq {a} {b})"
            if isinstance(op, ast.NotEq):
                return f"pure (PyRt.ne {a} {b})"
            if type(op) in _CMP:
                return f"PyRt.{_CMP[type(op)]} {a} {b}"
            raise Unsupported("operator in a chained comparison")
        def build(i):
            t, p, c = pre[i + 1]
            bind = f"let {t} := {c}" if p else f"let {t} ← {c}"
            if i == len(e.ops) - 1:
                return f"{bind}; {one(i)}"
            r = self.fresh("r")
            return f"{bind}; let {r} ← {one(i)}; if PyRt.truthy {r} then (do {build(i + 1)}) else pure {r}"
        t0, p0, c0 = pre[0]
        bind0 = f"let {t0} := {c0}" if p0 else f"let {t0} ← {c0}"
        return False, f"(do {bind0}; {build(0)})"

    def binop_fn(self, op):
        if isinstance(op, ast.Add):
            return "PyRt.add"
        if isinstance(op, ast.Sub):
            return "PyRt.sub"
        if isinstance(op, ast.Mult):
            return "PyRt.mul"
        raise Unsupported("binary operator " + type(op).__name__)

    _simple_bound: frozenset = frozenset()

    def hint(self, e):
        """the evaluated type annotation of expression e, where one is available (property return types, named-tuple
        fields, parameters); else None"""
        import typing
        try:
            if isinstance(e, ast.Attribute):
                c = self.static_class(e.value)
                if c is None:
                    return None
                impl = self.ctx.lookup(c, e.attr)
                if isinstance(impl, property):
                    return typing.get_type_hints(impl.fget).get("return")
                return typing.get_type_hints(c).get(e.attr)
            if isinstance(e, ast.Name) and e.id in self.params() and e.id not in self.param_assigned_names():
                return typing.get_type_hints(self.pyfunc).get(e.id)
        except Exception:
            return None
        return None

    def elem_simple(self, iter_expr):
        """are the items of this iterable numbers / strings / None for sure (by its annotation)?"""
        import typing
        h = self.hint(iter_expr)
        if h is None:
            return False
        def leaves(t):
            args = typing.get_args(t)
            if not args:
                return [t]
            return [x for a in args for x in leaves(a)]
        return all(t in (int, str, bool, type(None), Ellipsis) for t in leaves(h))

    def closure(self, target, body_fn, simple=False):
        """`fun x => do …` for a comprehension / lambda with the given target; body_fn() -> M PyVal term"""
        saved_simple = self._simple_bound
        if simple:
            self._simple_bound = self._simple_bound | {t.id for t in ast.walk(target) if isinstance(t, ast.Name)}
        try:
            return self._closure(target, body_fn)
        finally:
            self._simple_bound = saved_simple

    def _closure(self, target, body_fn):
        if isinstance(target, ast.Name):
            names = [target.id]
            self._bound = self._bound + [set(names)]
            try:
                body = body_fn()
            finally:
                self._bound = self._bound[:-1]
            return f"(fun {lname(target.id)} => do {body})"
        if isinstance(target, ast.Tuple) and all(isinstance(x, ast.Name) for x in target.elts):
            names = [x.id for x in target.elts]
            self._bound = self._bound + [set(names)]
            try:
                body = body_fn()
            finally:
                self._bound = self._bound[:-1]
            t = self.fresh("x")
            return f"(fun {t} => do {self.unpack_line(names, t)}; {body})"
        raise Unsupported("comprehension target")

    def comprehension(self, e):
        """generator expression / list comprehension -> `M PyVal` term producing a materialised iterator"""
        if len(e.generators) != 1:
            raise Unsupported("comprehension with several for clauses")
        g = e.generators[0]
        if g.is_async:
            raise Unsupported("async comprehension")
        src = self.val(g.iter)
        simple = self.elem_simple(g.iter)
        f = self.closure(g.target, lambda: self.mval(e.elt), simple)
        if not g.ifs:
            return f"PyRt.genexp {f} {src}"
        test = g.ifs[0] if len(g.ifs) == 1 else ast.BoolOp(op=ast.And(), values=list(g.ifs))
        c = self.closure(g.target, lambda: f"pure (PyVal.bool ({self.cond(test)}))", simple)
        return f"PyRt.genexpIf {f} {c} {src}"

    def fn_arg(self, a):
        """an argument that must be a function PyVal → M PyVal: a lambda or the name of a selected function"""
        if isinstance(a, ast.Lambda):
            if len(a.args.args) != 1 or a.args.defaults or a.args.vararg or a.args.kwarg:
                raise Unsupported("lambda with other than one plain parameter")
            return self.closure(ast.Name(id=a.args.args[0].arg, ctx=ast.Store()), lambda: self.mval(a.body))
        if isinstance(a, ast.Name) and a.id not in self.locals:
            g = self.resolve_global(a.id)
            if g[0] == "selected":
                self.ctx.need(g[2])
                if g[1] in self.ctx.uses_env:
                    return f"({g[1]} {self.use_env()})"
                return g[1]
            if g[0] == "builtin" and a.id in BUILTINS and BUILTINS[a.id][1] == 1:
                return BUILTINS[a.id][0]
            if g[0] == "function" and (g[1].__module__ or "").startswith("packaging"):
                name = self.ctx.require(g[1])
                if name in self.ctx.uses_env:
                    return f"({name} {self.use_env()})"
                return name
        if isinstance(a, ast.Attribute) and isinstance(a.value, ast.Name) and a.value.id == "str" and "str" not in self.locals \
                and a.attr == "lower" and "str.lower" in self.x3_oracles():             # x3: `map(str.lower, …)`
            return f'(fun __s => PyRt.ext_call {self.use_ext()} "str.lower" [__s])'
        raise Unsupported("function argument that is neither a lambda nor a selected function")

    def attribute(self, e):
        base = e.value
        # super().attr : the next definition after the owner in the owner's MRO
        if isinstance(base, ast.Call) and isinstance(base.func, ast.Name) and base.func.id == "super" and not base.args:
            if self.owner is None:
                raise Unsupported("super() outside a method")
            selfname = self.node.args.args[0].arg
            for k in self.owner.__mro__[1:]:
                if e.attr in k.__dict__:
                    obj = k.__dict__[e.attr]
                    if isinstance(obj, property):
                        # zero-argument super() checks isinstance(self, <owner>) and raises TypeError otherwise
                        names = [self.owner.__name__] + [d.__name__ for d in self.ctx.subclasses(self.owner)]
                        chk = "[" + ", ".join(f'"{n}"' for n in names) + "]"
                        return False, (f"(if !(PyRt.isinstance {lname(selfname)} {chk}) then throw PyRt.typeError "
                                       f"else {self.ctx.require(obj.fget)} {lname(selfname)})")
                    raise Unsupported(f"super().{e.attr} is not a property")
            raise Unsupported(f"super().{e.attr} not found")
        if isinstance(base, ast.Name) and base.id == getattr(self, "state_param", None) and base.id not in self.bound_stack():
            if e.attr == "position":                                                                 # x3
                self.x3_state_guard()
                return False, "PyTok.position"
            if e.attr in X9_STATE_FIELDS and getattr(self, "x9_tok", False):                          # x9
                self.ctx.imports.add(X9_IMPORT)
                return False, X9_STATE_FIELDS[e.attr]
            raise Unsupported(f"attribute .{e.attr} of the {STATE_CLASS[1]}")
        if e.attr == "__name__" and isinstance(base, ast.Attribute) and base.attr == "__class__":       # x3
            return True, f"(PyVal.str (Py.ofString (PyRt.className {self.val(base.value)})))"
        dotted = _dotted(e)
        if dotted and dotted[0] not in self.locals and dotted[0] not in self.bound_stack() and ".".join(dotted) in EXTERNAL_READS \
                and inspect.ismodule(self.globals.get(dotted[0])):
            return False, f'PyRt.env_get {self.use_env()} "{".".join(dotted)}"'
        c = self.static_class(base)
        recv = self.val(base)
        if c is None:
            if self.ctx.defined_by_tracked(e.attr) and not self.x3_foreign(base):
                raise Unsupported(f"attribute .{e.attr} of a value whose class is not known statically")
            return False, f'PyRt.getattr {recv} "{e.attr}"'
        return False, self.dispatch(c, e.attr, recv, lambda impl: self.attr_impl(impl, e.attr))

    def attr_impl(self, impl, attr):
        """how to read attribute `attr` given what the class defines: -> function of the receiver term"""
        if isinstance(impl, property):
            fn = self.ctx.require(impl.fget)
            return lambda r: self.call_selected(fn, [r])
        if impl is _MISSING or type(impl).__name__ in ("_tuplegetter", "member_descriptor"):
            return lambda r: f'PyRt.getattr {r} "{attr}"'
        if inspect.isfunction(impl):
            raise Unsupported(f"bound method .{attr} used as a value")
        try:
            c = lconst(impl)
        except Unsupported:
            raise Unsupported(f"class attribute .{attr} of type {type(impl).__name__}")
        return lambda r: f"pure {c}"

    def dispatch(self, c, attr, recv, mk, extra_args=()):
        """an `M PyVal` term for `recv.attr` where recv is an instance of tracked class c or of a tracked subclass.
        Where subclasses define the attribute differently a dispatcher definition `<C>.<attr>__dyn` (a chain of tests on
        the run-time class name) is emitted once and called here."""
        base = self.ctx.lookup(c, attr)
        arms = []
        for d in self.ctx.subclasses(c):
            impl = self.ctx.lookup(d, attr)
            if impl is not base:
                arms.append((d.__name__, mk(impl)))
        dflt = mk(base)
        if not arms:
            return dflt(recv)
        name = f"{c.__name__}.{attr}__dyn"
        if name not in self.ctx.dispatchers:
            n = len(extra_args)
            params = " ".join(["self"] + [f"a{i}" for i in range(n)])
            body = ""
            for cn, f in arms:
                body += f'if PyRt.className self == "{cn}" then {f("self")} else '
            body += dflt("self")
            if n:
                raise Unsupported("dynamic dispatch of a method with arguments")
            self.ctx.dispatchers[name] = f"def {name} ({params} : PyVal) : M PyVal :=\n  {body}"
            self.ctx.dispatcher_deps[name] = {fn for fn in self.ctx.objs.values() if (" " + fn + " ") in (" " + body + " ")}
        self.ctx.deps.setdefault(self.ctx.current, set()).add(name)
        return f"{name} {recv}"

    def call(self, e):
        f = e.func
        kws = {}
        for k in e.keywords:
            if k.arg is None:
                if isinstance(k.value, ast.Name) and k.value.id in self.dict_locals:
                    for key, loc in self.dict_locals[k.value.id].items():
                        kws[key] = ast.Name(id=loc, ctx=ast.Load())
                        self._extra_bound = getattr(self, "_extra_bound", set()) | {loc}
                    continue
                raise Unsupported("**kwargs in a call")
            kws[k.arg] = k.value
        r9 = self.x9_call(e, kws)                             # x9
        if r9 is not None:
            return r9
        r7 = self.x7_call(e, kws)                             # x7
        if r7 is not None:
            return r7
        r6 = self.x6_call(e, kws)                             # x6
        if r6 is not None:
            return r6
        r3 = self.x3_call(e, kws)
        if r3 is not None:
            return r3
        r5 = self.x5_call(e, kws)                             # x5
        if r5 is not None:
            return r5
        if isinstance(f, ast.Name) and f.id in self.fn_locals:
            kind, c, r, o = self.fn_locals[f.id]
            if kws or len(e.args) != 2:
                raise Unsupported("call of a comparison method with other than two positional arguments")
            name = self.get_operator_dispatcher(c)
            return False, f"{name} {r} {o} {self.val(e.args[0])} {self.val(e.args[1])}"
        if any(isinstance(a, ast.Starred) for a in e.args):
            raise Unsupported("*args in a call")
        # ---- x2: compiled patterns resolved to regenerated data, `cast`
        r = self.x2_call(e, f, kws)
        if r is not None:
            return r
        # ---- plain names: builtins, selected functions, classes
        if isinstance(f, ast.Name) and f.id not in self.locals:
            g = self.resolve_global(f.id)
            if g[0] == "builtin":
                return self.builtin_call(f.id, e.args, kws)
            if g[0] == "selected":
                self.ctx.need(g[2])
                args = self.bind_args(g[2], e.args, kws)
                return False, self.call_selected(g[1], args)
            if g[0] == "other" and hasattr(g[1], "registry") and hasattr(g[1], "dispatch"):
                return False, self.singledispatch_call(f.id, g[1], e.args, kws)
            if g[0] == "function" and f.id in EXTERNAL_CALLS and not kws:
                args = ", ".join(self.val(a) for a in e.args)
                return False, f'PyRt.env_call {self.use_env()} "{f.id}" [{args}]'
            if g[0] == "function" and (g[1].__module__ or "").startswith("packaging"):
                name = self.ctx.require(g[1])             # a helper of the library: translate it as well
                args = self.bind_args(g[1], e.args, kws)
                return False, self.call_selected(name, args)
            if g[0] == "class" and self.ctx.is_tracked(g[1]):
                init = self.ctx.lookup(g[1], "__init__")
                key = (getattr(init, "__module__", ""), getattr(init, "__qualname__", "").split(".")[0], "__init__")
                if inspect.isfunction(init) and key in PRIMITIVE_INITS:
                    args = self.bind_args(init, e.args, kws, skip_self=True)
                    self.ctx.imports.add("PkgModel.PyObj")
                    self.x5_primitive_init_guard(key, init)       # x5
                    return False, f'{PRIMITIVE_INITS[key]} "{g[1].__name__}"' + "".join(" " + a for a in args)
                if not inspect.isfunction(init):
                    raise Unsupported(f"constructor of {g[1].__name__} without a Python-level __init__")
                name = self.ctx.require(init)
                args = self.bind_args(init, e.args, kws, skip_self=True)
                return False, self.call_selected(name, [f'(PyVal.obj "{g[1].__name__}" [])'] + args)
            raise Unsupported(f"call of {f.id} ({g[0]})")
        # ---- self._get_operator("<op>")(a, b): the reflective lookup is evaluated now (guarded by the helper's source)
        if isinstance(f, ast.Call) and isinstance(f.func, ast.Attribute) and f.func.attr == "_get_operator" \
                and len(f.args) == 1 and isinstance(f.args[0], ast.Constant) and not f.keywords:
            c = self.static_class(f.func.value)
            if c is None:
                raise Unsupported("_get_operator on a value of unknown class")
            helper = self.ctx.lookup(c, "_get_operator")
            guard = PARTIAL_EVAL_GUARDS.get(f"{c.__name__}._get_operator")
            if not inspect.isfunction(helper) or guard is None or textwrap.dedent(inspect.getsource(helper)) != guard:
                raise Unsupported("_get_operator is not the helper the translator knows how to evaluate")
            table = self.ctx.lookup(c, "_operators")
            if not isinstance(table, dict) or f.args[0].value not in table:
                raise Unsupported("operator table")
            mname = f"_compare_{table[f.args[0].value]}"
            recv = self.val(f.func.value)
            def mk(impl):
                if not inspect.isfunction(impl):
                    raise Unsupported(f"{mname} is not a plain function")
                fn = self.ctx.require(impl)
                args = self.bind_args(impl, e.args, kws, skip_self=True)
                return lambda r: self.call_selected(fn, [r] + args)
            return False, self.dispatch(c, mname, recv, mk)
        # ---- <compiled pattern global>.search(s)
        if isinstance(f, ast.Attribute) and isinstance(f.value, ast.Name) and f.value.id not in self.locals \
                and f.attr in ("search",) and type(self.globals.get(f.value.id)).__name__ == "Pattern" \
                and len(e.args) == 1 and not kws:
            pat = self.globals[f.value.id]
            if pat.pattern not in SUPPORTED_SEARCH_PATTERNS or pat.flags != 32:
                raise Unsupported(f"compiled pattern {pat.pattern!r} (flags {pat.flags}) has no matcher in the run-time")
            lit = pat.pattern.replace("\\", "\\\\").replace('"', '\\"')
            return False, f'PyRt.re_search "{lit}" {self.val(e.args[0])}'
        # ---- itertools.X(...) / itertools.chain.from_iterable(...)
        if isinstance(f, ast.Attribute):
            dotted = _dotted(f)
            if dotted and dotted[0] not in self.locals and dotted[0] in self.globals and inspect.ismodule(self.globals[dotted[0]]):
                modname = self.globals[dotted[0]].__name__
                path = ".".join(dotted[1:])
                if modname == "itertools":
                    if path in ITERTOOLS_FN and len(e.args) == 2 and not kws:
                        fn = self.fn_arg(e.args[0])
                        return False, f"{ITERTOOLS_FN[path]} {fn} {self.val(e.args[1])}"
                    if path == "chain.from_iterable" and len(e.args) == 1 and not kws:
                        return False, f"PyRt.chain_from_iterable {self.val(e.args[0])}"
                if modname == "re" and path == "match" and len(e.args) == 2 and not kws \
                        and isinstance(e.args[0], ast.Constant) and isinstance(e.args[0].value, str):
                    pat = e.args[0].value
                    seq = _seq_pattern(pat) if pat not in SUPPORTED_PATTERNS else None        # --- x2
                    if seq is not None:
                        self.ctx.imports.add("PkgModel.PyRx")
                        return False, f"PyRx.match_seq {seq[0]} {self.val(e.args[1])}"
                    if pat not in SUPPORTED_PATTERNS:
                        raise Unsupported(f"regular expression {pat!r} has no matcher in the run-time")
                    lit = pat.replace("\\", "\\\\").replace('"', '\\"')
                    return False, f'PyRt.re_match "{lit}" {self.val(e.args[1])}'
                if modname == "re" and path == "match" and len(e.args) in (2, 3) and isinstance(e.args[0], ast.Constant) \
                        and (self.pyfunc.__module__, self.pyfunc.__qualname__) in MEASURED_INLINE:          # --- x2
                    flag, targs = MEASURED_INLINE[(self.pyfunc.__module__, self.pyfunc.__qualname__)]
                    self.ctx.imports.add("PkgModel.PyRx")
                    return False, f"PyRx.match_class_star {flag} {targs} {self.val(e.args[1])}"
                full = ".".join(dotted)
                if full in EXTERNAL_CALLS and not kws:
                    args = ", ".join(self.val(a) for a in e.args)
                    return False, f'PyRt.env_call {self.use_env()} "{full}" [{args}]'
                raise Unsupported(f"call of {modname}.{path}")
            # ---- method of a tracked class
            c = self.static_class(f.value)
            if c is not None and inspect.isfunction(self.ctx.lookup(c, f.attr)):
                recv = self.val(f.value)
                def mk(impl):
                    if not inspect.isfunction(impl):
                        raise Unsupported(f"method .{f.attr} is not a plain function in a subclass")
                    fn = self.ctx.require(impl)
                    args = self.bind_args(impl, e.args, kws, skip_self=True)
                    return lambda r: self.call_selected(fn, [r] + args)
                return False, self.dispatch(c, f.attr, recv, mk)
            # ---- method call on a value
            if f.attr == "split" and len(e.args) == 2 and not kws:
                recv = self.val(f.value)
                return False, f"PyRt.str_split_max {recv} {self.val(e.args[0])} {self.val(e.args[1])}"
            if f.attr == "group" and len(e.args) == 1 and not kws and isinstance(e.args[0], ast.Constant) \
                    and isinstance(e.args[0].value, str) and isinstance(f.value, ast.Name):                      # --- x2
                idx = self.group_index(f.value.id, e.args[0].value)
                return False, f"PyRt.match_group {self.val(f.value)} (PyVal.int {idx})"
            if f.attr == "lower" and not e.args and not kws and self.pyfunc.__module__ in FULL_LOWER_MODULES:   # --- x2
                self.ctx.imports.add("PkgModel.PyRx")
                return False, "PyRx.str_lower_full " + self.val(f.value)
            if f.attr in METHODS:
                fn, ar = METHODS[f.attr]
                if fn.startswith("PyRx."):
                    self.ctx.imports.add("PkgModel.PyRx")
                if kws or len(e.args) != ar:
                    raise Unsupported(f"arguments of method {f.attr}")
                recv = self.val(f.value)
                return False, fn + " " + recv + "".join(" " + self.val(a) for a in e.args)
            raise Unsupported(f"method {f.attr}")
        raise Unsupported("call of a computed function")

    # ------------------------------------------------------------------ x2: patterns, sets
    def x2_call(self, e, f, kws):
        """calls resolved at translation time to regenerated data: `<compiled pattern global>.match/.search/.sub(...)`,
        `typing.cast(T, v)`; None when `e` is not one of these"""
        if isinstance(f, ast.Name) and f.id == "cast" and f.id not in self.locals and len(e.args) == 2 and not kws:
            import typing
            if self.globals.get("cast") is typing.cast:
                return self.expr(e.args[1])                      # the type argument has no run-time effect
        # `<module-level dict of constants>.get(k)` / `.get(k, d)`: the current contents of the dict, as an association list
        if isinstance(f, ast.Attribute) and f.attr == "get" and isinstance(f.value, ast.Name) and f.value.id not in self.locals \
                and isinstance(self.globals.get(f.value.id), dict) and not kws and len(e.args) in (1, 2):
            d = self.globals[f.value.id]
            try:
                rows = ", ".join(f"({lconst(k)}, {lconst(v)})" for k, v in d.items())
            except Unsupported:
                return None
            self.ctx.imports.add("PkgModel.PyRx")
            dflt = self.val(e.args[1]) if len(e.args) == 2 else "PyVal.none"
            return False, f"PyRx.const_dict_get [{rows}] {self.val(e.args[0])} {dflt}"
        if not (isinstance(f, ast.Attribute) and isinstance(f.value, ast.Name) and f.value.id not in self.locals
                and type(self.globals.get(f.value.id)).__name__ == "Pattern" and not kws):
            return None
        pat = self.globals[f.value.id]
        key = (self.pyfunc.__module__, f.value.id)
        import re as _re
        # x8: the project-name test of `parse_wheel_filename` through a precompiled pattern: names.py measures the one
        # pattern call of that function that is neither an inline literal nor a pattern measured on its own
        if f.attr in ("fullmatch", "match") and len(e.args) == 1 and key not in MEASURED_PATTERNS \
                and _registered_regex(pat) is None \
                and (self.pyfunc.__module__, self.pyfunc.__qualname__) in MEASURED_INLINE:
            flag, targs = MEASURED_INLINE[(self.pyfunc.__module__, self.pyfunc.__qualname__)]
            self.ctx.imports.add("PkgModel.PyRx")
            return False, f"PyRx.match_class_star {flag} {targs} {self.val(e.args[0])}"
        if f.attr in ("match", "search") and len(e.args) == 1:
            name = _registered_regex(pat)
            if name is not None and not (pat.flags & _re.MULTILINE):
                self.ctx.imports.add("PkgModel.PyRx")
                self.ctx.imports.add(f"PkgModel.Generated.{name}")
                return False, f"PyRx.rx_test Gen.{name}.supported Gen.{name}.ranges Gen.{name}.rx {self.val(e.args[0])}"
            if key in MEASURED_PATTERNS and MEASURED_PATTERNS[key][0] == "two_runs" and f.attr == "match":
                _, flag, targs = MEASURED_PATTERNS[key]
                self.ctx.imports.add("PkgModel.PyRx")
                return False, f"PyRx.match_two_runs {flag} {targs} {self.val(e.args[0])}"
        if f.attr == "sub" and len(e.args) == 2 and key in MEASURED_PATTERNS and MEASURED_PATTERNS[key][0] == "class_plus":
            _, flag, targs = MEASURED_PATTERNS[key]
            self.ctx.imports.add("PkgModel.PyRx")
            return False, f"PyRx.sub_class_plus {flag} {targs} {self.val(e.args[0])} {self.val(e.args[1])}"
        return None

    def group_index(self, local, name):
        """`m.group("<name>")`: the index of the named group, when local `m` is bound once, by `re.match(<literal>, …)`"""
        binds = [n for n in _walk_scope(self.node.body) if local in _targets_of(n)]
        if len(binds) == 1 and isinstance(binds[0], (ast.Assign, ast.AnnAssign)):
            v = binds[0].value
            if isinstance(v, ast.Call) and _dotted(v.func) == ["re", "match"] and v.args and isinstance(v.args[0], ast.Constant):
                seq = _seq_pattern(v.args[0].value)
                if seq is not None and name in seq[1]:
                    return seq[1][name]
        raise Unsupported(f"group name {name!r} of a match object whose pattern is not known")

    def eqf_of_class(self, c):
        """the equality function sets use for members of tracked class c (its translated `__eq__`), as a Lean term"""
        impl = self.ctx.lookup(c, "__eq__")
        if not inspect.isfunction(impl):
            raise Unsupported(f"set of {c.__name__} without a Python-level __eq__")
        for d in self.ctx.subclasses(c):
            if self.ctx.lookup(d, "__eq__") is not impl:
                raise Unsupported("set members whose subclasses override __eq__")
        if not inspect.isfunction(self.ctx.lookup(c, "__hash__")):
            raise Unsupported(f"set of {c.__name__} without a Python-level __hash__")
        fn = self.ctx.require(impl)
        return f"(fun __a __b => do pure (PyRt.eqResult false (← {self.call_selected(fn, ['__a', '__b'])})))"

    def eqf_of(self, a):
        """equality function for a set that receives the value of expression `a`"""
        c = self.static_class(a)
        if c is not None:
            return self.eqf_of_class(c)
        if self.is_simple_value(a):
            return "PyRx.eq_plain"
        raise Unsupported("set member of a class that is not known statically")

    def eqf_of_elements(self, it):
        """equality function for `frozenset(it)` / `set(it)`"""
        if isinstance(it, ast.Name) and it.id in self.mutated:          # an owned set local: members keep their function
            adds = [n.value.args[0] for n in _walk_scope(self.node.body)
                    if isinstance(n, ast.Expr) and isinstance(n.value, ast.Call) and isinstance(n.value.func, ast.Attribute)
                    and isinstance(n.value.func.value, ast.Name) and n.value.func.value.id == it.id
                    and n.value.func.attr == "add" and len(n.value.args) == 1]
            if adds:
                return self.eqf_of(adds[0])
        if isinstance(it, ast.Call) and isinstance(it.func, ast.Name) and it.func.id == "map" and len(it.args) == 2 \
                and isinstance(it.args[0], ast.Name):
            v = self.globals.get(it.args[0].id)
            if inspect.isclass(v) and self.ctx.is_tracked(v):
                return self.eqf_of_class(v)
        if isinstance(it, (ast.GeneratorExp, ast.ListComp)) and len(it.generators) == 1:
            c = None
            self._bound = self._bound + [{t.id for t in ast.walk(it.generators[0].target) if isinstance(t, ast.Name)}]
            try:
                c = self.static_class(it.elt)
            finally:
                self._bound = self._bound[:-1]
            if c is not None:
                return self.eqf_of_class(c)
        if self.elem_simple(it):
            return "PyRx.eq_plain"
        raise Unsupported("set of members whose class is not known statically")

    def singledispatch_call(self, name, sd, args, kws):
        """a call of a functools.singledispatch function: dispatch on the run-time class of the first argument over the
        registered implementations (only `object` and builtin classes of PyVals are supported as keys)"""
        if not args:
            raise Unsupported("singledispatch call without a positional argument")
        impls = []
        for typ, fn in sd.registry.items():
            if typ is object:
                continue
            if typ.__name__ not in ("str", "int", "list", "tuple", "bool"):
                raise Unsupported(f"singledispatch on {typ.__name__}")
            impls.append((typ.__name__, fn))
        base = sd.registry[object]
        c = self.static_class(args[0])
        if c is not None:                          # the class is known: the implementation singledispatch picks for it
            fn = sd.dispatch(c)
            nm = self.ctx.require(fn, name=f"{name}__{'object' if fn is base else [k for k, v in impls if v is fn][0]}")
            return self.call_selected(nm, self.bind_args(fn, args, kws))
        first = self.val(args[0])
        t = self.fresh("d")
        out = f"(do let {t} := {first}; "
        def one(fn):
            nm = self.ctx.require(fn, name=f"{name}__{'object' if fn is base else [k for k, v in impls if v is fn][0]}")
            rest = self.bind_args(fn, [ast.Name(id=t, ctx=ast.Load())] + list(args[1:]), kws, first_is_term=t)
            return self.call_selected(nm, rest)
        for tn, fn in impls:
            out += f'if PyRt.className {t} == "{tn}" then {one(fn)} else '
        out += one(base) + ")"
        return out

    def call_selected(self, lean_name, args):
        """call of a translated function; the environment is passed on when the callee reads it"""
        env = ""
        if lean_name in self.ctx.uses_env:
            env = " " + self.use_env()
        if lean_name in self.ctx.uses_ext:                          # x3
            env += " " + self.use_ext()
        if lean_name in self.ctx.recursive and self.ctx.recursive[lean_name] == self.ctx.recursive.get(self.lean_name):
            return lean_name + "__fuel" + env + " __fuel" + "".join(" " + a for a in args)   # x3: inside the same group
        return lean_name + env + "".join(" " + a for a in args)

    def builtin_call(self, name, args, kws):
        if name == "range" and not kws and 1 <= len(args) <= 3:
            return False, f"PyRt.range{len(args)}" + "".join(" " + self.val(a) for a in args)
        if name == "map" and not kws and len(args) == 2:
            fn = self.fn_arg(args[0])
            return False, f"PyRt.map_ {fn} {self.val(args[1])}"
        if name == "hash" and not kws and len(args) == 1:
            if self.pyfunc.__module__ in SYMBOLIC_HASH:             # x3
                return False, f"PyRt.hash_sym {self.val(args[0])}"
            return False, f"PyRt.hash_ {self.val(args[0])}"
        if name == "hasattr" and not kws and len(args) == 2 and isinstance(args[0], ast.Name) \
                and isinstance(args[1], ast.Constant) and (args[0].id, args[1].value) in EXTERNAL_HASATTR:
            return False, f'PyRt.env_get {self.use_env()} "hasattr({args[0].id},{args[1].value})"'

        if name in ("any", "all") and len(args) == 1 and not kws and isinstance(args[0], ast.GeneratorExp) \
                and len(args[0].generators) == 1 and not args[0].generators[0].ifs:
            g = args[0].generators[0]
            src = self.val(g.iter)
            fn = self.closure(g.target, lambda: self.mval(args[0].elt))
            return False, f"PyRt.{name}_gen {fn} {src}"
        if name == "max" or name == "min":
            if len(args) == 2 and not kws:
                return False, f"PyRt.{name}2 {self.val(args[0])} {self.val(args[1])}"
            if name == "max" and len(args) == 1 and set(kws) == {"default"}:
                a = self.val(args[0])
                return False, f"PyRt.max_default {a} {self.val(kws['default'])}"
            raise Unsupported(f"{name} with these arguments")
        if name == "isinstance" and len(args) == 2 and not kws:
            classes = self.class_names(args[1])
            return True, f"(PyVal.bool (PyRt.isinstance {self.val(args[0])} [" + ", ".join(f'"{c}"' for c in classes) + "]))"
        if name == "str" and len(args) == 1 and not kws:
            t = self.str_of(args[0])
            if t is not None:
                return False, t
        if name in ("set", "frozenset") and not kws and len(args) <= 1:                 # --- x2: sets
            self.ctx.imports.add("PkgModel.PyRx")
            if not args:
                if name == "set":
                    return False, "PyRx.set_new"
                raise Unsupported("frozenset() without an argument")
            return False, f'PyRx.set_of "{name}" {self.eqf_of_elements(args[0])} {self.val(args[0])}'
        if name in BUILTINS:
            fn, ar = BUILTINS[name]
            if kws or len(args) != ar:
                raise Unsupported(f"arguments of {name}")
            return False, fn + "".join(" " + self.val(a) for a in args)
        raise Unsupported(f"builtin {name}")

    def str_of(self, a):
        """`str(a)` when `a` is an instance of a tracked class that defines `__str__`: an `M PyVal` term, else None"""
        c = self.static_class(a)
        if c is None:
            # unknown class: `PyRt.str_` / `PyRt.format`, which handle numbers, strings and None and *refuse* objects
            # (PyRtUnsupported) — fail-stop, so that an object reaching this site shows up as a disagreement
            return None
        impl = self.ctx.lookup(c, "__str__")
        if not inspect.isfunction(impl):
            raise Unsupported(f"str() of a {c.__name__} without a Python-level __str__")
        def mk(impl):
            if not inspect.isfunction(impl):
                raise Unsupported("__str__ is not a plain function in a subclass")
            fn = self.ctx.require(impl)
            return lambda r: self.call_selected(fn, [r])
        return self.dispatch(c, "__str__", self.val(a), mk)

    def is_simple_value(self, a):
        """an expression whose value cannot be an instance of a tracked class (constants, method results on strings …)"""
        if isinstance(a, (ast.Constant, ast.JoinedStr, ast.BinOp, ast.Compare, ast.BoolOp)):
            return True
        if isinstance(a, ast.Name) and (a.id in self.bound_stack()):
            return a.id in self._simple_bound      # comprehension variable over a tuple of numbers / strings (by annotation)
        if isinstance(a, ast.Name):
            for p_ in self.node.args.args + self.node.args.kwonlyargs:
                if p_.arg == a.id and isinstance(p_.annotation, ast.Name) and p_.annotation.id in ("str", "int", "bool"):
                    return True
        if isinstance(a, ast.Subscript):
            return True
        return False

    def class_names(self, e):
        if isinstance(e, ast.Tuple):
            return [c for x in e.elts for c in self.class_names(x)]
        if isinstance(e, ast.Name):
            g = self.resolve_global(e.id)
            if g[0] == "class":
                return [g[1].__name__] + [d.__name__ for d in self.ctx.subclasses(g[1])]
            if g[0] == "builtin" and e.id in ("int", "str", "list", "tuple", "bool"):
                return [e.id]
            if g[0] == "builtin" and e.id == "bytes":                 # x7: `obj "bytes" …` (PyElf)
                return [e.id]
        if isinstance(e, ast.Attribute):                              # x7: a class of another library, known by its name
            d = _dotted(e)
            obj = self.globals.get(d[0]) if d and d[0] not in self.locals else None
            for part in (d or [])[1:]:
                obj = getattr(obj, part, None)
            if inspect.isclass(obj) and not (obj.__module__ or "").startswith("packaging"):
                if getattr(self, "x9_mail", False) and obj.__module__ == "email.header" and obj.__name__ == "Header":
                    return ["Header", "HeaderErr"]      # x9: a `Header` whose `decode_header` raises travels as `HeaderErr`
                return [obj.__name__]
        raise Unsupported("class expression")

    def bind_args(self, pyfunc, args, kws, skip_self=False, first_is_term=None):
        """positional + keyword arguments of a call of a selected function -> list of PyVal terms (defaults filled in)"""
        sig = inspect.signature(pyfunc)
        names = list(sig.parameters)
        if skip_self:
            names = names[1:]
        if first_is_term is not None:
            rest = self.bind_args_named(sig, names[1:], list(args[1:]), kws)
            return [first_is_term] + rest
        return self.bind_args_named(sig, names, args, kws)

    def bind_args_named(self, sig, names, args, kws):
        var = [n for n in names if sig.parameters[n].kind == inspect.Parameter.VAR_POSITIONAL]
        if var:                                                     # x3: extra positional arguments -> one tuple
            k = names.index(var[0])
            head, extra = list(args[:k]), list(args[k:])
            vals = [self.val(a) for a in head]
            packed = "(PyVal.tuple [" + ", ".join(self.val(a) for a in extra) + "])"
            rest = self.bind_args_named(sig, [n for n in names[k + 1:]], [], kws)
            if len(head) < k:
                raise Unsupported("missing positional argument before *args")
            return vals + [packed] + rest
        out = {}
        if len(args) > len(names):
            raise Unsupported("too many arguments")
        order = []
        for n, a in zip(names, args):
            order.append((n, a))
        for k, v in kws.items():
            if k not in names or k in dict(order):
                raise Unsupported("keyword argument")
            order.append((k, v))
        for n, a in order:           # evaluation order = source order
            out[n] = self.val(a)
        res = []
        for n in names:
            if n in out:
                res.append(out[n])
            else:
                d = sig.parameters[n].default
                if d is inspect.Parameter.empty:
                    raise Unsupported(f"missing argument {n}")
                res.append(lconst(d))
        return res

    def exc_class(self, e):
        if isinstance(e, ast.Call) and isinstance(e.func, ast.Attribute) and isinstance(e.func.value, ast.Name) \
                and self.owner is not None and self.node.args.args and e.func.value.id == self.node.args.args[0].arg:
            impl = self.ctx.lookup(self.owner, e.func.attr)      # x3: `raise self._helper(...)`: the helper's return annotation
            if inspect.isfunction(impl):
                r = ast.parse(textwrap.dedent(inspect.getsource(impl))).body[0].returns
                v = impl.__globals__.get(r.id) if isinstance(r, ast.Name) else None
                if inspect.isclass(v) and issubclass(v, BaseException):
                    return v.__name__
            raise Unsupported("raise of the result of a method that is not annotated with an exception class")
        if isinstance(e, ast.Call):
            e = e.func
        if isinstance(e, ast.Attribute):                          # x3: `utils.InvalidName`
            d = _dotted(e)
            obj = self.globals.get(d[0]) if d and d[0] not in self.locals else None
            for part in (d or [])[1:]:
                obj = getattr(obj, part, None)
            if inspect.isclass(obj) and issubclass(obj, BaseException):
                return obj.__name__
        if isinstance(e, ast.Name):
            g = self.resolve_global(e.id)
            if g[0] == "class" and issubclass(g[1], BaseException):
                return g[1].__name__
            if g[0] == "builtin":
                import builtins
                v = getattr(builtins, e.id)
                if inspect.isclass(v) and issubclass(v, BaseException):
                    return e.id
        raise Unsupported("raise of something other than an exception class")

    def handler_classes(self, t):
        if t is None:
            raise Unsupported("bare except")
        if isinstance(t, ast.Tuple):
            return [c for x in t.elts for c in self.handler_classes(x)]
        return [self.exc_class(t)]

    # ================================================================================================ x3 extensions
    # oracles, dicts, item assignment on owned values, functions that update a parameter in place, nested list mutation,
    # tables of callables, dynamic method dispatch, isinstance guards
    def use_ext(self):
        self.ctx.uses_ext.add(self.lean_name)
        return "ext"

    def x3_oracles(self):
        return ORACLE_CALLS.get(self.pyfunc.__module__, ())

    # ---- dict-typed names (by annotation or by what they are bound to)
    def x3_is_dict_ann(self, ann):
        if ann is None:
            return False
        if isinstance(ann, ast.Constant) and isinstance(ann.value, str):
            try:
                ann = ast.parse(ann.value, mode="eval").body
            except SyntaxError:
                return False
        if isinstance(ann, ast.BinOp) and isinstance(ann.op, ast.BitOr):
            return self.x3_is_dict_ann(ann.left) or self.x3_is_dict_ann(ann.right)
        if isinstance(ann, ast.Subscript):
            ann = ann.value
        return isinstance(ann, ast.Name) and ann.id in ("dict", "Dict", "RawMetadata")

    def x3_is_dict_name(self, name):
        cache = self.__dict__.setdefault("_x3_dict_cache", {})
        if name not in cache:
            cache[name] = False                       # cycles: not a dict
            cache[name] = self._x3_is_dict_name(name)
        return cache[name]

    def _x3_is_dict_name(self, name):
        a = self.node.args
        for p_ in a.args + a.kwonlyargs:
            if p_.arg == name:
                return self.x3_is_dict_ann(p_.annotation)
        binds = [n for n in _walk_scope(self.node.body) if name in _targets_of(n)]
        if not binds:
            return False
        for n in binds:
            if isinstance(n, ast.AnnAssign) and self.x3_is_dict_ann(n.annotation):
                continue
            if isinstance(n, ast.Assign) and len(n.targets) == 1 and isinstance(n.targets[0], ast.Name) and self.x3_dict_valued(n.value):
                continue
            return False
        return True

    def x3_dict_valued(self, v):
        if isinstance(v, (ast.Dict, ast.DictComp)):
            return True
        if isinstance(v, ast.Call) and isinstance(v.func, ast.Name):
            if v.func.id == "dict" and "dict" not in self.locals:
                return True
            if v.func.id == "cast" and len(v.args) == 2:
                return self.x3_is_dict_ann(v.args[0]) or self.x3_dict_valued(v.args[1])
        if isinstance(v, ast.Call) and isinstance(v.func, ast.Attribute) and v.func.attr == "copy" and self.x3_is_dict_expr(v.func.value):
            return True
        return False

    def x3_is_dict_expr(self, e):
        if isinstance(e, ast.Name) and e.id in self.locals and e.id not in self.bound_stack():
            return self.x3_is_dict_name(e.id)
        return False

    # ---- functions that update a parameter in place and hand it back
    def x3_callee(self, call):
        """the library function a call names (plain name, not a local), else None"""
        f = call.func
        if isinstance(f, ast.Name) and f.id not in self.locals and f.id not in self.bound_stack():
            v = self.globals.get(f.id)
            if inspect.isfunction(v) and (v.__module__ or "").startswith("packaging"):
                return v
        return None

    def x3_ipf_arg(self, call):
        """`f(…, x, …)` where f updates that parameter in place and x is a plain local name: the Name node, else None"""
        v = self.x3_callee(call)
        if v is None:
            return None
        k = self.ctx.ipf_of(v)
        if k is None or k >= len(call.args):
            return None
        a = call.args[k]
        return a if isinstance(a, ast.Name) and a.id in self.locals else None

    def x3_analyse(self, body):
        params = self.params()
        self.owned2 = set()       # names updated in place other than by the list methods in MUTATORS
        self.nested = set()       # lists whose *elements* are mutated: `n[i].append(x)`
        self.alias = {}           # loop variable -> (list, index variable) inside `for i, x in enumerate(list)`
        self._ipf_ok = set()      # ids of in-place calls that a statement-level rewrite has taken care of
        enum_elems = {}
        for n in _walk_scope(body):
            if isinstance(n, ast.For) and isinstance(n.iter, ast.Call) and isinstance(n.iter.func, ast.Name) \
                    and n.iter.func.id == "enumerate" and len(n.iter.args) == 1 and isinstance(n.iter.args[0], ast.Name) \
                    and isinstance(n.target, ast.Tuple) and len(n.target.elts) == 2 and all(isinstance(x, ast.Name) for x in n.target.elts):
                enum_elems[n.target.elts[1].id] = (n.iter.args[0].id, n.target.elts[0].id, n)
        self.enum_elems = enum_elems
        for n in _walk_scope(body, into_exprs=True):
            if isinstance(n, (ast.Assign, ast.AugAssign, ast.AnnAssign)):
                for t in (n.targets if isinstance(n, ast.Assign) else [n.target]):
                    if isinstance(t, ast.Subscript) and isinstance(t.value, ast.Name) and t.value.id in self.locals:
                        self.owned2.add(t.value.id)
            if isinstance(n, ast.Call) and isinstance(n.func, ast.Attribute) and isinstance(n.func.value, ast.Name) \
                    and n.func.attr in DICT_MUTATORS and n.func.value.id in self.locals and self.x3_is_dict_name(n.func.value.id):
                self.owned2.add(n.func.value.id)
            if isinstance(n, ast.Call):
                a = self.x3_ipf_arg(n)
                if a is not None:
                    if a.id in enum_elems:
                        self.owned2.add(enum_elems[a.id][0])      # written back into the list it came from
                    else:
                        self.owned2.add(a.id)
        for n in _walk_scope(body):
            m = _nested_mutation(n)
            if m is not None:
                if m not in self.locals:
                    raise Unsupported("nested mutation of something that is not a local")
                self.mutated.add(m)
                self.nested.add(m)
        for m in self.nested:       # every element of such a list must be a list of its own (no alias can exist)
            for n in _walk_scope(body):
                vals = []
                if isinstance(n, (ast.Assign, ast.AnnAssign)) and m in _targets_of(n) and n.value is not None:
                    if not isinstance(n.value, ast.List):
                        raise Unsupported(f"{m}: elements are mutated but it is not bound to a list display")
                    vals = list(n.value.elts)
                if isinstance(n, ast.Expr) and isinstance(n.value, ast.Call) and isinstance(n.value.func, ast.Attribute) \
                        and isinstance(n.value.func.value, ast.Name) and n.value.func.value.id == m:
                    if n.value.func.attr != "append":
                        raise Unsupported(f"{m}: elements are mutated and it is changed by .{n.value.func.attr}")
                    vals = list(n.value.args)
                if any(not _is_fresh_list(v) for v in vals):
                    raise Unsupported(f"{m}: elements are mutated but an element may be shared")
        own = self.ctx.ipf_of(self.pyfunc)
        own_name = self.node.args.args[own].arg if own is not None else None
        assigned = {x for n in _walk_scope(body) for x in _targets_of(n)}
        parents = {}
        for n in _walk_scope(body, into_exprs=True):
            for c in ast.iter_child_nodes(n):
                parents[c] = n
        for m in sorted(self.owned2):
            if m in params:
                if m != own_name or m in assigned:
                    raise Unsupported(f"parameter {m} is updated in place (and the function is not of the form that hands it back)")
                if m not in self.param_assigned:
                    self.param_assigned.append(m)
            else:
                for n in _walk_scope(body):
                    if m in _targets_of(n):
                        if not (isinstance(n, (ast.Assign, ast.AnnAssign)) and n.value is not None and self.x3_fresh_value(n.value)
                                and isinstance(n.targets[0] if isinstance(n, ast.Assign) else n.target, ast.Name)):
                            raise Unsupported(f"{m} is updated in place but bound to a value that may be shared")
                for n in _walk_scope(body):
                    if isinstance(n, ast.For) and any(isinstance(x, ast.Name) and x.id == m for x in ast.walk(n.target)):
                        raise Unsupported(f"loop variable {m} is updated in place")
            for n in _walk_scope(body, into_exprs=True):
                if isinstance(n, ast.Name) and n.id == m and isinstance(n.ctx, ast.Load):
                    p_ = parents.get(n)
                    g_ = parents.get(p_)
                    ok = False
                    if isinstance(p_, ast.Subscript) and p_.value is n:
                        ok = True
                    elif isinstance(p_, ast.Attribute) and p_.value is n and isinstance(g_, ast.Call) and g_.func is p_ \
                            and p_.attr in (set(DICT_MUTATORS) | set(DICT_METHODS) | {"get"}):
                        ok = True
                    elif isinstance(p_, ast.Compare):
                        ok = True
                    elif isinstance(p_, (ast.For, ast.comprehension)) and p_.iter is n:
                        ok = True
                    elif isinstance(p_, ast.Call) and isinstance(p_.func, ast.Name) and p_.func.id in (CONSUMERS | {"enumerate"}) and n in p_.args:
                        ok = True
                    elif isinstance(p_, ast.Return) and (m == own_name or m not in params):
                        ok = True
                    elif isinstance(p_, ast.Call) and self.x3_ipf_arg(p_) is n:
                        ok = True
                    elif isinstance(p_, ast.Call) and isinstance(p_.func, ast.Name) and n in p_.args and self._scalar_callee(p_.func.id):
                        ok = True
                    elif isinstance(p_, (ast.If, ast.IfExp, ast.UnaryOp)):
                        ok = True
                    elif self.x9_alias_ok(n, p_, parents):                     # x9
                        ok = True
                    if not ok:
                        raise Unsupported(f"{m} is updated in place and used where an alias could be created")
            # a loop over the value may only replace the element it is at
            for n in _walk_scope(body):
                if isinstance(n, ast.For) and any(isinstance(x, ast.Name) and x.id == m for x in ast.walk(n.iter)):
                    idx = None
                    if isinstance(n.iter, ast.Call) and isinstance(n.iter.func, ast.Name) and n.iter.func.id == "enumerate" \
                            and isinstance(n.target, ast.Tuple) and isinstance(n.target.elts[0], ast.Name):
                        idx = n.target.elts[0].id
                    for k in _walk_scope(n.body, into_exprs=True):
                        if isinstance(k, ast.Subscript) and isinstance(k.ctx, ast.Store) and isinstance(k.value, ast.Name) and k.value.id == m:
                            if not (idx is not None and isinstance(k.slice, ast.Name) and k.slice.id == idx and idx not in assigned):
                                raise Unsupported(f"{m} is changed while it is iterated over")
                        if isinstance(k, ast.Call) and isinstance(k.func, ast.Attribute) and isinstance(k.func.value, ast.Name) \
                                and k.func.value.id == m and k.func.attr in (set(MUTATORS) | OTHER_MUTATORS):
                            raise Unsupported(f"{m} is changed while it is iterated over")
                        if isinstance(k, ast.Call):
                            a = self.x3_ipf_arg(k)
                            if a is not None and a.id == m:
                                raise Unsupported(f"{m} is changed while it is iterated over")
        for x, (lst, idx, loop) in enum_elems.items():
            if x in assigned or idx in assigned:
                self.enum_elems = {k: v for k, v in self.enum_elems.items() if k != x}

    def x3_fresh_value(self, v):
        """an expression whose value nothing else can refer to"""
        if isinstance(v, (ast.List, ast.ListComp, ast.Dict, ast.DictComp)):
            return True
        if isinstance(v, ast.Call) and isinstance(v.func, ast.Name) and v.func.id not in self.locals:
            if v.func.id in ("dict", "list", "sorted"):
                return True
            if v.func.id == "cast" and len(v.args) == 2:
                return self.x3_fresh_value(v.args[1])
            if v.func.id in self.x3_oracles():
                return True                              # trusted: the external function builds a new value
        if isinstance(v, ast.Call) and isinstance(v.func, ast.Attribute) and v.func.attr == "copy":
            return True
        return False

    def x3_enter_loop(self, st, names, ind):
        if len(names) == 2 and names[1] in self.enum_elems and self.enum_elems[names[1]][2] is st:
            self.emit(ind, f"let mut {lname(names[1])} := {lname(names[1])}")

    def x3_store(self, t, vterm, ind):
        n = lname(t.value.id)
        fn = "PyRt.dict_setitem" if self.x3_is_dict_name(t.value.id) else "PyRt.setitem"
        self.emit(ind, f"{n} ← {fn} {n} {self.val(t.slice)} {vterm}")

    def x3_rebind_ipf(self, call, ind):
        """`f(x)` with f updating x in place: `x ← f x` (and the write-back when x is the element of a list being
        enumerated); returns the name"""
        a = self.x3_ipf_arg(call)
        self._ipf_ok.add(id(call))
        p, c = self.expr(call)
        self.emit(ind, f"{lname(a.id)} ← {c}")
        if a.id in self.enum_elems:
            lst, idx, _ = self.enum_elems[a.id]
            fn = "PyRt.dict_setitem" if self.x3_is_dict_name(lst) else "PyRt.setitem"
            self.emit(ind, f"{lname(lst)} ← {fn} {lname(lst)} {lname(idx)} {lname(a.id)}")
        elif a.id not in self.owned2:
            raise Unsupported(f"{a.id} is updated in place by a call but is not an owned local")
        return a.id

    def x3_hoist(self, value, ind):
        """value of a statement: in-place calls on a local that are the value itself or a direct argument of its
        outermost call are done first (earlier arguments are evaluated before, as Python does); -> rewritten value or None"""
        if not isinstance(value, ast.Call):
            return None
        if self.x3_ipf_arg(value) is not None and id(value) not in self._ipf_ok:
            name = self.x3_rebind_ipf(value, ind)
            return ast.copy_location(ast.Name(id=name, ctx=ast.Load()), value)
        hit = [i for i, a in enumerate(value.args) if isinstance(a, ast.Call) and self.x3_ipf_arg(a) is not None and id(a) not in self._ipf_ok]
        if not hit or value.keywords:
            return None
        if isinstance(value.func, ast.Attribute) and not isinstance(value.func.value, ast.Name):
            return None
        new_args = list(value.args)
        for i, a in enumerate(value.args):
            if i > hit[-1]:
                break
            if i in hit:
                name = self.x3_rebind_ipf(a, ind)
                new_args[i] = ast.copy_location(ast.Name(id=name, ctx=ast.Load()), a)
            elif not isinstance(a, (ast.Constant, ast.Name)):
                t = self.fresh("a")
                p, c = self.expr(a)
                self.emit(ind, f"let {t} := {c}" if p else f"let {t} ← {c}")
                self._extra_bound = getattr(self, "_extra_bound", set()) | {t}
                new_args[i] = ast.copy_location(ast.Name(id=t, ctx=ast.Load()), a)
        return ast.copy_location(ast.Call(func=value.func, args=new_args, keywords=[]), value)

    def x3_state_guard(self):
        """the primitives of PyTok.lean mirror one text of the Tokenizer class"""
        if X9_TOKENIZER_TRANSLATED:          # x9: the methods are translated and proved equal to the primitives;
            cls = getattr(importlib.import_module(STATE_CLASS[0]), STATE_CLASS[1])
            init = inspect.getattr_static(cls, "__init__", None)       # the constructor alone stays a primitive (`PyTok.new`)
            if not inspect.isfunction(init) or _fn_digest(init) != X9_TOKENIZER_INIT_GUARD:
                raise Unsupported(f"the source of {STATE_CLASS[1]}.__init__ is not the text `PyTok.new` mirrors")
            extra = [k for k, v in vars(cls).items() if (inspect.isfunction(v) or isinstance(v, (property, staticmethod, classmethod)))
                     and k not in X9_TOKENIZER_METHODS]
            if extra:                        # a method the theorems do not cover (e.g. `position` turned into a property)
                raise Unsupported(f"{STATE_CLASS[1]} defines {', '.join(sorted(extra))} besides the translated methods")
            return
        cls = getattr(importlib.import_module(STATE_CLASS[0]), STATE_CLASS[1])
        if _class_digest(cls) != STATE_GUARD:
            raise Unsupported(f"the source of {STATE_CLASS[1]} is not the text its run-time primitives mirror")

    def x3_uses_state(self, nodes):
        return self.state_param is not None and any(
            isinstance(n, ast.Name) and n.id == self.state_param for st in nodes for n in ast.walk(st))

    def x3_stmt(self, st, ind):
        if self.x3_dead_message(st):
            self.emit(ind, "pure ()")
            return True
        if isinstance(st, ast.Try):
            # Lean's `try … catch` hands the handler the locals as they were when the `try` began; Python keeps what the body
            # did before it raised.  Refuse a function in which that difference could be observed.
            body_ = list(st.body)
            if body_ and isinstance(body_[-1], (ast.Assign, ast.AnnAssign, ast.AugAssign, ast.Expr, ast.Return)):
                body_ = body_[:-1]       # what the last simple statement changes is changed only if nothing raised
            changed = {x for n in _walk_scope(body_) for x in _targets_of(n)}
            for n in _walk_scope(body_):
                if isinstance(n, ast.Expr) and isinstance(n.value, ast.Call) and isinstance(n.value.func, ast.Attribute) \
                        and isinstance(n.value.func.value, ast.Name) and n.value.func.attr in (set(MUTATORS) | OTHER_MUTATORS):
                    changed.add(n.value.func.value.id)
                if isinstance(n, ast.For):
                    changed |= {t.id for t in ast.walk(n.target) if isinstance(t, ast.Name)}
            def loads(nodes):
                return {x.id for b in nodes for sub in ([b] if not isinstance(b, ast.Raise) else [])
                        for x in ast.walk(sub) if isinstance(x, ast.Name) and isinstance(x.ctx, ast.Load)}
            seen = set()
            for h in st.handlers:
                seen |= loads(h.body)
                if _falls_through(h.body):
                    after = [n for n in _walk_scope(self.node.body) if getattr(n, "lineno", 0) > st.end_lineno
                             and isinstance(n, ast.stmt)]
                    seen |= loads(after)
            if changed & seen:
                raise Unsupported("a local changed inside a try block is read on the path through its handler: "
                                  + ", ".join(sorted(changed & seen)))
        if isinstance(st, ast.Try) and self.x3_uses_state(st.body):
            # a handler would see the tokenizer as it was when the `try` began (state monad), not as Python leaves it
            raise Unsupported(f"the {STATE_CLASS[1]} is used inside a try block")
        if isinstance(st, ast.While):
            if st.orelse:
                raise Unsupported("while ... else")
            self.has_while = True
            if self.lean_name not in self.ctx.recursive:
                self.ctx.loops.add(self.lean_name)
                raise Unsupported("while loop (fuel is added on the next pass)")
            done = self.fresh("done")
            self.emit(ind, f"let mut {done} := false")
            self.emit(ind, f"for __i in List.range (__fuel + 1) do")
            if not (isinstance(st.test, ast.Constant) and st.test.value is True):
                self.emit(ind + 1, f"if !({self.cond(st.test)}) then")
                self.emit(ind + 2, f"{done} := true")
                self.emit(ind + 2, "break")
            saved = set(self.declared)
            self.loop_stack = getattr(self, "loop_stack", []) + [done]
            self.block(st.body, ind + 1)
            self.loop_stack = self.loop_stack[:-1]
            self.declared = saved | (self.declared & set(self.hoisted))
            self.emit(ind, f'if !{done} then throw "RecursionError"')
            return True
        if isinstance(st, ast.With):
            if len(st.items) != 1 or st.items[0].optional_vars is not None:
                raise Unsupported("with statement other than one context manager without `as`")
            c = st.items[0].context_expr
            if not (isinstance(c, ast.Call) and isinstance(c.func, ast.Attribute) and isinstance(c.func.value, ast.Name)
                    and c.func.value.id == self.state_param and c.func.attr == "enclosing_tokens" and len(c.args) == 2
                    and all(k.arg == "around" for k in c.keywords)):
                raise Unsupported("with statement other than tokenizer.enclosing_tokens(open, close, around=…)")
            for n in _walk_scope(st.body):
                if isinstance(n, (ast.Return, ast.Break, ast.Continue)):
                    raise Unsupported("return / break / continue inside a with block")
            self.x3_state_guard()
            w = self.fresh("w")
            op_, cl_ = self.val(c.args[0]), self.val(c.args[1])
            self.emit(ind, f"let {w} ← PyTok.enclosing_open {op_}")
            self.block(st.body, ind)
            self.emit(ind, f"let _ ← PyTok.enclosing_close {w} {cl_}")
            return True
        if isinstance(st, ast.Assign) and len(st.targets) == 1 and isinstance(st.targets[0], ast.Subscript):
            t = st.targets[0]
            if isinstance(t.value, ast.Name) and t.value.id in getattr(self, "owned2", ()) and not isinstance(t.slice, ast.Slice):
                v = self.fresh("v")
                p, c = self.expr(st.value)
                self.emit(ind, f"let {v} := {c}" if p else f"let {v} ← {c}")
                self.x3_store(t, v, ind)
                return True
            raise Unsupported("assignment to a subscript of something that is not an owned local")
        if isinstance(st, ast.AugAssign) and isinstance(st.target, ast.Subscript):
            t = st.target
            if isinstance(t.value, ast.Name) and t.value.id in getattr(self, "owned2", ()) and not isinstance(t.slice, ast.Slice):
                k, v = self.fresh("k"), self.fresh("v")
                getter = "PyRt.dict_getitem" if self.x3_is_dict_name(t.value.id) else "PyRt.getitem"
                self.emit(ind, f"let {k} := {self.val(t.slice)}")
                self.emit(ind, f"let {v} ← {self.binop_fn(st.op)} (← {getter} {lname(t.value.id)} {k}) {self.val(st.value)}")
                n = lname(t.value.id)
                fn = "PyRt.dict_setitem" if self.x3_is_dict_name(t.value.id) else "PyRt.setitem"
                self.emit(ind, f"{n} ← {fn} {n} {k} {v}")
                return True
            raise Unsupported("augmented assignment to a subscript of something that is not an owned local")
        if isinstance(st, (ast.Return, ast.Assign, ast.AnnAssign)) and getattr(st, "value", None) is not None and hasattr(self, "owned2"):
            nv = self.x3_hoist(st.value, ind)
            if nv is not None:
                if isinstance(st, ast.Return):
                    new = ast.Return(value=nv)
                elif isinstance(st, ast.Assign):
                    new = ast.Assign(targets=st.targets, value=nv)
                else:
                    new = ast.AnnAssign(target=st.target, annotation=st.annotation, value=nv, simple=st.simple)
                self.stmt(ast.copy_location(new, st), ind)
                return True
        return False

    def x3_expr_stmt(self, e, ind):
        if isinstance(e, ast.Call) and isinstance(e.func, ast.Attribute):
            d = _dotted(e.func)
            if d and d[0] not in self.locals and ".".join(d) in self.x3_oracles():
                p, c = self.expr(e)              # an external function called for its exceptions
                self.emit(ind, f"let _ ← {c}")
                return True
        if isinstance(e, ast.Call) and isinstance(e.func, ast.Attribute) and isinstance(e.func.value, ast.Name) \
                and self.state_param is not None and e.func.value.id == self.state_param:
            p, c = self.expr(e)                  # a tokenizer method called for its effect
            self.emit(ind, f"let _ ← {c}")
            return True
        if isinstance(e, ast.Call) and hasattr(self, "owned2") and self.x3_ipf_arg(e) is not None:
            self.x3_rebind_ipf(e, ind)
            return True
        if isinstance(e, ast.Call) and isinstance(e.func, ast.Attribute) and isinstance(e.func.value, ast.Name) \
                and e.func.attr in DICT_MUTATORS and e.func.value.id in getattr(self, "owned2", ()) and self.x3_is_dict_name(e.func.value.id):
            fn, ar = DICT_MUTATORS[e.func.attr]
            if len(e.args) != ar or e.keywords:
                raise Unsupported(f"arguments of {e.func.attr}")
            n = lname(e.func.value.id)
            self.emit(ind, f"{n} ← {fn} {n} " + " ".join(self.val(a) for a in e.args))
            return True
        if isinstance(e, ast.Call):
            m = _nested_mutation(ast.Expr(value=e))
            if m is not None and m in getattr(self, "nested", ()):
                fn, ar = MUTATORS[e.func.attr]
                if len(e.args) != ar or e.keywords:
                    raise Unsupported(f"arguments of {e.func.attr}")
                n = lname(m)
                i = self.fresh("i")
                self.emit(ind, f"let {i} := {self.val(e.func.value.slice)}")
                # Python's order: the element, then the arguments, then the method
                self.emit(ind, f"{n} ← PyRt.setitem {n} {i} (← {fn} (← PyRt.getitem {n} {i}) " + " ".join(self.val(a) for a in e.args) + ")")
                return True
        return False

    def x3_foreign(self, base):
        """a parameter annotated with a class of another library (`sys._version_info`): certainly not a tracked class"""
        if isinstance(base, ast.Name) and base.id not in self.param_assigned_names():
            for a in self.node.args.args + self.node.args.kwonlyargs:
                if a.arg == base.id and isinstance(a.annotation, ast.Attribute):
                    d = _dotted(a.annotation)
                    return bool(d) and inspect.ismodule(self.globals.get(d[0])) and not self.globals[d[0]].__name__.startswith("packaging")
        return False

    def x3_guard_class(self, e):
        """`if not isinstance(x, C): return …` at the top level of the body, before this use: x is a C from there on"""
        for st in self.node.body:
            if isinstance(st, ast.If) and not st.orelse and isinstance(st.test, ast.UnaryOp) and isinstance(st.test.op, ast.Not) \
                    and isinstance(st.test.operand, ast.Call) and isinstance(st.test.operand.func, ast.Name) \
                    and st.test.operand.func.id == "isinstance" and len(st.test.operand.args) == 2 \
                    and isinstance(st.test.operand.args[0], ast.Name) and st.test.operand.args[0].id == e.id \
                    and isinstance(st.test.operand.args[1], ast.Name) and not _falls_through(st.body) \
                    and getattr(e, "lineno", 0) > st.end_lineno:
                v = self.globals.get(st.test.operand.args[1].id)
                if inspect.isclass(v) and self.ctx.is_tracked(v):
                    return v
        return None

    def x3_fn_table(self, name):
        """a module-level constant dict whose values are functions (`operator.xx` or lambdas): -> (keys, dict node)"""
        d = self.globals.get(name)
        if not isinstance(d, dict) or not d or not all(isinstance(k, str) and callable(v) for k, v in d.items()):
            return None
        import sys as _sys
        mod = _sys.modules.get(self.pyfunc.__module__)
        try:
            tree = ast.parse(inspect.getsource(mod))
        except (OSError, TypeError, SyntaxError):
            return None
        node = None
        for st in tree.body:
            if isinstance(st, (ast.Assign, ast.AnnAssign)) and name in _targets_of(st) and isinstance(st.value, ast.Dict):
                node = st.value
        if node is None or [k.value if isinstance(k, ast.Constant) else None for k in node.keys] != list(d.keys()):
            return None
        return list(d.keys()), node

    def x3_fn_table_defs(self, name, arity):
        """`<name>__get key` (the callable stored under key, as a reference, or None) and `<name>__call f a0 …`"""
        keys, node = self.x3_fn_table(name)
        get, call = f"{name}__get", f"{name}__call"
        if get not in self.ctx.dispatchers:
            test = " || ".join(f"PyVal.eq key {lconst(k)}" for k in keys)
            self.ctx.dispatchers[get] = (f"def {get} (key : PyVal) : M PyVal :=\n  if !(PyRt.hashable key) then throw PyRt.typeError else\n"
                                         f"  if {test} then pure (PyRt.fn_ref \"{name}\" key) else pure PyVal.none")
            self.ctx.dispatcher_deps[get] = set()
            args = [f"a{i}" for i in range(arity)]
            body = ""
            saved_locals, saved_bound = self.locals, self._bound
            try:
                self.locals = set()
                for k, v in zip(keys, node.values):
                    if isinstance(v, ast.Lambda):
                        ps = [a.arg for a in v.args.args]
                        if len(ps) != arity or v.args.vararg or v.args.kwarg or v.args.defaults:
                            raise Unsupported(f"{name}[{k!r}]: a lambda with other than {arity} plain parameters")
                        self._bound = saved_bound + [set(ps)]
                        inner = self.mval(v.body)
                        self._bound = saved_bound
                        code = "(do " + "; ".join(f"let {lname(q)} := {a}" for q, a in zip(ps, args)) + f"; {inner})"
                    elif isinstance(v, ast.Attribute) and isinstance(v.value, ast.Name) and v.value.id == "operator" \
                            and getattr(self.globals.get("operator"), "__name__", "") == "operator" and v.attr in OPERATOR_FN and arity == 2:
                        code = "(" + OPERATOR_FN[v.attr].format(a=args[0], b=args[1]) + ")"
                    else:
                        raise Unsupported(f"{name}[{k!r}] is neither a lambda nor operator.<comparison>")
                    body += f"if PyVal.eq key {lconst(k)} then {code} else "
            finally:
                self.locals, self._bound = saved_locals, saved_bound
            self.ctx.dispatchers[call] = (f"def {call} (f {' '.join(args)} : PyVal) : M PyVal := do\n  let key ← PyRt.fn_key \"{name}\" f\n"
                                          f"  {body}throw \"PyRtUnsupported\"")
            self.ctx.dispatcher_deps[call] = set()
        for d in (get, call):
            self.ctx.deps.setdefault(self.ctx.current, set()).add(d)
        return get, call

    def x3_local_fn_table(self, name):
        """local `name` bound exactly once, by `name = <TABLE>.get(k)`: the table's name"""
        binds = [n for n in _walk_scope(self.node.body) if name in _targets_of(n)]
        if len(binds) == 1 and isinstance(binds[0], (ast.Assign, ast.AnnAssign)) and binds[0].value is not None:
            v = binds[0].value
            if isinstance(v, ast.Call) and isinstance(v.func, ast.Attribute) and v.func.attr == "get" and isinstance(v.func.value, ast.Name) \
                    and v.func.value.id not in self.locals and len(v.args) == 1 and self.x3_fn_table(v.func.value.id) is not None:
                return v.func.value.id
        return None

    def x3_dyn_method(self, attr, nargs):
        """method `attr` of a value whose class is not known statically: a dispatcher over every tracked class that has it"""
        name = f"{attr}__dyn"
        if name not in self.ctx.dispatchers:
            args = [f"a{i}" for i in range(nargs)]
            body, deps = "", set()
            for k in self.ctx.tracked:
                impl = self.ctx.lookup(k, attr)
                if not inspect.isfunction(impl):
                    continue
                if len(inspect.signature(impl).parameters) != nargs + 1:
                    raise Unsupported(f"method .{attr}: arity differs between classes")
                fn = self.ctx.require(impl)
                deps.add(fn)
                body += f'if PyRt.className self == "{k.__name__}" then {self.call_selected(fn, ["self"] + args)} else '
            if not deps:
                raise Unsupported(f"method {attr}")
            self.ctx.dispatchers[name] = f"def {name} (self {' '.join(args)} : PyVal) : M PyVal :=\n  {body}throw PyRt.attributeError"
            self.ctx.dispatcher_deps[name] = deps
        self.ctx.deps.setdefault(self.ctx.current, set()).add(name)
        return name

    def x3_ext_class(self, e):
        """the class of another library an expression is an instance of, when it is a constructor call through an oracle"""
        if isinstance(e, ast.Call) and isinstance(e.func, ast.Attribute):
            d = _dotted(e.func)
            if d and d[0] not in self.locals and ".".join(d) in self.x3_oracles():
                obj = self.globals.get(d[0])
                for part in d[1:]:
                    obj = getattr(obj, part, None)
                if inspect.isclass(obj):
                    return obj.__name__
        # x4: a local bound exactly once, by such a constructor call (`p = pathlib.PurePosixPath(x)` … `p.is_absolute()`)
        if isinstance(e, ast.Name) and e.id in self.locals and e.id not in self.params() and e.id not in self.bound_stack():
            binds = [n for n in _walk_scope(self.node.body) if e.id in _targets_of(n)]
            # … other bindings may only be `<local> = None` (a sentinel: a method call on None is AttributeError in both worlds)
            binds = [b for b in binds if not (isinstance(b, ast.Assign) and len(b.targets) == 1 and isinstance(b.targets[0], ast.Name)
                                              and isinstance(b.value, ast.Constant) and b.value.value is None)]
            if len(binds) == 1 and isinstance(binds[0], (ast.Assign, ast.AnnAssign)) and binds[0].value is not None:
                tgt = binds[0].targets[0] if isinstance(binds[0], ast.Assign) else binds[0].target
                if isinstance(tgt, ast.Name) and (not isinstance(binds[0], ast.Assign) or len(binds[0].targets) == 1) \
                        and isinstance(binds[0].value, ast.Call):
                    return self.x3_ext_class(binds[0].value)
        return None

    def x3_table(self, e):
        """a module-level table that is regenerated as data: its run-time name, else None"""
        if isinstance(e, ast.Name) and e.id not in self.locals and e.id not in self.bound_stack() \
                and (self.pyfunc.__module__, e.id) in TABLE_GLOBALS and isinstance(self.globals.get(e.id), dict):
            self.ctx.imports.add(TABLE_IMPORT)
            return TABLE_GLOBALS[(self.pyfunc.__module__, e.id)]
        return None

    def x3_in(self, lv, r):
        """`x in <set display of constants>` / `x in <regenerated table>`: an `M Bool` term, else None"""
        if isinstance(r, ast.Set) and self.pyfunc.__module__ in SET_HASH_CHECK_MODULES \
                and all(isinstance(x, ast.Constant) and isinstance(x.value, (str, int)) for x in r.elts):
            return "PyRt.contains_set (PyVal.tuple [" + ", ".join(lconst(x.value) for x in r.elts) + f"]) {lv}"
        t = self.x3_table(r)
        if t is not None:
            return f'PyLic.tbl_has "{t}" {lv}'
        if isinstance(r, ast.Name) and r.id not in self.locals and r.id not in self.bound_stack() and self.x3_fn_table(r.id) is not None:
            get, _ = self.x3_fn_table_defs(r.id, 2)                      # x4: `k in TABLE` for a table of callables
            return f"(do let __f ← {get} {lv}; pure (!(PyRt.isNone __f)))"
        if self.x3_is_dict_expr(r):
            return f"PyRt.dict_contains {self.val(r)} {lv}"
        if isinstance(r, ast.Name) and r.id not in self.locals and r.id not in self.bound_stack() and isinstance(self.globals.get(r.id), dict):
            return f"PyRt.dict_contains {self.val(r)} {lv}"
        return None

    def x3_dead_message(self, st):
        """`name = f"…"` whose only uses are arguments of `raise Cls(name)`: the string is never observed (exceptions carry
        their class only) and formatting names cannot raise"""
        if not (isinstance(st, ast.Assign) and len(st.targets) == 1 and isinstance(st.targets[0], ast.Name)
                and isinstance(st.value, ast.JoinedStr)):
            return False
        for v in st.value.values:
            if isinstance(v, ast.FormattedValue) and not (isinstance(v.value, ast.Name) and v.format_spec is None):
                return False
        name = st.targets[0].id
        parents = {}
        for n in _walk_scope(self.node.body, into_exprs=True):
            for c in ast.iter_child_nodes(n):
                parents[c] = n
        for n in _walk_scope(self.node.body, into_exprs=True):
            if isinstance(n, ast.Name) and n.id == name and isinstance(n.ctx, ast.Load):
                p_ = parents.get(n)
                if not (isinstance(p_, ast.Call) and isinstance(parents.get(p_), ast.Raise) and parents[p_].exc is p_):
                    return False
        return True

    def x3_call(self, e, kws):
        f = e.func
        oracles = self.x3_oracles()
        if isinstance(f, ast.Attribute) and f.attr in ("split", "rsplit") and not e.args and not kws:
            # x10: without arguments `rsplit()` is `split()`: maximal runs of white space separate, no limit
            self.ctx.imports.add("PkgModel.PyLic")
            return False, f"PyLic.str_split0 {self.val(f.value)}"
        if isinstance(f, ast.Attribute) and f.attr == "translate" and len(e.args) == 1 and not kws and isinstance(e.args[0], ast.Name) \
                and e.args[0].id not in self.locals:
            import string as _string
            if self.globals.get(e.args[0].id) == str.maketrans(_string.ascii_uppercase, _string.ascii_lowercase):
                self.ctx.imports.add("PkgModel.PyLic")
                return False, f"PyLic.ascii_lower {self.val(f.value)}"
            raise Unsupported("str.translate with a table other than the ASCII lower-casing one")
        if isinstance(f, ast.Attribute) and f.attr == "match" and isinstance(f.value, ast.Name) and f.value.id not in self.locals \
                and type(self.globals.get(f.value.id)).__name__ == "Pattern" and len(e.args) == 1 and not kws:
            pat = self.globals[f.value.id]
            if (pat.pattern, pat.flags) in MATCH_PATTERNS:
                fn, imp = MATCH_PATTERNS[(pat.pattern, pat.flags)]
                self.ctx.imports.add(imp)
                return False, f"{fn} {self.val(e.args[0])}"
        if isinstance(f, ast.Attribute) and f.attr == "strip" and not e.args and not kws and self.pyfunc.__module__ in UNICODE_STRIP:
            fn, imp = UNICODE_STRIP[self.pyfunc.__module__]
            self.ctx.imports.add(imp)
            return False, f"{fn} {self.val(f.value)}"
        if isinstance(f, ast.Attribute) and f.attr == "lower" and not e.args and not kws and "str.lower" in oracles:
            return False, f'PyRt.ext_call {self.use_ext()} "str.lower" [{self.val(f.value)}]'
        if isinstance(f, ast.Attribute):
            d = _dotted(f)
            if d and d[0] not in self.locals and d[0] not in self.bound_stack() and ".".join(d) in oracles \
                    and not any(isinstance(a, ast.Starred) for a in e.args):
                obj = self.globals.get(d[0])
                for part in d[1:]:
                    obj = getattr(obj, part, None)
                if inspect.isclass(obj) and (obj.__module__ or "").startswith("packaging") and inspect.isfunction(self.ctx.lookup(obj, "__init__")):
                    args = self.bind_args(self.ctx.lookup(obj, "__init__"), e.args, kws, skip_self=True)
                elif inspect.isclass(obj):
                    args = [self.val(a) for a in e.args]          # a class of another library: positional arguments as given
                    if kws:
                        raise Unsupported("keyword arguments of an external constructor")
                elif callable(obj):
                    try:
                        args = self.bind_args(obj, e.args, kws)
                    except (TypeError, ValueError):
                        raise Unsupported("signature of an external function")
                else:
                    raise Unsupported("oracle name that is not callable")
                return False, f'PyRt.ext_call {self.use_ext()} "{".".join(d)}" [' + ", ".join(args) + "]"
            xc = self.x3_ext_class(f.value)
            if xc is not None:
                key = f"{xc}.{f.attr}"
                if key not in oracles or kws:
                    raise Unsupported(f"method .{f.attr} of an external {xc}")
                return False, f'PyRt.ext_call {self.use_ext()} "{key}" [' + ", ".join([self.val(f.value)] + [self.val(a) for a in e.args]) + "]"
        if isinstance(f, ast.Name) and f.id == "zip" and f.id not in self.locals and len(e.args) == 2 and not kws:
            return False, f"PyRt.zip2 {self.val(e.args[0])} {self.val(e.args[1])}"
        if isinstance(f, ast.Attribute) and isinstance(f.value, ast.Name) and f.value.id == self.state_param \
                and f.value.id not in self.bound_stack():
            if f.attr not in STATE_METHODS:
                raise Unsupported(f"method .{f.attr} of the {STATE_CLASS[1]}")
            self.x3_state_guard()
            fn, npos, kwd = STATE_METHODS[f.attr]
            if any(isinstance(a, ast.Starred) for a in e.args):
                raise Unsupported("*args in a call")
            args = [self.val(a) for a in e.args[:npos]]
            if len(args) < npos:
                raise Unsupported(f"arguments of .{f.attr}")
            for k, d in kwd.items():
                args.append(self.val(kws[k]) if k in kws else d)
            return False, fn + "".join(" " + a for a in args)
        if isinstance(f, ast.Name) and f.id not in self.locals and f.id not in self.bound_stack():
            v = self.globals.get(f.id)
            if inspect.isfunction(v) and (v.__module__ or "").startswith("packaging") and self.ctx.is_state_fn(v):
                if not e.args or any(isinstance(a, ast.Starred) for a in e.args):
                    raise Unsupported("call of a parser function without its tokenizer")
                a0 = e.args[0]
                ln = self.ctx.lean_name_of(v)
                if ln is not None:
                    self.ctx.need(v)
                else:
                    ln = self.ctx.require(v)
                rest = self.bind_args(v, e.args[1:], kws, skip_self=True)
                term = self.call_selected(ln, rest)
                if isinstance(a0, ast.Name) and a0.id == self.state_param:
                    return False, term
                if isinstance(a0, ast.Call) and isinstance(a0.func, ast.Name) and a0.func.id == STATE_CLASS[1] \
                        and len(a0.args) == 1 and len(a0.keywords) == 1 and a0.keywords[0].arg == "rules" \
                        and isinstance(a0.keywords[0].value, ast.Name) and a0.keywords[0].value.id == "DEFAULT_RULES" \
                        and self.state_param is None:
                    self.x3_state_guard()
                    self.ctx.imports.add(STATE_IMPORT)
                    src = self.val(a0.args[0])
                    return False, f"PyTok.run ({term}) (← PyTok.new {src})"
                raise Unsupported("a parser function called with something other than the tokenizer at hand")
            if inspect.isclass(v) and self.ctx.is_tracked(v) and issubclass(v, tuple) and hasattr(v, "_fields") \
                    and not inspect.isfunction(self.ctx.lookup(v, "__init__")):
                if kws or len(e.args) != len(v._fields) or any(isinstance(a, ast.Starred) for a in e.args):
                    raise Unsupported("named tuple built other than from all its fields in order")
                fields = ", ".join(f'("{k}", {self.val(a)})' for k, a in zip(v._fields, e.args))
                return True, f'(PyVal.obj "{v.__name__}" [{fields}])' 
            if f.id in oracles:
                if any(isinstance(a, ast.Starred) for a in e.args):
                    raise Unsupported("*args in a call")
                if inspect.isclass(v):
                    args = self.bind_args(self.ctx.lookup(v, "__init__"), e.args, kws, skip_self=True)
                else:
                    args = self.bind_args(v, e.args, kws)
                return False, f'PyRt.ext_call {self.use_ext()} "{f.id}" [' + ", ".join(args) + "]"
            if f.id == "cast" and getattr(v, "__module__", "") == "typing" and len(e.args) == 2 and not kws:
                return self.expr(e.args[1])
            if hasattr(self, "owned2") and self.x3_ipf_arg(e) is not None and id(e) not in self._ipf_ok:
                raise Unsupported("a call that updates a local in place inside a larger expression")
        # x4: `TABLE[k](a, b)` on a module-level table of callables: the look-up (KeyError for a missing key), then the call
        if isinstance(f, ast.Subscript) and isinstance(f.value, ast.Name) and f.value.id not in self.locals \
                and f.value.id not in self.bound_stack() and not isinstance(f.slice, ast.Slice) and not kws \
                and not any(isinstance(a, ast.Starred) for a in e.args) and self.x3_fn_table(f.value.id) is not None:
            get, call = self.x3_fn_table_defs(f.value.id, len(e.args))
            t = self.fresh("f")
            key = self.val(f.slice)
            args = "".join(" " + self.val(a) for a in e.args)
            return False, f'(do let {t} ← {get} {key}; if PyRt.isNone {t} then throw "KeyError" else {call} {t}{args})'
        if isinstance(f, ast.Name) and f.id in self.locals and f.id not in self.bound_stack():
            tab = self.x3_local_fn_table(f.id)
            if tab is not None:
                if kws or any(isinstance(a, ast.Starred) for a in e.args):
                    raise Unsupported("keyword / starred arguments of a callable taken from a table")
                _, call = self.x3_fn_table_defs(tab, len(e.args))
                p, c = self.name(f)
                recv = c if p else f"(← {c})"
                return False, f"{call} {recv}" + "".join(" " + self.val(a) for a in e.args)
        if isinstance(f, ast.Attribute):
            if isinstance(f.value, ast.Name) and f.value.id not in self.locals and f.value.id not in self.bound_stack() \
                    and f.attr == "get" and len(e.args) == 1 and not kws and self.x3_fn_table(f.value.id) is not None:
                get, _ = self.x3_fn_table_defs(f.value.id, 2)
                return False, f"{get} {self.val(e.args[0])}"
            c = self.static_class(f.value)
            if c is not None and f"{c.__name__}.{f.attr}" in oracles:
                impl = self.ctx.lookup(c, f.attr)
                recv = self.val(f.value)
                args = self.bind_args(impl, e.args, kws, skip_self=True)
                return False, f'PyRt.ext_call {self.use_ext()} "{c.__name__}.{f.attr}" [' + ", ".join([recv] + args) + "]"
            if self.x3_is_dict_expr(f.value):
                if f.attr == "get" and 1 <= len(e.args) <= 2 and not kws:
                    recv = self.val(f.value)
                    k = self.val(e.args[0])
                    d = self.val(e.args[1]) if len(e.args) == 2 else "PyVal.none"
                    return False, f"PyRt.dict_get {recv} {k} {d}"
                if f.attr in DICT_METHODS and len(e.args) == DICT_METHODS[f.attr][1] and not kws:
                    return False, f"{DICT_METHODS[f.attr][0]} {self.val(f.value)}"
            dotted = _dotted(f)
            is_module = dotted and dotted[0] not in self.locals and inspect.ismodule(self.globals.get(dotted[0]))
            if is_module and len(dotted) == 2 and (self.globals[dotted[0]].__name__, dotted[1]) in EXTERNAL_MODULE_CALLS \
                    and len(e.args) == 1 and not kws:
                fn, imp = EXTERNAL_MODULE_CALLS[(self.globals[dotted[0]].__name__, dotted[1])]
                self.ctx.imports.add(imp)
                return False, f"{fn} {self.val(e.args[0])}"
            is_global = isinstance(f.value, ast.Name) and f.value.id not in self.locals and f.value.id not in self.bound_stack()
            if c is None and not is_module and not is_global and f.attr not in METHODS and f.attr not in MUTATORS and self.ctx.defined_by_tracked(f.attr) \
                    and not kws and not any(isinstance(a, ast.Starred) for a in e.args):
                recv = self.val(f.value)
                name = self.x3_dyn_method(f.attr, len(e.args))
                return False, f"{name} {recv}" + "".join(" " + self.val(a) for a in e.args)
        return None
    # ================================================================================================ x3 end

    # ================================================================================================ x5 extensions
    # frozenset fields iterated in an order read from the environment; `|`, `==`, `len`, truth value of sets; attribute
    # assignment on a local that holds a fresh object and in a property setter; flow-sensitive classes of names that are
    # reassigned; `sorted`, `iter`, `"…{}…".format(*xs)`, `self.__class__`, `map(<tracked class>, xs)`
    def x5_is_setter(self):
        """the function is the `fset` of a property of its class: `self.x = e` is a functional update and the function
        hands back the updated object (as `__init__` does)"""
        if self.owner is None:
            return False
        p = self.ctx.lookup(self.owner, self.node.name)
        return isinstance(p, property) and p.fset is self.pyfunc

    def x5_use(self):
        self.ctx.imports.add(X5_IMPORT)

    # ---- locals that hold an object built here (`v = C(...)`, bound once, only used as `v.attr` / `return v`)
    def x5_fresh_objects(self):
        if not hasattr(self, "_x5_fresh"):
            out = {}
            body = self.node.body
            parents = {}
            for n in _walk_scope(body, into_exprs=True):
                for c in ast.iter_child_nodes(n):
                    parents[c] = n
            for st in body:
                if isinstance(st, ast.Assign) and len(st.targets) == 1 and isinstance(st.targets[0], ast.Name) \
                        and isinstance(st.value, ast.Call) and isinstance(st.value.func, ast.Name):
                    v = st.targets[0].id
                    k = self.globals.get(st.value.func.id)
                    if not (inspect.isclass(k) and self.ctx.is_tracked(k)) or v in self.params():
                        continue
                    if sum(1 for n in _walk_scope(body) if v in _targets_of(n)) != 1:
                        continue
                    ok = True
                    for n in _walk_scope(body, into_exprs=True):
                        if isinstance(n, ast.Name) and n.id == v and n is not st.targets[0]:
                            p = parents.get(n)
                            if not ((isinstance(p, ast.Attribute) and p.value is n and not
                                     (isinstance(parents.get(p), ast.Call) and parents[p].func is p))
                                    or (isinstance(p, ast.Return) and p.value is n)):
                                ok = False
                    if ok:
                        out[v] = k
            self._x5_fresh = out
        return self._x5_fresh

    def x5_attr_store_ok(self, n, t):
        if isinstance(n, ast.AnnAssign) and n.value is not None and getattr(self, "is_init", False) and isinstance(t, ast.Attribute) \
                and isinstance(t.value, ast.Name) and t.value.id == self.params()[0]:
            return True                                       # `self.x: T = e` inside `__init__`
        return isinstance(n, ast.Assign) and isinstance(t, ast.Attribute) and isinstance(t.value, ast.Name) \
            and t.value.id in self.x5_fresh_objects()

    # ---- which expressions are sets, and of what
    def x5_set_elem(self, e):
        """`(K,)` when expression e is statically a set whose members are instances of tracked class K (K may be None),
        else None"""
        if isinstance(e, ast.Call) and isinstance(e.func, ast.Name) and e.func.id == "__x5_iter_ord":
            return None
        if isinstance(e, ast.Attribute):
            c = self.static_class(e.value)
            if c is not None:
                return self.ctx.x5_field_set(c, e.attr)
        if isinstance(e, ast.BinOp) and isinstance(e.op, ast.BitOr):
            a, b = self.x5_set_elem(e.left), self.x5_set_elem(e.right)
            if a is not None and b is not None and a == b:
                return a
        if isinstance(e, ast.Call) and isinstance(e.func, ast.Name) and e.func.id in ("frozenset", "set") \
                and e.func.id not in self.locals and len(e.args) == 1 and not e.keywords:
            return self.x5_set_elem(e.args[0])
        return None

    def x5_rewrite(self):
        """after the analyses: wrap the iterable of every loop / comprehension over a frozenset field, so that the iteration
        order is read from the environment"""
        self.x5_parents = {}
        for n in _walk_scope(self.node.body, into_exprs=True):
            for c in ast.iter_child_nodes(n):
                self.x5_parents[c] = n
        for n in _walk_scope(self.node.body, into_exprs=True):
            if isinstance(n, ast.Call) and isinstance(n.func, ast.Name) and n.func.id == "map" and "map" not in self.locals \
                    and any(isinstance(a, ast.Name) and a.id in getattr(self, "mutated", ()) for a in n.args):
                p = self.x5_parents.get(n)
                if not (isinstance(p, ast.Call) and isinstance(p.func, ast.Name) and n in p.args
                        and p.func.id in (CONSUMERS - {"iter", "map", "enumerate", "reversed"})):
                    raise Unsupported("map() over a list that is mutated in place, not consumed at once")
        for n in list(_walk_scope(self.node.body, into_exprs=True)):
            holders = [n] if isinstance(n, ast.For) else list(n.generators) if isinstance(
                n, (ast.ListComp, ast.GeneratorExp, ast.SetComp, ast.DictComp)) else []
            for h in holders:
                if self.x5_set_elem(h.iter) is not None:
                    inner = h.iter
                    h.iter = ast.copy_location(ast.Call(func=ast.Name(id="__x5_iter_ord", ctx=ast.Load()), args=[inner], keywords=[]), inner)
                    self.x5_parents[inner] = h.iter
                    self.x5_parents[h.iter] = h

    def x5_loop_elem(self):
        """loop / comprehension variable -> class of the members of the frozenset field it runs over"""
        if not hasattr(self, "_x5_loop_elem"):
            self._x5_loop_elem = {}          # guards the recursion through static_class
            out, bad = {}, set()
            for n in _walk_scope(self.node.body, into_exprs=True):
                holders = [n] if isinstance(n, ast.For) else list(n.generators) if isinstance(
                    n, (ast.ListComp, ast.GeneratorExp, ast.SetComp, ast.DictComp)) else []
                for h in holders:
                    it = h.iter
                    if isinstance(it, ast.Call) and isinstance(it.func, ast.Name) and it.func.id == "__x5_iter_ord":
                        it = it.args[0]
                    k = self.x5_set_elem(it)
                    names = [t.id for t in ast.walk(h.target) if isinstance(t, ast.Name)]
                    if k is not None and k[0] is not None and isinstance(h.target, ast.Name):
                        if out.get(h.target.id, k[0]) is not k[0]:
                            bad.add(h.target.id)
                        out[h.target.id] = k[0]
                    else:
                        bad.update(names)
            for n in _walk_scope(self.node.body):
                bad.update(_targets_of(n))
            self._x5_loop_elem = {v: k for v, k in out.items() if v not in bad and v not in self.params()}
        return self._x5_loop_elem

    # ---- flow-sensitive class of a name that is reassigned
    def x5_strict_ann(self, ann):
        """`C` / `C | None` / `Optional[C]` only (a union with another class says nothing)"""
        if isinstance(ann, ast.Constant) and isinstance(ann.value, str):
            try:
                ann = ast.parse(ann.value, mode="eval").body
            except SyntaxError:
                return None
        if isinstance(ann, ast.BinOp) and isinstance(ann.op, ast.BitOr):
            sides = [s for s in (ann.left, ann.right) if not (isinstance(s, ast.Constant) and s.value is None)]
            return self.x5_strict_ann(sides[0]) if len(sides) == 1 else None
        return self.ann_class(ann) if isinstance(ann, ast.Name) else None

    def x5_isinstance_test(self, t, name):
        """(negated, [classes]) when t is `isinstance(name, C)` / `not isinstance(name, (C, D))`, else None"""
        neg = False
        if isinstance(t, ast.UnaryOp) and isinstance(t.op, ast.Not):
            neg, t = True, t.operand
        if isinstance(t, ast.Call) and isinstance(t.func, ast.Name) and t.func.id == "isinstance" and len(t.args) == 2 \
                and isinstance(t.args[0], ast.Name) and t.args[0].id == name and "isinstance" not in self.locals:
            classes = []
            for x in (t.args[1].elts if isinstance(t.args[1], ast.Tuple) else [t.args[1]]):
                if isinstance(x, ast.Attribute) and x.attr == "__class__" and isinstance(x.value, ast.Name) \
                        and self.owner is not None and self.node.args.args and x.value.id == self.node.args.args[0].arg:
                    classes.append(self.owner)
                elif isinstance(x, ast.Name):
                    v = self.globals.get(x.id)
                    if v is None:
                        import builtins
                        v = getattr(builtins, x.id, None)
                    if not inspect.isclass(v):
                        return None
                    classes.append(v)
                else:
                    return None
            return neg, classes
        return None

    def x5_value_class(self, v):
        """class of the value of an assignment: a constructor call of a tracked class / `self.__class__(…)`, or what the
        annotations say"""
        if isinstance(v, ast.Call) and isinstance(v.func, ast.Attribute) and v.func.attr == "__class__" \
                and isinstance(v.func.value, ast.Name) and self.owner is not None and self.node.args.args \
                and v.func.value.id == self.node.args.args[0].arg and not self.ctx.subclasses(self.owner):
            return self.owner
        if isinstance(v, ast.Call):
            return self.static_class(v)
        return None

    def x5_class_at(self, name, use):
        """the tracked class the value of local `name` has where expression node `use` is evaluated (None: unknown)"""
        BOT = "bot"

        class Found(Exception):
            pass

        def holds(node):
            return any(x is use for x in ast.walk(node))

        def join(a, b):
            if a == BOT:
                return b
            if b == BOT:
                return a
            return a if a is b else None

        def assigns(stmts):
            return [n for n in _walk_scope(stmts) if name in _targets_of(n)]

        def flow(stmts, cur):
            for st in stmts:
                if isinstance(st, (ast.Assign, ast.AnnAssign, ast.AugAssign)):
                    if holds(st):
                        raise Found(cur)
                    if name in _targets_of(st):
                        t = st.targets[0] if isinstance(st, ast.Assign) and len(st.targets) == 1 else getattr(st, "target", None)
                        cur = self.x5_value_class(st.value) if isinstance(t, ast.Name) and not isinstance(st, ast.AugAssign) else None
                elif isinstance(st, (ast.Return, ast.Raise)):
                    if holds(st):
                        raise Found(cur)
                    return BOT
                elif isinstance(st, ast.If):
                    if holds(st.test):
                        raise Found(cur)
                    inb, ine = cur, cur
                    it = self.x5_isinstance_test(st.test, name)
                    if it is not None:
                        neg, classes = it
                        one = classes[0] if len(classes) == 1 and self.ctx.is_tracked(classes[0]) else None
                        if neg:
                            inb, ine = (None if cur is not None and cur in classes else cur), (one if one is not None else cur)
                        else:
                            inb = one if one is not None else (cur if cur is not None and cur in classes else None)
                    a = flow(st.body, inb)
                    b = flow(st.orelse, ine)
                    cur = join(a, b)
                    if cur == BOT:
                        return BOT
                elif isinstance(st, (ast.For, ast.While)):
                    if holds(st.iter if isinstance(st, ast.For) else st.test):
                        raise Found(cur)
                    entry = cur
                    for a in assigns(st.body):
                        entry = join(entry, self.x5_value_class(a.value) if isinstance(a, ast.Assign) else None)
                    flow(st.body, entry)
                    cur = entry
                elif isinstance(st, ast.Try):
                    a = flow(st.body, cur)
                    if st.orelse and a != BOT:
                        a = flow(st.orelse, a)
                    start = cur if not assigns(st.body) else None
                    for h in st.handlers:
                        a = join(a, flow(h.body, start))
                    cur = a
                    if cur == BOT:
                        return BOT
                elif isinstance(st, ast.With):
                    if any(holds(i.context_expr) for i in st.items):
                        raise Found(cur)
                    cur = flow(st.body, cur)
                    if cur == BOT:
                        return BOT
                elif holds(st):
                    raise Found(cur)
            return cur

        init = None
        for a in self.node.args.args + self.node.args.kwonlyargs:
            if a.arg == name:
                init = self.x5_strict_ann(a.annotation)
        try:
            flow(self.node.body, init)
        except Found as f:
            r = f.args[0]
            return None if r == BOT else r
        return None

    def x5_static_class(self, e):
        if isinstance(e, ast.Attribute) and not (isinstance(e.value, ast.Call) and isinstance(e.value.func, ast.Name) and e.value.func.id == "super"):
            c = self.static_class(e.value)
            if c is not None and self.ctx.lookup(c, e.attr) is _MISSING:
                r = self.ctx.x5_field_class(c, e.attr)
                if r is not None:
                    return r[0]
            return _MISSING
        if not isinstance(e, ast.Name):
            return _MISSING
        loop = self.x5_loop_elem()
        if e.id in loop:
            return loop[e.id]
        if e.id in self.bound_stack() or not hasattr(self, "locals") or e.id not in self.locals:
            return _MISSING
        key = ("x5", e.id, id(e))
        if key in self._class_guard:
            return None
        n_assign = sum(1 for n in _walk_scope(self.node.body) if e.id in _targets_of(n))
        is_param = e.id in self.params()
        if (is_param and n_assign >= 1) or n_assign >= 2:
            self._class_guard.add(key)
            try:
                c = self.x5_class_at(e.id, e)
            finally:
                self._class_guard.discard(key)
            if c is not None or is_param:
                return c         # for a reassigned parameter the answer is final: its first value is the caller's
        return _MISSING

    def x5_narrowed_union(self, a):
        """the classes `isinstance(a, (…))` of an enclosing `if` allows for Name a (not rebound in between), else None"""
        if not isinstance(a, ast.Name):
            return None
        n = a
        while n in self.x5_parents:
            p = self.x5_parents[n]
            if isinstance(p, ast.If) and n in p.body:
                it = self.x5_isinstance_test(p.test, a.id)
                if it is not None and not it[0]:
                    before = [s for s in _walk_scope(p.body) if a.id in _targets_of(s) and s.lineno < a.lineno]
                    if not before:
                        return it[1]
            n = p
        return None

    def x5_eqf(self, k):
        if k == "plain":
            self.ctx.imports.add("PkgModel.PyRx")
            return "PyRx.eq_plain"
        return self.eqf_of_class(k)

    def x5_with_terms(self, terms, thunk):
        """run thunk() with `expr` answering the given Lean terms for the given nodes (by id)"""
        orig = self.expr
        def expr(x):
            if id(x) in terms:
                return True, terms[id(x)]
            return orig(x)
        self.expr = expr
        try:
            return thunk()
        finally:
            del self.expr

    def x5_optional_field(self, e):
        """is e an instance field declared `K | None`?"""
        if isinstance(e, ast.Attribute):
            c = self.static_class(e.value)
            if c is not None and self.ctx.lookup(c, e.attr) is _MISSING:
                r = self.ctx.x5_field_class(c, e.attr)
                return r is not None and r[1]
        return False

    def x5_hashf(self, k):
        impl = self.ctx.lookup(k, "__hash__")
        if not inspect.isfunction(impl):
            raise Unsupported(f"set of {k.__name__} without a Python-level __hash__")
        fn = self.ctx.require(impl)
        return f"(fun __a => {self.call_selected(fn, ['__a'])})"

    def x5_param_elem(self, a):
        """member class of an iterable parameter, from its annotation (`Iterable[K]`, possibly in a union)"""
        if not (isinstance(a, ast.Name) and a.id in self.params()):
            return None
        ann = next((p.annotation for p in self.node.args.args + self.node.args.kwonlyargs if p.arg == a.id), None)
        if isinstance(ann, ast.Constant) and isinstance(ann.value, str):
            try:
                ann = ast.parse(ann.value, mode="eval").body
            except SyntaxError:
                return None
        found = set()
        for n in ast.walk(ann) if ann is not None else []:
            if isinstance(n, ast.Subscript) and isinstance(n.value, ast.Name) \
                    and n.value.id in ("Iterable", "Iterator", "Sequence", "Collection", "list", "List", "set", "frozenset", "AbstractSet"):
                k = self.ann_class(n.slice)
                found.add(k)
        return found.pop() if len(found) == 1 else None

    def x5_cond(self, e):
        if self.x5_set_elem(e) is not None:
            self.x5_use()
            return f"PySet.set_truthy {self.val(e)}"
        if isinstance(e, (ast.Attribute, ast.Name)):
            c = self.static_class(e)
            if c is not None and not self.x5_optional_field(e):
                if inspect.isfunction(self.ctx.lookup(c, "__bool__")):
                    raise Unsupported(f"truth value of a {c.__name__} (__bool__)")
                impl = self.ctx.lookup(c, "__len__")
                if inspect.isfunction(impl):            # no `__bool__`: the truth value is `len(x) != 0`
                    if self.ctx.subclasses(c):
                        raise Unsupported(f"truth value of a {c.__name__} with tracked subclasses")
                    fn = self.ctx.require(impl)
                    return f"!(PyVal.eq (← {self.call_selected(fn, [self.val(e)])}) (PyVal.int 0))"
        return None

    def x5_expr(self, e):
        if isinstance(e, ast.BinOp) and isinstance(e.op, ast.BitOr):
            k = self.x5_set_elem(e)
            if k is None or k[0] is None:
                return None
            self.x5_use()
            return False, f"PySet.set_union {self.x5_eqf(k[0])} {self.val(e.left)} {self.val(e.right)}"
        if isinstance(e, ast.Compare) and len(e.ops) == 1 and isinstance(e.ops[0], ast.Eq) and self.x5_optional_field(e.left) \
                and not getattr(e, "_x5_guarded", False):
            # `a == b` where a is `K | None`: None compares by identity, otherwise K's `__eq__`
            e._x5_guarded = True
            t, u = self.fresh("l"), self.fresh("r")
            lv, rv = self.val(e.left), self.val(e.comparators[0])
            self._extra_bound = getattr(self, "_extra_bound", set()) | {t, u}
            inner = ast.copy_location(ast.Compare(left=e.left, ops=e.ops, comparators=e.comparators), e)
            inner._x5_guarded = True
            saved = (self.val,)
            p, c = self.x5_with_terms({id(e.left): t, id(e.comparators[0]): u}, lambda: self.compare(inner))
            body = f"pure {c}" if p else c
            return False, f"(do let {t} := {lv}; let {u} := {rv}; if PyRt.isNone {t} then pure (PyRt.eq {t} {u}) else {body})"
        if isinstance(e, ast.Compare) and len(e.ops) == 1 and isinstance(e.ops[0], ast.Eq):
            a, b = self.x5_set_elem(e.left), self.x5_set_elem(e.comparators[0])
            if a is not None and b is not None and a == b and a[0] is not None:
                self.x5_use()
                return False, f"PySet.set_eq {self.x5_eqf(a[0])} {self.val(e.left)} {self.val(e.comparators[0])}"
        if self.x5_set_elem(e) is not None and isinstance(self.x5_parents.get(e) if hasattr(self, "x5_parents") else None, ast.BoolOp):
            raise Unsupported("a set as an operand of and / or")
        return None

    def x5_nested_store(self, n, t):
        """`self.f.a = e` inside `__init__`, right after `self.f = K.__new__(K)` in the same block (so `self.f` is fresh)"""
        if not (getattr(self, "is_init", False) and isinstance(n, ast.Assign) and isinstance(t, ast.Attribute)
                and isinstance(t.value, ast.Attribute) and isinstance(t.value.value, ast.Name)
                and t.value.value.id == self.params()[0]):
            return False
        for blk in [x for x in ast.walk(self.node) if isinstance(x, (ast.FunctionDef, ast.If, ast.For, ast.While, ast.Try, ast.With))]:
            for body in (getattr(blk, "body", []), getattr(blk, "orelse", [])):
                if n in body:
                    i = body.index(n)
                    if i > 0 and isinstance(body[i - 1], ast.Assign) and len(body[i - 1].targets) == 1:
                        pt, pv = body[i - 1].targets[0], body[i - 1].value
                        return isinstance(pt, ast.Attribute) and isinstance(pt.value, ast.Name) and pt.value.id == t.value.value.id \
                            and pt.attr == t.value.attr and isinstance(pv, ast.Call) and isinstance(pv.func, ast.Attribute) \
                            and pv.func.attr == "__new__"
        return False

    def x5_stmt(self, st, ind):
        if isinstance(st, ast.AnnAssign) and st.value is not None and isinstance(st.target, ast.Attribute) \
                and self.x5_attr_store_ok(st, st.target):
            me = lname(st.target.value.id)
            self.emit(ind, f'{me} ← PyRt.setattr {me} "{st.target.attr}" {self.val(st.value)}')
            return True
        if isinstance(st, ast.Assign) and len(st.targets) == 1 and self.x5_nested_store(st, st.targets[0]):
            t = st.targets[0]
            me = lname(t.value.value.id)
            v = self.fresh("v")
            p, c = self.expr(st.value)
            self.emit(ind, f"let {v} := {c}" if p else f"let {v} ← {c}")
            self.emit(ind, f'{me} ← PyRt.setattr {me} "{t.value.attr}" (← PyRt.setattr (← PyRt.getattr {me} "{t.value.attr}") "{t.attr}" {v})')
            return True
        if isinstance(st, ast.Assign) and len(st.targets) == 1 and self.x5_attr_store_ok(st, st.targets[0]):
            t = st.targets[0]
            v = lname(t.value.id)
            self.emit(ind, f'{v} ← PyRt.setattr {v} "{t.attr}" {self.val(st.value)}')
            return True
        return False

    def x5_primitive_init_guard(self, key, init):
        want = PRIMITIVE_INIT_GUARDS.get(key)
        if want is not None and _fn_digest(init) != want:
            raise Unsupported(f"the source of {key[1]}.{key[2]} is not the text its run-time primitive mirrors")

    def x5_call(self, e, kws):
        f = e.func
        if isinstance(f, ast.Name) and f.id == "__x5_iter_ord":
            self.x5_use()
            return False, f"PySet.iter_ord {self.use_env()} {self.val(e.args[0])}"
        me = self.node.args.args[0].arg if self.owner is not None and self.node.args.args else None
        # self.__class__(…): the constructor of the owner (no tracked subclass may exist)
        if isinstance(f, ast.Attribute) and f.attr == "__class__" and isinstance(f.value, ast.Name) and f.value.id == me \
                and me not in self.param_assigned_names():
            if self.ctx.subclasses(self.owner) or self.globals.get(self.owner.__name__) is not self.owner:
                raise Unsupported("self.__class__(…) of a class with tracked subclasses")
            new = ast.copy_location(ast.Call(func=ast.Name(id=self.owner.__name__, ctx=ast.Load()), args=e.args, keywords=e.keywords), e)
            return self.call(new)
        # K.__new__(K): an object without attributes
        if isinstance(f, ast.Attribute) and f.attr == "__new__" and isinstance(f.value, ast.Name) and len(e.args) == 1 and not kws \
                and isinstance(e.args[0], ast.Name) and e.args[0].id == f.value.id and f.value.id not in self.locals:
            k = self.globals.get(f.value.id)
            if inspect.isclass(k) and self.ctx.is_tracked(k) and k.__new__ is object.__new__:
                return True, f'(PyVal.obj "{k.__name__}" [])'
        # "…{}…".format(*xs)
        if isinstance(f, ast.Attribute) and f.attr == "format" and isinstance(f.value, ast.Constant) and isinstance(f.value.value, str) \
                and len(e.args) == 1 and isinstance(e.args[0], ast.Starred) and not kws:
            tmpl = f.value.value
            parts = tmpl.split("{}")
            if any("{" in p or "}" in p for p in parts):
                raise Unsupported("format template with other than plain {} fields")
            self.x5_use()
            return False, "PySet.format_star [" + ", ".join(lstr(p) if p else "[]" for p in parts) + f"] {self.val(e.args[0].value)}"
        if not (isinstance(f, ast.Name) and f.id not in self.locals and f.id not in self.globals):
            return None
        name, args = f.id, e.args
        if name == "iter" and len(args) == 1 and not kws:
            self.x5_use()
            if self.x5_set_elem(args[0]) is not None:
                return False, f"PySet.iter_ord {self.use_env()} {self.val(args[0])}"
            if isinstance(args[0], ast.Name) and args[0].id in getattr(self, "mutated", ()) \
                    and not isinstance(self.x5_parents.get(e), ast.Return):
                raise Unsupported("iter() of a list that is mutated in place, not returned at once")
            return False, f"PySet.iter_ {self.val(args[0])}"
        if name == "len" and len(args) == 1 and not kws and self.x5_set_elem(args[0]) is not None:
            self.x5_use()
            return False, f"PySet.set_len {self.val(args[0])}"
        if name == "bool" and len(args) == 1 and not kws:
            self.x5_use()
            return True, f"(PyVal.bool ({self.cond(args[0])}))"
        if name == "sorted" and len(args) == 1 and not kws:
            self.x5_use()
            return False, f"PySet.sorted_ {self.val(args[0])}"
        if name in ("frozenset", "set") and len(args) == 1 and not kws:
            k = self.x5_set_elem(args[0])
            k = k[0] if k is not None else self.x5_param_elem(args[0])
            if k is None and isinstance(args[0], ast.Call) and isinstance(args[0].func, ast.Name) and args[0].func.id == "map" \
                    and len(args[0].args) == 2 and isinstance(args[0].args[0], ast.Name):
                v = self.globals.get(args[0].args[0].id)
                k = v if inspect.isclass(v) and self.ctx.is_tracked(v) else None
            if k is None and _x8_comp_ctor(args[0]) is not None and _x8_comp_ctor(args[0]) not in self.locals:      # --- x8
                v = self.globals.get(_x8_comp_ctor(args[0]))
                k = v if inspect.isclass(v) and self.ctx.is_tracked(v) else None
            if k is None and isinstance(args[0], ast.BoolOp) and isinstance(args[0].op, ast.Or) and all(
                    self.elem_simple(v) or (isinstance(v, ast.List) and not v.elts) for v in args[0].values):
                k = "plain"                                   # `set(xs or [])` with xs a list of strings by annotation
            if k == "plain":
                self.ctx.imports.add("PkgModel.PyRx")
                return False, f'PyRx.set_of "{name}" PyRx.eq_plain {self.val(args[0])}'
            if k is not None and (k.__module__, k.__name__) in X5_HASHED_MEMBERS:
                self.x5_use()
                self.ctx.imports.add("PkgModel.PyRx")
                return False, f'PySet.set_of_h "{name}" {self.x5_hashf(k)} {self.x5_eqf(k)} {self.val(args[0])}'
            return None
        if name == "isinstance" and len(args) == 2 and not kws and isinstance(args[0], ast.Name):
            it = self.x5_isinstance_test(e, args[0].id)
            if it is not None and self.owner in it[1] and any(
                    isinstance(x, ast.Attribute) for x in ast.walk(args[1])):          # mentions self.__class__
                names = []
                for c in it[1]:
                    names += [c.__name__] + [d.__name__ for d in self.ctx.subclasses(c)] if self.ctx.is_tracked(c) else [c.__name__]
                return True, f"(PyVal.bool (PyRt.isinstance {self.val(args[0])} [" + ", ".join(f'"{c}"' for c in names) + "]))"
            return None
        if name == "str" and len(args) == 1 and not kws and isinstance(args[0], ast.Name) and hasattr(self, "x5_parents"):
            union = self.x5_narrowed_union(args[0])
            if union is None or self.static_class(args[0]) is not None or not any(self.ctx.is_tracked(c) for c in union):
                return None
            t = self.fresh("s")
            out = f"(do let {t} := {self.val(args[0])}; "
            for c in union:
                if self.ctx.is_tracked(c):
                    impl = self.ctx.lookup(c, "__str__")
                    if not inspect.isfunction(impl) or self.ctx.subclasses(c):
                        raise Unsupported(f"str() of a {c.__name__}")
                    out += f'if PyRt.className {t} == "{c.__name__}" then {self.call_selected(self.ctx.require(impl), [t])} else '
                elif c not in (str, int, bool):
                    raise Unsupported(f"str() of a {c.__name__}")
            return False, out + f"PyRt.str_ {t})"
        if name == "map" and len(args) == 2 and not kws and isinstance(args[0], ast.Name) and args[0].id not in self.locals:
            v = self.globals.get(args[0].id)
            if inspect.isclass(v) and self.ctx.is_tracked(v):
                x = "__x5a"
                lam = ast.Lambda(args=ast.arguments(posonlyargs=[], args=[ast.arg(arg=x)], kwonlyargs=[], kw_defaults=[], defaults=[]),
                                 body=ast.Call(func=ast.Name(id=args[0].id, ctx=ast.Load()), args=[ast.Name(id=x, ctx=ast.Load())], keywords=[]))
                ast.fix_missing_locations(ast.copy_location(lam, e))
                return False, f"PyRt.map_ {self.fn_arg(lam)} {self.val(args[1])}"
        return None
    # ================================================================================================ x5 end

    # ================================================================================================ x6 extensions
    # A rewriting pass over the function's ast (`x6_prepare`, before the analyses) brings the platform code into the subset:
    # `import m` inside a function, `with <probe>(…) as f`, unpacking into more than three names / into attributes, named
    # tuples as plain tuples (`.field` by index), module-level dicts with tuple keys, `&`, enum members, `str.format` with
    # keyword fields, `subprocess.run(…).stdout` as a read of the environment keyed by the source text of the call.  The
    # pseudo-calls `__x6_*` it leaves are translated by `x6_call`.
    def x6_active(self):
        return (self.pyfunc.__module__, self.pyfunc.__qualname__) in X6_FUNCTIONS

    def x6_prepare(self):
        if not self.x6_active():
            return
        self.node = _X6Rewrite(self).run(self.node)
        ast.fix_missing_locations(self.node)

    def x6_import_locals(self):
        return {t.id for n in _walk_scope(self.node.body) if isinstance(n, ast.Assign) and isinstance(n.value, ast.Call)
                and isinstance(n.value.func, ast.Name) and n.value.func.id == "__x6_import" for t in n.targets
                if isinstance(t, ast.Name)}

    def x6_gdict(self, name):
        d = self.globals.get(name)
        if not isinstance(d, dict):
            raise Unsupported(f"{name} is not a module-level dict")
        rows = ", ".join(f"({lconst(k)}, {lconst(v)})" for k, v in d.items())
        dflt = "Option.none"
        factory = getattr(d, "default_factory", None)
        if factory is not None:
            dflt = f"(some {lconst(factory())})"
        return f"[{rows}]", dflt

    def x6_call(self, e, kws):
        f = e.func
        # a probe that is *also* translated (`platform_tags`): its callers of the earlier rounds keep reading the table
        if isinstance(f, ast.Name) and f.id in EXTERNAL_CALLS and f.id not in self.locals and not kws \
                and inspect.isfunction(self.globals.get(f.id)) and self.ctx.lean_name_of(self.globals[f.id]) is not None:
            args = ", ".join(self.val(a) for a in e.args)
            return False, f'PyRt.env_call {self.use_env()} "{f.id}" [{args}]'
        if not self.x6_active():
            return None
        use = lambda: self.ctx.imports.add(X6_IMPORT)
        if isinstance(f, ast.Name) and f.id.startswith("__x6_"):
            use()
            a = e.args
            if f.id == "__x6_import":
                return False, f'PyPlat.env_import {self.use_env()} "{a[0].value}"'
            if f.id == "__x6_env_read":
                key = a[0].value.replace("\\", "\\\\").replace('"', '\\"')
                return False, f'PyPlat.env_read {self.use_env()} "{key}"'
            if f.id == "__x6_tuple_n":
                return False, f"PyPlat.tuple_n {self.val(a[0])} {self.val(a[1])}"
            if f.id == "__x6_unpack":
                return False, f"PyPlat.unpack_n {self.val(a[0])} {self.val(a[1])}"
            if f.id == "__x6_gdict_contains":
                rows, _ = self.x6_gdict(a[0].value)
                return False, f"PyPlat.gdict_contains {rows} {self.val(a[1])}"
            if f.id == "__x6_gdict_getitem":
                rows, dflt = self.x6_gdict(a[0].value)
                return False, f"PyPlat.gdict_getitem {rows} {dflt} {self.val(a[1])}"
            if f.id == "__x6_dict_lookup":
                d = a[0]
                rows = ", ".join(f"({lconst(ast.literal_eval(k))}, {self.val(v)})" for k, v in zip(d.keys, d.values))
                return False, f"PyPlat.gdict_getitem [{rows}] Option.none {self.val(a[1])}"
            if f.id == "__x6_dict_get":
                return False, f"PyRt.dict_get {self.val(a[0])} {self.val(a[1])} {self.val(a[2])}"
            if f.id == "__x6_ext":
                if a[0].value not in self.x3_oracles():
                    raise Unsupported(f"{a[0].value} is not an oracle of this module")
                return False, f'PyRt.ext_call {self.use_ext()} "{a[0].value}" [' + ", ".join(self.val(x) for x in a[1:]) + "]"
            if f.id == "__x6_setattr_dyn":
                self.ctx.imports.add(X6_MD_IMPORT)
                return False, f"PyMd.setattr_dyn {self.val(a[0])} {self.val(a[1])} {self.val(a[2])}"
            if f.id == "__x6_del_item":
                self.ctx.imports.add(X6_MD_IMPORT)
                return False, f'PyMd.del_field_item {self.val(a[0])} "{a[1].value}" {self.val(a[2])}'
            if f.id == "__x6_process":
                return False, self.x6_process_dispatcher() + f" {self.use_ext()} {self.val(a[0])} {self.val(a[1])}"
            if f.id == "__x6_bitand":
                return False, f"PyPlat.bitand {self.val(a[0])} {self.val(a[1])}"
            r = self.x6_elf_call(e, kws)
            if r is not None:
                return r
            raise Unsupported(f"pseudo-call {f.id}")
        mods = self.x6_import_locals()
        if isinstance(f, ast.Name) and f.id == "hasattr" and len(e.args) == 2 and not kws and isinstance(e.args[0], ast.Name) \
                and e.args[0].id in mods and isinstance(e.args[1], ast.Constant) and isinstance(e.args[1].value, str):
            use()
            return True, f'(PyPlat.hasattr {self.val(e.args[0])} "{e.args[1].value}")'
        if isinstance(f, ast.Attribute) and isinstance(f.value, ast.Name) and f.value.id in mods and not kws \
                and not any(isinstance(a, ast.Starred) for a in e.args):
            use()
            return False, f'PyPlat.call_attr {self.val(f.value)} "{f.attr}" [' + ", ".join(self.val(a) for a in e.args) + "]"
        if isinstance(f, ast.Name) and f.id not in self.locals and f.id not in self.bound_stack():
            v = self.globals.get(f.id)
            if type(v).__name__ == "_lru_cache_wrapper" and inspect.isfunction(getattr(v, "__wrapped__", None)):
                w = v.__wrapped__
                if (w.__module__, w.__qualname__) in X6_TRANSPARENT_CACHES:
                    name = self.ctx.require(w)
                    return False, self.call_selected(name, self.bind_args(w, e.args, kws))
                if f.id in EXTERNAL_CALLS and not kws:
                    args = ", ".join(self.val(a) for a in e.args)
                    return False, f'PyRt.env_call {self.use_env()} "{f.id}" [{args}]'
                raise Unsupported(f"call of the cached function {f.id}")
        # `<module of the library>.<function>(…)`: a function of another module of packaging, translated as well
        if isinstance(f, ast.Attribute) and isinstance(f.value, ast.Name) and f.value.id not in self.locals \
                and f.value.id not in self.bound_stack() and inspect.ismodule(self.globals.get(f.value.id)) \
                and (self.globals[f.value.id].__name__ or "").startswith("packaging."):
            m = self.globals[f.value.id]
            v = getattr(m, f.attr, None)
            if inspect.isfunction(v) and v.__module__ == m.__name__:
                name = self.ctx.require(v, name=m.__name__.split(".")[-1] + "." + v.__qualname__)
                return False, self.call_selected(name, self.bind_args(v, e.args, kws))
        return None

    def x6_process_dispatcher(self):
        """`getattr(self, f"_process_{self.name}")(value)` with the `AttributeError` fall-through: a chain of tests on `self.name`
        over the `_process_*` methods the class defines now (a method added or removed changes the definition)"""
        c = self.owner
        dname = f"{c.__name__}._process__dyn"
        if dname not in self.ctx.dispatchers:
            body, deps = "", set()
            for n, impl in vars(c).items():
                if n.startswith("_process_") and inspect.isfunction(impl):
                    fn = self.ctx.require(impl)
                    deps.add(fn)
                    ext = " ext" if fn in self.ctx.uses_ext else ""
                    body += f"if PyVal.eq __n (PyVal.str {lstr(n[len('_process_'):])}) then {fn}{ext} self value else "
            body += "pure value"
            self.ctx.dispatchers[dname] = (f"def {dname} (ext : PyRt.Oracle) (self value : PyVal) : M PyVal := do\n"
                                           f"  let __n ← PyRt.getattr self \"name\"\n  {body}")
            self.ctx.dispatcher_deps[dname] = deps
        self.ctx.deps.setdefault(self.ctx.current, set()).add(dname)
        return dname

    def x6_elf_call(self, e, kws):
        f, a = e.func, e.args
        prim = {"__x6_seek": "PyElf.seek", "__x6_read": "PyElf.read", "__x6_fsdecode": "PyElf.fsdecode",
                "__x6_strip_chars": "PyElf.str_strip_chars", "__x6_bytes": "PyElf.bytes_of", "__x6_read_struct": "PyElf.read_struct"}
        if f.id == "__x6_read_struct":
            impl = self.ctx.lookup(self.owner, "_read") if self.owner is not None else None
            if not inspect.isfunction(impl) or _fn_digest(impl) != X6_ELF_READ_GUARD:
                raise Unsupported("ELFFile._read is not the method the primitive PyElf.read_struct mirrors")
        if f.id in prim:
            self.ctx.imports.add(X6_ELF_IMPORT)
            return False, prim[f.id] + "".join(" " + self.val(x) for x in a)
        if f.id == "__x6_bytes_lit":
            self.ctx.imports.add(X6_ELF_IMPORT)
            return True, "(PyElf.ofBytes [" + ", ".join(str(b) for b in bytes.fromhex(a[0].value)) + "])"
        return None
    # ================================================================================================ x6 end

    # ================================================================================================ x7
    def x7_class_const_dict(self, e):
        """`<obj>.<attr>` where obj has a tracked static class whose class attribute `attr` is a dict of constants that no
        tracked subclass overrides: the rows as a Lean association list, else None"""
        if not isinstance(e, ast.Attribute):
            return None
        c = self.static_class(e.value)
        if c is None:
            return None
        d = self.ctx.lookup(c, e.attr)
        if not isinstance(d, dict) or any(self.ctx.lookup(k, e.attr) is not d for k in self.ctx.subclasses(c)):
            return None
        try:
            return "[" + ", ".join(f"({lconst(k)}, {lconst(v)})" for k, v in d.items()) + "]"
        except Unsupported:
            return None

    def x7_module_const(self, e, kind):
        """the module-level constant a bare name refers to, when it is of type `kind` and holds only str / int constants"""
        if isinstance(e, ast.Name) and e.id not in self.locals and e.id not in self.bound_stack():
            v = self.globals.get(e.id)
            if isinstance(v, kind):
                return v
        return None

    def x7_set_term(self, v):
        self.ctx.imports.add("PkgModel.PyRx")
        return '(PyRx.mkSet "frozenset" [' + ", ".join(lconst(x) for x in sorted(v)) + "])"

    def x7_metadata_expr(self, e):
        if self.pyfunc.__module__ != "packaging.metadata":
            return None
        # `frozenset(<dict>) | <module-level frozenset of str>`
        if isinstance(e, ast.BinOp) and isinstance(e.op, ast.BitOr) and isinstance(e.left, ast.Call) \
                and isinstance(e.left.func, ast.Name) and e.left.func.id == "frozenset" and len(e.left.args) == 1:
            c = self.x7_module_const(e.right, (set, frozenset))
            if c is not None and all(isinstance(x, str) for x in c):
                self.ctx.imports.add(X7_IMPORT)
                return False, f"PyX7.set_union_plain (← PyX7.set_of_keys {self.val(e.left.args[0])}) {self.x7_set_term(c)}"
        # `D[k]` / `k in D` on a module-level dict of str constants
        if isinstance(e, ast.Subscript) and isinstance(e.ctx, ast.Load) and not isinstance(e.slice, ast.Slice):
            d = self.x7_module_const(e.value, dict)
            if d is not None and all(isinstance(k, str) and isinstance(v, str) for k, v in d.items()):
                self.ctx.imports.add(X7_IMPORT)
                rows = "[" + ", ".join(f"({lconst(k)}, {lconst(v)})" for k, v in d.items()) + "]"
                return False, f"PyX7.const_dict_getitem {rows} {self.val(e.slice)}"
        if isinstance(e, ast.Compare) and len(e.ops) == 1 and isinstance(e.ops[0], (ast.In, ast.NotIn)):
            d = self.x7_module_const(e.comparators[0], dict)
            if d is not None and all(isinstance(k, str) for k in d):
                self.ctx.imports.add(X7_IMPORT)
                keys = "[" + ", ".join(lconst(k) for k in d) + "]"
                t = f"PyX7.const_keys_contains {keys} {self.val(e.left)}"
                return False, (f"(do pure (PyRt.not_ (← {t})))" if isinstance(e.ops[0], ast.NotIn) else t)
        return None

    def x7_expr(self, e):
        r = self.x7_metadata_expr(e)
        if r is not None:
            return r
        # `self._operators[k]`: a class-level dict of constants, current contents inlined (KeyError when absent)
        if isinstance(e, ast.Subscript) and isinstance(e.ctx, ast.Load) and not isinstance(e.slice, ast.Slice):
            rows = self.x7_class_const_dict(e.value)
            if rows is not None:
                self.ctx.imports.add(X7_IMPORT)
                return False, f"PyX7.const_dict_getitem {rows} {self.val(e.slice)}"
        return None

    def x7_metadata_call(self, e, kws):
        f = e.func
        cls = getattr(self, "x7_cls", None)
        # exception constructors: an object of the class with the attributes its own `__init__` sets; the message is not kept
        c = self.x7_exc_class(e)
        if c is not None and self.pyfunc.__module__ == "packaging.metadata":
            self.ctx.imports.add(X7_IMPORT)
            mp = self.x7_message_params(c)
            if mp is None:
                if c.__name__ in ("ExceptionGroup", "BaseExceptionGroup") and len(e.args) == 2 and not kws:
                    if not self.x7_pure_text(e.args[0]):
                        raise Unsupported("message of an ExceptionGroup")
                    return False, f"PyX7.exception_group {self.val(e.args[1])}"
                if all(self.x7_pure_text(a) for a in e.args) and not kws:
                    return True, f'(PyVal.obj "{c.__name__}" [])'
                raise Unsupported(f"constructor of {c.__name__}")
            init = self.ctx.lookup(c, "__init__")
            names = list(inspect.signature(init).parameters)[1:]
            bound = dict(zip(names, e.args))
            bound.update(kws)
            args = []
            for n in names:
                if n not in bound:
                    raise Unsupported(f"missing argument {n}")
                if n in mp:
                    if not self.x7_pure_text(bound[n]):
                        raise Unsupported("a message argument that is more than a text")
                    args.append("PyVal.none")
                else:
                    args.append(self.val(bound[n]))
            fn = self.ctx.require(init)
            return False, self.call_selected(fn, [f'(PyVal.obj "{c.__name__}" [])'] + args)
        if isinstance(f, ast.Name) and f.id == "__x7_keys" and len(e.args) == 1:
            return False, f"PyRt.dict_keys {self.val(e.args[0])}"
        if isinstance(f, ast.Name) and f.id == "__x7_msg_del" and len(e.args) == 2:
            self.ctx.imports.add(X7_IMPORT)
            return False, f"PyX7.msg_del {self.val(e.args[0])} {self.val(e.args[1])}"
        # methods of a parameter annotated `email.message.Message`
        if isinstance(f, ast.Attribute) and isinstance(f.value, ast.Name) and f.value.id in self.x7_msg_obj_params() \
                and f.value.id not in self.bound_stack():
            self.ctx.imports.add(X7_IMPORT)
            if f.attr == "get_payload" and not e.args and set(kws) <= {"decode"}:
                d = self.val(kws["decode"]) if "decode" in kws else "(PyVal.bool false)"
                return False, f"PyX7.msg_get_payload {self.val(f.value)} {d}"
            raise Unsupported(f"method {f.attr} of an email Message")
        # `b.decode("utf8", "strict")`
        if isinstance(f, ast.Attribute) and f.attr == "decode" and len(e.args) == 2 and not kws \
                and all(isinstance(a, ast.Constant) for a in e.args) and [a.value for a in e.args] == ["utf8", "strict"]:
            self.ctx.imports.add(X7_IMPORT)
            return False, f"PyX7.bytes_decode_utf8 {self.val(f.value)}"
        if cls is not None:
            if isinstance(f, ast.Name) and f.id == cls and not e.args and not kws:
                return True, f'(PyVal.obj "{self.x7_owner.__name__}" [])'
            if isinstance(f, ast.Attribute) and f.attr == "get" and isinstance(f.value, ast.Attribute) and f.value.attr == "__dict__" \
                    and isinstance(f.value.value, ast.Name) and f.value.value.id == cls and len(e.args) == 1 and not kws:
                table, _ = self.x7_descriptor_table()
                self.ctx.imports.add(X7_IMPORT)
                return False, f"PyX7.class_dict_get {table} {self.val(e.args[0])}"
            if isinstance(f, ast.Attribute) and isinstance(f.value, ast.Name) and f.value.id == cls:
                m = inspect.getattr_static(self.x7_owner, f.attr, None)
                if isinstance(m, classmethod):
                    fn = self.ctx.require(m.__func__)
                    if fn in self.ctx.x7_mx and not self.x7_mx:
                        raise Unsupported("call of a function that raises exception objects from one that does not")
                    sig = inspect.signature(m.__func__)
                    args = self.bind_args_named(sig, list(sig.parameters)[1:], list(e.args), kws)
                    return False, self.call_selected(fn, args)
        if self.pyfunc.__module__ == "packaging.metadata":
            # `<module-level list constant>.index(x)`
            if isinstance(f, ast.Attribute) and f.attr == "index" and len(e.args) == 1 and not kws:
                l = self.x7_module_const(f.value, list)
                if l is not None:
                    self.ctx.imports.add(X7_IMPORT)
                    return False, f"PyX7.list_index {lconst(l)} {self.val(e.args[0])}"
            # `sorted(xs, key=str)`
            if isinstance(f, ast.Name) and f.id == "sorted" and f.id not in self.locals and len(e.args) == 1 and list(kws) == ["key"] \
                    and isinstance(kws["key"], ast.Name) and kws["key"].id == "str" and "str" not in self.locals:
                self.ctx.imports.add(X7_IMPORT)
                return False, f"PyX7.sorted_key_str {self.val(e.args[0])}"
            # `d.copy()` on a parameter annotated with a dict type
            if isinstance(f, ast.Attribute) and f.attr == "copy" and not e.args and not kws and isinstance(f.value, ast.Name):
                for a in self.node.args.args + self.node.args.kwonlyargs:
                    if a.arg == f.value.id and a.annotation is not None and self.x7_dict_ann(a.annotation):
                        return False, f"PyRt.dict_copy {self.val(f.value)}"
        return None

    def x7_call(self, e, kws):
        r = self.x7_metadata_call(e, kws)
        if r is not None:
            return r
        f = e.func
        # `getattr(obj, f"<prefix>{…}")` on an instance of a tracked class: a bound method of the class, by name.  Every
        # attribute of the class (and of its tracked subclasses) with that prefix must be a plain function.
        if isinstance(f, ast.Name) and f.id == "getattr" and f.id not in self.locals and len(e.args) == 2 and not kws \
                and isinstance(e.args[1], ast.JoinedStr) and e.args[1].values and isinstance(e.args[1].values[0], ast.Constant) \
                and isinstance(e.args[1].values[0].value, str) and e.args[1].values[0].value:
            c = self.static_class(e.args[0])
            if c is None:
                raise Unsupported("getattr on a value of unknown class")
            if self.ctx.subclasses(c):
                raise Unsupported("reflective getattr on a class with tracked subclasses")
            prefix = e.args[1].values[0].value
            names = [n for k in c.__mro__ for n in vars(k) if n.startswith(prefix)]
            names = sorted(set(names))
            if not names or any(not inspect.isfunction(self.ctx.lookup(c, n)) for n in names):
                raise Unsupported(f"attributes {prefix}* of {c.__name__} are not all plain functions")
            self.ctx.imports.add(X7_IMPORT)
            lst = "[" + ", ".join('"' + n + '"' for n in names) + "]"
            return False, f"PyX7.bound_method {lst} {self.val(e.args[0])} {self.val(e.args[1])}"
        # `<compiled pattern global>.split(s)` for a pattern that is one character class
        if isinstance(f, ast.Attribute) and f.attr == "split" and isinstance(f.value, ast.Name) and f.value.id not in self.locals \
                and type(self.globals.get(f.value.id)).__name__ == "Pattern" and len(e.args) == 1 and not kws:
            rs = _x7_class_pattern(self.globals[f.value.id])
            if rs is None:
                raise Unsupported(f"{f.value.id}.split: the pattern is not a single character class")
            self.ctx.imports.add(X7_IMPORT)
            return False, "PyX7.re_split_class [" + ", ".join(f"({lo}, {hi})" for lo, hi in rs) + f"] {self.val(e.args[0])}"
        return None

    # ---- x7: exception objects, classmethods, the descriptor protocol (metadata.py)
    def x7_msg_obj_params(self_):
        return [a.arg for a in self_.node.args.args if isinstance(a.annotation, ast.Attribute) and _dotted(a.annotation) == X7_MESSAGE_ANN] \
            + ([self_.x9_io] if getattr(self_, "x9_io", None) else [])                 # x9: the message that is the state

    def x7_prepare_messages(self):
        """`del msg[k]` on a parameter annotated `email.message.Message` rebinds the parameter (`msg = __x7_msg_del(msg, k)`); the
        deletion is not seen by the caller (a caller that reads the message afterwards is refused, see `x7_metadata_call`)"""
        ps = set(self.x7_msg_obj_params())
        if not ps:
            return
        class Del(ast.NodeTransformer):
            def visit_Delete(self, node):
                if len(node.targets) == 1 and isinstance(node.targets[0], ast.Subscript) and isinstance(node.targets[0].value, ast.Name) \
                        and node.targets[0].value.id in ps:
                    t = node.targets[0]
                    return ast.copy_location(ast.Assign(
                        targets=[ast.Name(id=t.value.id, ctx=ast.Store())],
                        value=ast.Call(func=ast.Name(id="__x7_msg_del", ctx=ast.Load()), args=[ast.Name(id=t.value.id, ctx=ast.Load()), t.slice],
                                       keywords=[])), node)
                return node
        self.node = Del().visit(self.node)
        ast.fix_missing_locations(self.node)

    def x7_prepare(self):
        self.x7_prepare_messages()
        self.x7_mx = self.ctx.x7_is_mx(self.pyfunc)
        self.x7_cls, self.x7_owner, self.x7_ins, self.x7_dicts = None, self.owner, set(), set()
        if self.x7_mx:
            self.ctx.x7_mx.add(self.lean_name)
        if self.ctx.x7_is_clsmethod(self.pyfunc):
            self.x7_cls = self.node.args.args[0].arg
            self.node.args.args = self.node.args.args[1:]
            self.ctx.x7_clsmethods.add(self.lean_name)
            self.owner = None                       # the first remaining parameter is not `self`
            if self.ctx.subclasses(self.x7_owner) or [k for k in self.x7_owner.__subclasses__()]:
                raise Unsupported("classmethod of a class with subclasses (`cls` is read as the defining class)")
        if self.x7_cls is None and not self.x7_mx:
            return
        cls = self.x7_cls
        for n in _walk_scope(self.node.body):
            if isinstance(n, ast.Assign) and len(n.targets) == 1 and isinstance(n.targets[0], ast.Name) \
                    and isinstance(n.value, ast.Call) and isinstance(n.value.func, ast.Name) and n.value.func.id == cls \
                    and not n.value.args and not n.value.keywords:
                self.x7_ins.add(n.targets[0].id)
        for name in list(self.x7_ins):
            if sum(1 for n in _walk_scope(self.node.body) if name in _targets_of(n)) != 1:
                raise Unsupported(f"the instance local {name} is rebound")
        # `a, b = f(x)` where f is annotated `-> tuple[D1, D2]` with dict types: `for k in b` iterates the keys
        for n in _walk_scope(self.node.body):
            if isinstance(n, ast.Assign) and isinstance(n.targets[0], ast.Tuple) and isinstance(n.value, ast.Call) \
                    and isinstance(n.value.func, ast.Name) and inspect.isfunction(self.globals.get(n.value.func.id)):
                ret = ast.parse(textwrap.dedent(inspect.getsource(self.globals[n.value.func.id]))).body[0].returns
                if isinstance(ret, ast.Subscript) and isinstance(ret.value, ast.Name) and ret.value.id == "tuple" \
                        and isinstance(ret.slice, ast.Tuple) and len(ret.slice.elts) == len(n.targets[0].elts):
                    for t, a in zip(n.targets[0].elts, ret.slice.elts):
                        if isinstance(t, ast.Name) and self.x7_dict_ann(a):
                            self.x7_dicts.add(t.id)
        fn = self

        class KeysLoop(ast.NodeTransformer):
            def visit_For(self, node):
                self.generic_visit(node)
                if isinstance(node.iter, ast.Name) and node.iter.id in fn.x7_dicts:
                    node.iter = ast.copy_location(ast.Call(func=ast.Name(id="__x7_keys", ctx=ast.Load()), args=[node.iter], keywords=[]), node.iter)
                return node
        self.node = KeysLoop().visit(self.node)
        ast.fix_missing_locations(self.node)

    def x7_dict_ann(self, a):
        """an annotation that names a dict type: `dict[...]`, or a TypedDict of the module"""
        if isinstance(a, ast.Subscript) and isinstance(a.value, ast.Name) and a.value.id == "dict":
            return True
        if isinstance(a, ast.Name):
            v = self.globals.get(a.id)
            return inspect.isclass(v) and issubclass(v, dict) or getattr(v, "__total__", None) is not None and hasattr(v, "__required_keys__")
        return False

    def x7_exc_class(self, e):
        """the exception class a constructor call `C(...)` names (a class of the library or a builtin), else None"""
        if isinstance(e, ast.Call) and isinstance(e.func, ast.Name) and e.func.id not in self.locals:
            v = self.globals.get(e.func.id)
            if v is None:
                import builtins
                v = getattr(builtins, e.func.id, None)
            if inspect.isclass(v) and issubclass(v, BaseException):
                return v
        return None

    def x7_message_params(self, c):
        """parameters of the Python-level `__init__` of exception class c that are only handed to `super().__init__`: the
        message, which exception objects do not keep; None when c has no Python-level `__init__`"""
        init = self.ctx.lookup(c, "__init__")
        if not inspect.isfunction(init):
            return None
        node = ast.parse(textwrap.dedent(inspect.getsource(init))).body[0]
        inside = set()
        for n in ast.walk(node):
            if isinstance(n, ast.Call) and isinstance(n.func, ast.Attribute) and n.func.attr == "__init__" \
                    and isinstance(n.func.value, ast.Call) and isinstance(n.func.value.func, ast.Name) and n.func.value.func.id == "super":
                inside |= {id(x) for a in n.args for x in ast.walk(a)}
        out = []
        for a in node.args.args[1:]:
            uses = [x for x in ast.walk(node) if isinstance(x, ast.Name) and x.id == a.arg and isinstance(x.ctx, ast.Load)]
            if uses and all(id(x) in inside for x in uses):
                out.append(a.arg)
        return out

    def x7_pure_text(self, e):
        """an expression that only builds a message text (no effect, cannot raise for str / number operands)"""
        if isinstance(e, (ast.Constant, ast.Name)):
            return True
        if isinstance(e, ast.JoinedStr):
            return all(isinstance(v, ast.Constant) or (isinstance(v, ast.FormattedValue) and v.format_spec is None and self.x7_pure_text(v.value))
                       for v in e.values)
        if isinstance(e, ast.Attribute):
            return self.x7_pure_text(e.value)
        if isinstance(e, ast.Call) and isinstance(e.func, ast.Attribute) and e.func.attr == "replace" and not e.keywords:
            return self.x7_pure_text(e.func.value) and all(self.x7_pure_text(a) for a in e.args)
        if isinstance(e, ast.Call) and isinstance(e.func, ast.Name) and e.func.id == "repr" and len(e.args) == 1 and not e.keywords:
            return self.x7_pure_text(e.args[0])
        return False

    def x7_message_locals(self):
        """locals that are only ever bound to message texts and only used as the message argument of exception constructors"""
        if hasattr(self, "_x7_msg_locals"):
            return self._x7_msg_locals
        used_as_msg, other_use = set(), set()
        marked = set()
        for n in _walk_scope(self.node.body, into_exprs=True):
            c = self.x7_exc_class(n)
            if c is not None:
                mp = self.x7_message_params(c)
                if mp is not None:
                    init = self.ctx.lookup(c, "__init__")
                    names = list(inspect.signature(init).parameters)[1:]
                    for pn, a in list(zip(names, n.args)) + [(k.arg, k.value) for k in n.keywords]:
                        if pn in mp and isinstance(a, ast.Name):
                            used_as_msg.add(a.id)
                            marked.add(id(a))
        for n in _walk_scope(self.node.body, into_exprs=True):
            if isinstance(n, ast.Name) and isinstance(n.ctx, ast.Load) and id(n) not in marked:
                other_use.add(n.id)
        out = set()
        for v in used_as_msg - other_use:
            binds = [n for n in _walk_scope(self.node.body) if v in _targets_of(n)]
            if binds and all(isinstance(b, ast.Assign) and len(b.targets) == 1 and isinstance(b.targets[0], ast.Name)
                             and self.x7_pure_text(b.value) for b in binds) and v not in self.params():
                out.add(v)
        self._x7_msg_locals = out
        return out

    def x7_attr_store_ok(self, n, t):
        if not isinstance(t, ast.Attribute) or not isinstance(t.value, ast.Name):
            return False
        if t.attr == "__cause__":
            return True
        return t.value.id in getattr(self, "x7_ins", set())

    def x7_descriptor_table(self):
        """the descriptor objects in the class dict of the classmethod's class, as Lean rows `(name, object)`"""
        mod, cname, dname = X7_DESCRIPTOR_CLASS
        c = self.x7_owner
        if c is None or c.__module__ != mod or c.__name__ != cname:
            raise Unsupported("descriptor access on a class the translator has no table for")
        D = getattr(importlib.import_module(mod), dname)
        fields = ["name", "raw_name", "added"]
        rows = []
        for k, v in vars(c).items():
            if isinstance(v, D):
                if sorted(vars(v)) != sorted(fields):
                    raise Unsupported(f"descriptor {k} has other attributes than {fields}")
                obj = f'(PyVal.obj "{dname}" [' + ", ".join(f'("{f}", {lconst(getattr(v, f))})' for f in fields) + "])"
                rows.append(f"({lstr(k)}, {obj})")
        tname = f"{cname}.__descriptors"
        if tname not in self.ctx.dispatchers:
            self.ctx.dispatchers[tname] = (f"def {tname} : List (Py.Str × PyVal) :=\n  [" + ",\n   ".join(rows) + "]")
            self.ctx.dispatcher_deps[tname] = set()
        self.ctx.deps.setdefault(self.ctx.current, set()).add(tname)
        return tname, D

    def x7_getattr_dispatcher(self):
        """generated definition: `getattr(ins, key)` on an instance of the descriptor class — instance dict first (the
        descriptors define `__get__` only), then the descriptor of that name through the translated `__get__`; an
        `InvalidMetadata` it raises (a class name, raised by `raise self._invalid_metadata(…)` — checked here) is re-raised
        as the object the translated `_invalid_metadata` builds.  Hands back `(value, instance afterwards)`."""
        table, D = self.x7_descriptor_table()
        cname = self.x7_owner.__name__
        name = f"{cname}.__getattr__dyn"
        if name not in self.ctx.dispatchers:
            get = inspect.getattr_static(D, "__get__", None)
            helper = inspect.getattr_static(D, "_invalid_metadata", None)
            if not inspect.isfunction(get) or not inspect.isfunction(helper) or hasattr(D, "__set__") or hasattr(D, "__delete__"):
                raise Unsupported("the descriptor class is not a non-data descriptor with a Python-level __get__")
            hret = ast.parse(textwrap.dedent(inspect.getsource(helper))).body[0].returns
            ecls = helper.__globals__.get(hret.id) if isinstance(hret, ast.Name) else None
            if not (inspect.isclass(ecls) and issubclass(ecls, BaseException)):
                raise Unsupported("_invalid_metadata is not annotated with an exception class")
            # every `raise` in the methods of the descriptor class must be `raise self._invalid_metadata(...)`, and nothing
            # else may construct that exception class there
            for mn, m in vars(D).items():
                if not inspect.isfunction(m):
                    continue
                mnode = ast.parse(textwrap.dedent(inspect.getsource(m))).body[0]
                me = mnode.args.args[0].arg if mnode.args.args else None
                for r in ast.walk(mnode):
                    if isinstance(r, ast.Raise) and r.exc is not None:
                        x = r.exc
                        ok = isinstance(x, ast.Call) and isinstance(x.func, ast.Attribute) and x.func.attr == "_invalid_metadata" \
                            and isinstance(x.func.value, ast.Name) and x.func.value.id == me
                        if not ok:
                            raise Unsupported(f"{D.__name__}.{mn} raises other than through self._invalid_metadata")
                    if isinstance(r, ast.Call) and isinstance(r.func, ast.Name) and r.func.id == ecls.__name__ and mn != "_invalid_metadata":
                        raise Unsupported(f"{D.__name__}.{mn} constructs {ecls.__name__} itself")
            gfn = self.ctx.require(get)
            hfn = self.ctx.require(helper)
            ext = " ext" if gfn in self.ctx.uses_ext else ""
            self.ctx.imports.add(X7_IMPORT)
            body = (f"def {name} (ext : PyRt.Oracle) (ins key : PyVal) : PyX7.MX PyVal := do\n"
                    f"  let __hit ← PyX7.inst_lookup ins key\n"
                    f"  if !(PyRt.isNone __hit) then\n"
                    f"    return (PyVal.tuple [(← PyRt.getitem __hit (PyVal.int 0)), ins])\n"
                    f"  let __d ← PyX7.class_dict_get {table} key\n"
                    f'  if !(PyRt.isinstance __d ["{D.__name__}"]) then\n'
                    f'    throw (PyX7.Exc.cls "PyRtUnsupported")\n'
                    f"  match {gfn}{ext} __d ins (PyVal.obj \"type\" []) with\n"
                    f"  | .ok r => return r\n"
                    f'  | .error c => if c == "{ecls.__name__}" then PyX7.raise_obj (← {hfn} __d (PyVal.str []) PyVal.none) else throw (PyX7.Exc.cls c)')
            self.ctx.dispatchers[name] = body
            self.ctx.dispatcher_deps[name] = {gfn, hfn, table}
            self.ctx.uses_ext.add(name)
        self.ctx.deps.setdefault(self.ctx.current, set()).add(name)
        self.use_ext()
        return name

    def x7_descr_read(self, target, key_term, ind):
        """`target = getattr(ins, key)` (target None: the value is dropped); rebinds the instance local"""
        ins = next(iter(self.x7_ins))
        d = self.x7_getattr_dispatcher()
        t = self.fresh("ga")
        self.emit(ind, f"let {t} ← {d} ext {lname(ins)} {key_term}")
        if target is not None:
            self.assign_name(target, False, f"PyRt.getitem {t} (PyVal.int 0)", ind)
        self.emit(ind, f"{lname(ins)} ← PyRt.getitem {t} (PyVal.int 1)")

    def x7_is_descr_attr(self, e):
        if isinstance(e, ast.Attribute) and isinstance(e.value, ast.Name) and e.value.id in getattr(self, "x7_ins", set()) \
                and isinstance(e.ctx, ast.Load) and self.x7_owner is not None:
            mod, cname, dname = X7_DESCRIPTOR_CLASS
            D = getattr(importlib.import_module(mod), dname, None)
            return D is not None and isinstance(inspect.getattr_static(self.x7_owner, e.attr, None), D)
        return False

    def x7_stmt(self, st, ind):
        # `super().__init__(message)` in the `__init__` of an exception class: the message is not kept
        if isinstance(st, ast.Expr) and isinstance(st.value, ast.Call) and isinstance(st.value.func, ast.Attribute) \
                and st.value.func.attr == "__init__" and isinstance(st.value.func.value, ast.Call) \
                and isinstance(st.value.func.value.func, ast.Name) and st.value.func.value.func.id == "super" \
                and self.owner is not None and issubclass(self.owner, BaseException) and self.node.name == "__init__":
            if not all(isinstance(a, ast.Name) for a in st.value.args) or st.value.keywords:
                raise Unsupported("super().__init__ with other than plain names")
            self.emit(ind, "pure ()")
            return True
        if isinstance(st, ast.Assign) and len(st.targets) == 1 and isinstance(st.targets[0], ast.Attribute) \
                and isinstance(st.targets[0].value, ast.Name):
            t = st.targets[0]
            if t.attr == "__cause__":                     # not kept
                if not isinstance(st.value, (ast.Name, ast.Constant)):
                    raise Unsupported("__cause__ bound to other than a name")
                self.emit(ind, "pure ()")
                return True
            if t.value.id in getattr(self, "x7_ins", set()):
                me = lname(t.value.id)
                self.emit(ind, f'{me} ← PyRt.setattr {me} "{t.attr}" {self.val(st.value)}')
                return True
        if not getattr(self, "x7_mx", False) and getattr(self, "x7_cls", None) is None:
            return False
        # a message text that only ever reaches the message parameter of exception constructors
        if isinstance(st, ast.Assign) and len(st.targets) == 1 and isinstance(st.targets[0], ast.Name) \
                and st.targets[0].id in self.x7_message_locals():
            self.emit(ind, "pure ()")
            return True
        # descriptor reads
        if isinstance(st, ast.Assign) and len(st.targets) == 1 and isinstance(st.targets[0], ast.Name) and self.x7_is_descr_attr(st.value):
            self.x7_descr_read(st.targets[0].id, f"(PyVal.str {lstr(st.value.attr)})", ind)
            return True
        if isinstance(st, ast.Expr) and isinstance(st.value, ast.Call) and isinstance(st.value.func, ast.Name) \
                and st.value.func.id == "getattr" and len(st.value.args) == 2 and not st.value.keywords \
                and isinstance(st.value.args[0], ast.Name) and st.value.args[0].id in self.x7_ins:
            self.x7_descr_read(None, self.val(st.value.args[1]), ind)
            return True
        # `s -= {constants}` on a set of plain values
        if isinstance(st, ast.AugAssign) and isinstance(st.op, ast.Sub) and isinstance(st.target, ast.Name) and isinstance(st.value, ast.Set) \
                and all(isinstance(x, ast.Constant) and isinstance(x.value, str) for x in st.value.elts):
            self.ctx.imports.add(X7_IMPORT)
            self.ctx.imports.add("PkgModel.PyRx")
            members = ", ".join(lconst(x.value) for x in st.value.elts)
            n = lname(st.target.id)
            self.emit(ind, f'{n} ← PyX7.set_diff_plain {n} (PyRx.mkSet "set" [{members}])')
            return True
        if not self.x7_mx:
            return False
        if isinstance(st, ast.Raise):
            if st.exc is None:
                raise Unsupported("bare raise")
            self.emit(ind, f"PyX7.raise_obj {self.val(st.exc)}")
            return True
        if isinstance(st, ast.Assert):
            self.emit(ind, f'if !({self.cond(st.test)}) then throw (PyX7.Exc.cls "AssertionError")')
            return True
        if isinstance(st, ast.Try):
            if st.finalbody:
                raise Unsupported("try/finally")
            self.x7_try_check(st)
            flag = None
            if st.orelse:
                flag = self.fresh("else")
                self.emit(ind, f"let mut {flag} := false")
            self.emit(ind, "try")
            saved = set(self.declared)
            self.block(st.body, ind + 1)
            if flag is not None and _falls_through(st.body):
                self.emit(ind + 1, f"{flag} := true")
            self.declared = set(saved)
            e = self.fresh("e")
            self.emit(ind, f"catch {e} =>")
            first = True
            for h in st.handlers:
                classes = self.handler_classes(h.type)
                test = " || ".join(f'PyX7.catchesX "{c}" {e}' for c in classes)
                self.emit(ind + 1, ("if " if first else "else if ") + test + " then")
                first = False
                if h.name is not None:
                    self.locals.add(h.name)
                    if h.name in self.declared:
                        self.emit(ind + 2, f"{lname(h.name)} := PyX7.excValue {e}")
                    else:
                        self.emit(ind + 2, f"let {lname(h.name)} := PyX7.excValue {e}")
                    self._x7_handler_names = getattr(self, "_x7_handler_names", set()) | {h.name}
                self.block(h.body, ind + 2)
                self.declared = set(saved)
            self.emit(ind + 1, f"else throw {e}")
            if flag is not None:
                self.emit(ind, f"if {flag} then")
                self.block(st.orelse, ind + 1)
                self.declared = set(saved) | (self.declared & set(self.hoisted))
            return True
        return False

    def x7_try_check(self, st):
        """Lean's `try … catch` hands the handlers the locals of the `try` start; Python keeps what the body did before it
        raised.  Accepted: a body in which every statement that can raise a *caught* class comes after nothing that changed a
        local read on a handler path.  Concretely: names changed before the last statement must either not be read on a
        handler path, or be (a) the instance local rebound by a descriptor read (the read leaves the instance alone when it
        raises) followed only by `<constant list>.index(…)` bindings (`ValueError`, which no handler may catch then), or
        (b) an owned list appended to directly before a `continue`."""
        caught = {c for h in st.handlers for c in self.handler_classes(h.type)}
        body = list(st.body)

        def loads(nodes):
            return {x.id for b in nodes for x in ast.walk(b) if isinstance(x, ast.Name) and isinstance(x.ctx, ast.Load)}
        seen = set()
        for h in st.handlers:
            seen |= loads(h.body)
            if _falls_through(h.body):
                seen |= loads([n for n in _walk_scope(self.node.body) if getattr(n, "lineno", 0) > st.end_lineno and isinstance(n, ast.stmt)])
        # statements of the body, flattened in order, with what they change
        flat = [n for n in _walk_scope(body) if isinstance(n, ast.stmt)]
        may_raise_caught_after = set()
        changed_before_last = set()
        last = flat[-1] if flat else None
        for n in flat:
            if n is last:
                continue
            if isinstance(n, ast.Assign) and len(n.targets) == 1 and isinstance(n.targets[0], ast.Name) and self.x7_is_descr_attr(n.value):
                rest = flat[flat.index(n) + 1:]
                if all(isinstance(r, ast.Assign) and isinstance(r.value, ast.Call) and isinstance(r.value.func, ast.Attribute)
                       and r.value.func.attr == "index" and isinstance(r.value.func.value, ast.Name)
                       and isinstance(self.globals.get(r.value.func.value.id), list) for r in rest) \
                        and not ({"ValueError", "Exception", "BaseException"} & caught):
                    continue
                raise Unsupported("a descriptor read inside a try body is followed by statements that may raise a caught class")
            if isinstance(n, (ast.If, ast.Continue, ast.Break, ast.Pass)):
                continue
            if isinstance(n, ast.Expr) and isinstance(n.value, ast.Call) and isinstance(n.value.func, ast.Attribute) \
                    and n.value.func.attr == "append" and isinstance(n.value.func.value, ast.Name):
                nxt = flat[flat.index(n) + 1] if flat.index(n) + 1 < len(flat) else None
                if isinstance(nxt, (ast.Continue, ast.Return)):
                    continue                                       # leaves the try body at once
                changed_before_last.add(n.value.func.value.id)
                continue
            changed_before_last |= set(_targets_of(n))
        # locals assigned before the last statement and read on a handler path: only harmless when the statements after the
        # assignment cannot raise a caught class — refuse unless they are never read there
        bad = (changed_before_last & seen) - self.x7_message_locals()
        # a value bound in the body and only read later in the *same* body is fine even if a handler path mentions the name
        # after rebinding it itself; keep the simple rule
        rebound_in_handlers = {x for h in st.handlers for n in _walk_scope(h.body) for x in _targets_of(n)}
        bad -= rebound_in_handlers
        bad -= {h.name for h in st.handlers if h.name}             # the handler's own binding shadows the name
        if bad:
            raise Unsupported("a local changed inside a try block is read on the path through its handler: " + ", ".join(sorted(bad)))
    # ================================================================================================ x7 end

    # ================================================================================================ x9
    # (a) methods of the tokenizer: `self` is the state of `PyTok.TM`; a rewriting pass (`_X9TokRewrite`) turns the accesses to
    #     its fields into pseudo-calls `__x9_*` (translated by `x9_call`); the generator of `enclosing_tokens` is cut at its `yield`
    # (b) `parse_email`: see `_X9MailRewrite`
    def x9_prepare(self):
        self.x9_tok = _x9_is_state_method(self.pyfunc)
        self.x9_mail = (self.pyfunc.__module__, self.pyfunc.__qualname__) in X9_MAIL_FUNCTIONS
        self.x9_io = self.ctx.x9_io.get(self.lean_name)          # name of the message parameter that is the state of `PyX9.SM`
        if self.x9_tok:
            self.ctx.imports.add(X9_IMPORT)
            part = self.lean_name.rsplit("__", 1)[-1] if "__" in self.lean_name else None
            if part == "with":
                return self.x9_with_text()
            if part in ("enter", "exit"):
                self.node, self.x9_arity = _x9_split_generator(self.node, part)
            self.node = _X9TokRewrite(self).run(self.node)
        if self.x9_mail or self.x9_io:
            self.ctx.imports.add(X9_IMPORT)
            self.x9_mail_prepare()
        return None

    def x9_with_text(self):
        """`with self.enclosing_tokens(o, c, around=a): self.consume(body)` from the two translated halves (for `src.call`)"""
        node, _ = _x9_split_generator(self.node, "exit")
        live = [a.arg for a in node.args.args[1:]][:len(node.args.args) - len(self.node.args.args)]
        if len(live) != 1:
            raise Unsupported("enclosing_tokens keeps other than one local across its yield")
        self.ctx.state_fns.add(self.lean_name)
        self.ctx.imports.add(STATE_IMPORT)
        self.x9_arity = len(self.params()) + 1
        base = self.lean_name.rsplit("__", 1)[0]
        for part in ("enter", "exit"):
            self.ctx.deps.setdefault(self.ctx.current, set()).add(f"{base}__{part}")
        ps = " ".join(lname(p) for p in self.params()[1:])
        return (f"def {self.lean_name} ({ps} body : PyVal) : {STATE_MONAD} PyVal := do\n"
                f"  let __w ← {base}__enter {ps}\n"
                f"  let _ ← PyTok.consume body\n"
                f"  {base}__exit __w {ps}")

    def x9_call(self, e, kws):
        f = e.func
        if isinstance(f, ast.Name) and f.id.startswith("__x9_"):
            self.ctx.imports.add(X9_IMPORT)
            a = e.args
            simple = {"__x9_set_next_token": "PyX9.set_next_token", "__x9_advance": "PyX9.advance", "__x9_has_rule": "PyX9.has_rule",
                      "__x9_rule_match": "PyX9.rule_match", "__x9_match_group0": "PyX9.match_group0",
                      "__x9_msg_keys": "PyX9.msg_keys", "__x9_msg_get_all": "PyX9.msg_get_all", "__x9_decode_header": "PyX9.decode_header",
                      "__x9_make_header_str": "PyX9.make_header_str", "__x9_msg_get_payload": "PyX7.msg_get_payload",
                      "__x9_setdefault_append": "PyX9.dict_setdefault_append", "__x9_setdefault_extend": "PyX9.dict_setdefault_extend",
                      "__x9_item_append": "PyX9.dict_item_append"}
            if f.id in simple:
                return False, simple[f.id] + "".join(" " + self.val(x) for x in a)
            if f.id == "__x9_parse_message":         # the standard-library parser: an oracle call under the source text of the call
                return False, f'PyRt.ext_call {self.use_ext()} "{a[0].value}" [{self.val(a[1])}]'
            if f.id == "__x9_str_set":
                self.ctx.imports.add("PkgModel.PyRx")
                return False, f'PyRx.set_of "{a[0].value}" PyRx.eq_plain {self.val(a[1])}'
            if f.id == "__x9_dict_pop":
                return False, f"PyRt.dict_pop {self.val(a[0])} {self.val(a[1])}"
            raise Unsupported(f"pseudo-call {f.id}")
        # a dataclass of the tokenizer module built from all its fields (positional and keyword arguments, in field order)
        if getattr(self, "x9_tok", False) and isinstance(f, ast.Name) and f.id not in self.locals:
            import dataclasses
            v = self.globals.get(f.id)
            if inspect.isclass(v) and dataclasses.is_dataclass(v) and v.__module__ == STATE_CLASS[0]:
                names = [fl.name for fl in dataclasses.fields(v)]
                given = names[:len(e.args)] + list(kws)
                if given != names or any(isinstance(x, ast.Starred) for x in e.args):
                    raise Unsupported(f"{v.__name__} built other than from all its fields in order")
                vals = list(e.args) + [kws[k] for k in list(kws)]
                fields = ", ".join(f'("{k}", {self.val(x)})' for k, x in zip(names, vals))
                return True, f'(PyVal.obj "{v.__name__}" [{fields}])'
        return None

    def x9_stmt(self, st, ind):
        if getattr(self, "x9_tok", False):
            # `raise self.m(…)` for a method of the tokenizer: the call first (it raises); a value that came back is not an exception
            if isinstance(st, ast.Raise) and isinstance(st.exc, ast.Call) and isinstance(st.exc.func, ast.Attribute) \
                    and isinstance(st.exc.func.value, ast.Name) and st.exc.func.value.id == self.state_param and st.cause is None:
                p, c = self.expr(st.exc)
                self.emit(ind, f"let _ ← {c}")
                self.emit(ind, "throw PyRt.typeError")
                return True
            # `raise ParserSyntaxError(message, source=…, span=…)`: the class only; the arguments are evaluated
            if isinstance(st, ast.Raise) and isinstance(st.exc, ast.Call) and st.cause is None:
                cls = self.exc_class(st.exc)
                for x in list(st.exc.args) + [k.value for k in st.exc.keywords]:
                    p, c = self.expr(x)
                    if not p:
                        self.emit(ind, f"let _ ← {c}")
                self.emit(ind, f'throw "{cls}"')
                return True
            if isinstance(st, ast.Expr) and isinstance(st.value, ast.Call) and isinstance(st.value.func, ast.Name) \
                    and st.value.func.id in ("__x9_set_next_token", "__x9_advance"):
                p, c = self.expr(st.value)
                self.emit(ind, f"let _ ← {c}")
                return True
        return self.x9_mail_stmt(st, ind)

    # ---- x9 (b): `parse_email`
    def x9_list_alias_ok(self, n, p, body):
        """further uses of an owned list `x` that cannot make an in-place update visible elsewhere (only in `X9_MAIL_FUNCTIONS`):
        an argument of an `__x9_*` primitive (they read); an argument of a library function annotated `-> dict[str, str]` /
        `-> list[str]` (the result holds strings only); `d[k] = x` inside the loop body whose top level binds `x = []` afresh on
        every iteration, when every in-place update of `x` comes textually before every such store (and no loop inside that body
        contains both) — the stored list is never updated again"""
        if not getattr(self, "x9_mail", False):
            return False
        if isinstance(p, ast.Call) and isinstance(p.func, ast.Name) and p.func.id.startswith("__x9_") and n in p.args:
            return True
        if isinstance(p, ast.Call) and isinstance(p.func, ast.Name) and n in p.args and p.func.id not in self.locals:
            f = self.globals.get(p.func.id)
            if inspect.isfunction(f) and (f.__module__ or "").startswith("packaging"):
                try:
                    r = ast.parse(textwrap.dedent(inspect.getsource(f))).body[0].returns
                except (OSError, SyntaxError):
                    r = None
                if r is not None and ast.unparse(r) in ("dict[str, str]", "list[str]"):
                    return True
        if isinstance(p, ast.Assign) and p.value is n and len(p.targets) == 1 and isinstance(p.targets[0], ast.Subscript) \
                and isinstance(p.targets[0].value, ast.Name):
            x = n.id
            loops = [l for l in _walk_scope(body) if isinstance(l, ast.For) and any(
                isinstance(st, ast.Assign) and len(st.targets) == 1 and isinstance(st.targets[0], ast.Name) and st.targets[0].id == x
                and isinstance(st.value, ast.List) and not st.value.elts for st in l.body)]
            binds = [b for b in _walk_scope(body) if x in _targets_of(b)]
            if len(loops) != 1 or len(binds) != 1:
                return False
            inner = list(_walk_scope(loops[0].body))
            muts = [m for m in inner if isinstance(m, ast.Expr) and isinstance(m.value, ast.Call) and isinstance(m.value.func, ast.Attribute)
                    and isinstance(m.value.func.value, ast.Name) and m.value.func.value.id == x]
            stores = [a for a in inner if isinstance(a, ast.Assign) and isinstance(a.value, ast.Name) and a.value.id == x
                      and isinstance(a.targets[0], ast.Subscript)]
            all_muts = [m for m in _walk_scope(body) if isinstance(m, ast.Expr) and isinstance(m.value, ast.Call) and isinstance(m.value.func, ast.Attribute)
                        and isinstance(m.value.func.value, ast.Name) and m.value.func.value.id == x]
            if p not in stores or len(all_muts) != len(muts) or not muts:
                return False
            if max(m.end_lineno for m in muts) >= min(a.lineno for a in stores):
                return False
            for l in inner:                               # no loop inside the body holds both an update and a store
                if isinstance(l, (ast.For, ast.While)):
                    sub = list(_walk_scope(l.body))
                    if any(m in sub for m in muts) and any(a in sub for a in stores):
                        return False
            # nothing after the loop reads x
            after = [m for m in _walk_scope(body, into_exprs=True) if isinstance(m, ast.Name) and m.id == x and m.lineno > loops[0].end_lineno]
            return not after
        return False

    def x9_alias_ok(self, n, p_, parents):
        """uses of an owned dict that create no alias that is observed: the first argument of an `__x9_*` functional update, and
        (through `cast` and a tuple display) the value of a `return` — nothing runs after it"""
        if not getattr(self, "x9_mail", False):
            return False
        if isinstance(p_, ast.Call) and isinstance(p_.func, ast.Name) and p_.func.id.startswith("__x9_") and p_.args and p_.args[0] is n:
            return True
        q = p_
        if isinstance(q, ast.Call) and isinstance(q.func, ast.Name) and q.func.id == "cast" and len(q.args) == 2 and q.args[1] is n:
            q = parents.get(q)
        elif q is not None and not isinstance(q, (ast.Tuple, ast.Return)):
            return False
        if isinstance(q, ast.Tuple):
            q = parents.get(q)
        return isinstance(q, ast.Return)

    def x3_is_dict_ann_name(self, name):
        """a local that is only bound by `name: dict[…] = …` / `name = {…}` (usable before the analyses have run)"""
        binds = [n for n in _walk_scope(self.node.body) if name in _targets_of(n)]
        return bool(binds) and all((isinstance(n, ast.AnnAssign) and self.x3_is_dict_ann(n.annotation))
                                   or (isinstance(n, ast.Assign) and isinstance(n.value, ast.Dict)) for n in binds)

    def x9_mail_prepare(self):
        if self.x9_io:
            # the message parameter is the state: it is no longer a parameter, reads are `get`, `del msg[k]` is a `set`
            self.node.args.args = [a for a in self.node.args.args if a.arg != self.x9_io]
            self.ctx.x9_sm.add(self.lean_name)
            io = self.x9_io

            class SetMsg(ast.NodeTransformer):               # x7 reads `del msg[k]` as `msg = __x7_msg_del(msg, k)`
                def visit_Assign(self, node):
                    if len(node.targets) == 1 and isinstance(node.targets[0], ast.Name) and node.targets[0].id == io:
                        return ast.copy_location(ast.Expr(value=ast.Call(func=ast.Name(id="__x9_set_msg", ctx=ast.Load()),
                                                                         args=[node.value], keywords=[])), node)
                    return node
            self.node = SetMsg().visit(self.node)
            ast.fix_missing_locations(self.node)
            if any(isinstance(n, ast.Name) and n.id == io and isinstance(n.ctx, ast.Store) for n in ast.walk(self.node)):
                raise Unsupported("the message parameter is rebound")
            return
        self.x9_msgs = set()
        self.node = _X9MailRewrite(self).run(self.node)

    def x9_io_callee(self, call):
        """`f(…, m, …)` where library function f changes the message it gets as that parameter and m is a message local:
        -> (lean name of the `__io` translation, the local, the other argument expressions), else None"""
        if not (isinstance(call, ast.Call) and isinstance(call.func, ast.Name) and call.func.id not in self.locals and not call.keywords):
            return None
        f = self.globals.get(call.func.id)
        if not inspect.isfunction(f) or not (f.__module__ or "").startswith("packaging"):
            return None
        node = ast.parse(textwrap.dedent(inspect.getsource(f))).body[0]
        ps = [a.arg for a in node.args.args if isinstance(a.annotation, ast.Attribute) and _dotted(a.annotation) == X7_MESSAGE_ANN]
        changed = [p_ for p_ in ps if any(isinstance(n, ast.Delete) and any(isinstance(t, ast.Subscript) and isinstance(t.value, ast.Name)
                                                                             and t.value.id == p_ for t in n.targets) for n in ast.walk(node))]
        if len(changed) != 1 or node.args.kwonlyargs or node.args.vararg or len(call.args) != len(node.args.args):
            return None
        i = [a.arg for a in node.args.args].index(changed[0])
        m = call.args[i]
        if not (isinstance(m, ast.Name) and m.id in getattr(self, "x9_msgs", ())):
            return None
        name = f.__qualname__ + "__io"
        if name not in self.ctx.x9_io:
            import types
            g = types.FunctionType(f.__code__, f.__globals__, f.__name__, f.__defaults__, f.__closure__)   # a second identity
            g.__qualname__, g.__module__ = f.__qualname__, f.__module__
            self.ctx.x9_io[name] = changed[0]
            self.ctx.x9_io_idx[name] = i
            self.ctx.x9_io_objs[name] = g
            self.ctx.objs[id(g)] = name
            self.ctx.funcs.append((name, g, None))
        self.ctx.deps.setdefault(self.ctx.current, set()).add(name)
        return name, m.id, [a for k, a in enumerate(call.args) if k != i]

    def x9_mail_stmt(self, st, ind):
        if self.x9_io:
            # `del msg[k]`: the state changes
            if isinstance(st, ast.Expr) and isinstance(st.value, ast.Call) and isinstance(st.value.func, ast.Name) \
                    and st.value.func.id == "__x9_set_msg":
                self.emit(ind, f"set {self.val(st.value.args[0])}")
                return True
            return False
        if not getattr(self, "x9_mail", False):
            return False
        # an expression evaluated for its exceptions: `b.decode("utf8", "strict")`
        if isinstance(st, ast.Expr) and isinstance(st.value, ast.Call) and isinstance(st.value.func, ast.Attribute) \
                and st.value.func.attr == "decode":
            p, c = self.expr(st.value)
            self.emit(ind, f"let _ ← {c}")
            return True
        # functional updates of the owned dicts of lists
        if isinstance(st, ast.Expr) and isinstance(st.value, ast.Call) and isinstance(st.value.func, ast.Name) \
                and st.value.func.id in ("__x9_setdefault_append", "__x9_setdefault_extend", "__x9_item_append"):
            d = st.value.args[0]
            if not (isinstance(d, ast.Name) and d.id in getattr(self, "owned2", ()) and self.x3_is_dict_name(d.id)):
                raise Unsupported("in-place update of a value inside a dict that is not an owned local")
            p, c = self.expr(st.value)
            self.emit(ind, f"{lname(d.id)} ← {c}")
            return True
        if isinstance(st, ast.Assign) and len(st.targets) == 1 and isinstance(st.targets[0], ast.Name) and isinstance(st.value, ast.Call) \
                and isinstance(st.value.func, ast.Name) and st.value.func.id == "__x9_dict_pop":
            d = st.value.args[0]
            if not (isinstance(d, ast.Name) and d.id in getattr(self, "owned2", ()) and self.x3_is_dict_name(d.id)):
                raise Unsupported("pop on a dict that is not an owned local")
            t = self.fresh("pop")
            self.emit(ind, f"let {t} ← PyRt.dict_pop {lname(d.id)} {self.val(st.value.args[1])}")
            self.emit(ind, f"{lname(d.id)} := {t}.2")
            self.assign_name(st.targets[0].id, True, f"{t}.1", ind)
            return True
        # `try: x = f(msg, …)  except C: …  else: …` where f changes the message: no Lean `try` (its handler would see the locals —
        # and the message — of the `try` start); the call is run on the message as state and its outcome is matched
        if isinstance(st, ast.Try) and not st.finalbody and len(st.body) == 1 and isinstance(st.body[0], ast.Assign) \
                and len(st.body[0].targets) == 1 and isinstance(st.body[0].targets[0], ast.Name):
            io = self.x9_io_callee(st.body[0].value)
            if io is not None:
                name, msg, rest = io
                target = st.body[0].targets[0].id
                r, e, v = self.fresh("r"), self.fresh("e"), self.fresh("v")
                args = "".join(" " + self.val(a) for a in rest)
                self.emit(ind, f"let {r} := PyX9.runSM ({name}{args}) {lname(msg)}")
                self.emit(ind, f"{lname(msg)} := {r}.2")
                self.emit(ind, f"match {r}.1 with")
                self.emit(ind, f"| .ok {v} =>")
                saved = set(self.declared)
                self.assign_name(target, True, v, ind + 1)
                self.block(st.orelse, ind + 1)
                self.declared = set(saved) | (self.declared & set(self.hoisted))
                self.emit(ind, f"| .error {e} =>")
                first = True
                for h in st.handlers:
                    if h.name is not None:
                        raise Unsupported("the caught exception object is used")
                    classes = self.handler_classes(h.type)
                    test = " || ".join(f'PyRt.catches "{c}" {e}' for c in classes)
                    self.emit(ind + 1, ("if " if first else "else if ") + test + " then")
                    first = False
                    self.block(h.body, ind + 2)
                    self.declared = set(saved) | (self.declared & set(self.hoisted))
                self.emit(ind + 1, f"else throw {e}")
                return True
        return False
    # ================================================================================================ x9 end


# ---------------------------------------------------------------------------------------------- x9: tokenizer methods
def _x9_is_state_method(f):
    qn = (getattr(f, "__qualname__", "") or "").split(".")
    return getattr(f, "__module__", None) == STATE_CLASS[0] and len(qn) == 2 and qn[0] == STATE_CLASS[1]


def _x9_split_generator(node, part):
    """the function behind `@contextlib.contextmanager`, cut at its one top-level `yield`: the `enter` half returns the locals that
    are live across the `yield` (one local: itself; otherwise a tuple), the `exit` half takes them as its first parameters.
    -> (function node, arity including `self`)"""
    import copy
    node = copy.deepcopy(node)
    idx = [i for i, st in enumerate(node.body) if isinstance(st, ast.Expr) and isinstance(st.value, ast.Yield) and st.value.value is None]
    ys = [n for n in ast.walk(node) if isinstance(n, (ast.Yield, ast.YieldFrom))]
    if len(idx) != 1 or len(ys) != 1:
        raise Unsupported("a context manager with other than one top-level bare `yield`")
    before, after = node.body[:idx[0]], node.body[idx[0] + 1:]
    if any(isinstance(n, ast.Return) for st in before for n in ast.walk(st)):
        raise Unsupported("return before the yield of a context manager")
    params = {a.arg for a in node.args.args + node.args.kwonlyargs}
    assigned = []
    for st in before:
        for n in ast.walk(st):
            if isinstance(n, ast.Name) and isinstance(n.ctx, ast.Store) and n.id not in assigned and n.id not in params:
                assigned.append(n.id)
    used = {n.id for st in after for n in ast.walk(st) if isinstance(n, ast.Name) and isinstance(n.ctx, ast.Load)}
    live = [v for v in assigned if v in used]
    if any(isinstance(n, ast.Name) and isinstance(n.ctx, ast.Store) and n.id in params for st in before for n in ast.walk(st)):
        raise Unsupported("a parameter rebound before the yield of a context manager")
    node.decorator_list = []
    node.returns = None
    nself = len(node.args.args) + len(node.args.kwonlyargs)
    if part == "enter":
        ret = ast.Name(id=live[0], ctx=ast.Load()) if len(live) == 1 else ast.Tuple(elts=[ast.Name(id=v, ctx=ast.Load()) for v in live], ctx=ast.Load())
        node.body = before + [ast.Return(value=ret)]
        arity = nself
    else:
        node.args.args = [node.args.args[0]] + [ast.arg(arg=v, annotation=None) for v in live] + node.args.args[1:]
        node.body = after or [ast.Pass()]
        arity = nself + len(live)
    ast.fix_missing_locations(node)
    return node, arity


class _X9TokRewrite(ast.NodeTransformer):
    """x9: the fields of the tokenizer inside its own methods.  `self.next_token = e` -> `__x9_set_next_token(e)`,
    `self.position += e` -> `__x9_advance(e)`, `k in self.rules` -> `__x9_has_rule(k)`,
    `self.rules[k].match(self.source, self.position)` (also through a local bound once to `self.rules[k]` and used once, as the
    receiver of that call, in the next statement) -> `__x9_rule_match(k)`, `m.group(0)` on a local bound once by such a match ->
    `__x9_match_group0(m)`.  Any other use of `self.rules` is left alone (and refused)."""

    def __init__(self, fn):
        self.fn = fn
        self.me = fn.node.args.args[0].arg

    def is_field(self, e, attr):
        return isinstance(e, ast.Attribute) and e.attr == attr and isinstance(e.value, ast.Name) and e.value.id == self.me

    def call(self, name, *args):
        return ast.Call(func=ast.Name(id=name, ctx=ast.Load()), args=list(args), keywords=[])

    def run(self, node):
        self.inline_rule_locals(node)
        node = self.visit(node)
        # locals bound once, by a rule match
        self.match_locals = set()
        for n in ast.walk(node):
            if isinstance(n, ast.Assign) and len(n.targets) == 1 and isinstance(n.targets[0], ast.Name) and isinstance(n.value, ast.Call) \
                    and isinstance(n.value.func, ast.Name) and n.value.func.id == "__x9_rule_match":
                v = n.targets[0].id
                if sum(1 for m in ast.walk(node) if isinstance(m, ast.Name) and m.id == v and isinstance(m.ctx, ast.Store)) == 1:
                    self.match_locals.add(v)
        me = self

        class G(ast.NodeTransformer):
            def visit_Call(self, c):
                self.generic_visit(c)
                if isinstance(c.func, ast.Attribute) and c.func.attr == "group" and isinstance(c.func.value, ast.Name) \
                        and c.func.value.id in me.match_locals and len(c.args) == 1 and not c.keywords \
                        and isinstance(c.args[0], ast.Constant) and c.args[0].value == 0 and c.args[0].value is not False:
                    return ast.copy_location(me.call("__x9_match_group0", c.func.value), c)
                return c

            def visit_Subscript(self, c):
                self.generic_visit(c)
                if isinstance(c.ctx, ast.Load) and isinstance(c.value, ast.Name) and c.value.id in me.match_locals \
                        and isinstance(c.slice, ast.Constant) and c.slice.value == 0 and c.slice.value is not False:
                    return ast.copy_location(me.call("__x9_match_group0", c.value), c)
                return c
        node = G().visit(node)
        ast.fix_missing_locations(node)
        return node

    def inline_rule_locals(self, node):
        """`x = self.rules[k]` directly followed by a statement whose only use of `x` is `x.match(self.source, self.position)`,
        `x` bound once and used once: the look-up moves into the call (nothing is evaluated in between)"""
        for parent in ast.walk(node):
            for field in ("body", "orelse", "finalbody"):
                body = getattr(parent, field, None)
                if not isinstance(body, list):
                    continue
                i = 0
                while i + 1 < len(body):
                    st = body[i]
                    if isinstance(st, ast.Assign) and len(st.targets) == 1 and isinstance(st.targets[0], ast.Name) \
                            and isinstance(st.value, ast.Subscript) and self.is_field(st.value.value, "rules"):
                        x = st.targets[0].id
                        stores = [m for m in ast.walk(node) if isinstance(m, ast.Name) and m.id == x and isinstance(m.ctx, ast.Store)]
                        loads = [m for m in ast.walk(node) if isinstance(m, ast.Name) and m.id == x and isinstance(m.ctx, ast.Load)]
                        nxt = body[i + 1]
                        calls = [c for c in ast.walk(nxt) if isinstance(c, ast.Call) and isinstance(c.func, ast.Attribute)
                                 and c.func.attr == "match" and isinstance(c.func.value, ast.Name) and c.func.value.id == x]
                        first = nxt.value if isinstance(nxt, (ast.Assign, ast.Expr, ast.Return)) else None
                        if len(stores) == 1 and len(loads) == 1 and len(calls) == 1 and first is calls[0]:
                            calls[0].func.value = st.value
                            del body[i]
                            continue
                    i += 1

    def visit_Assign(self, node):
        self.generic_visit(node)
        if len(node.targets) == 1 and self.is_field(node.targets[0], "next_token"):
            return ast.copy_location(ast.Expr(value=self.call("__x9_set_next_token", node.value)), node)
        return node

    def visit_AugAssign(self, node):
        self.generic_visit(node)
        if self.is_field(node.target, "position") and isinstance(node.op, ast.Add):
            return ast.copy_location(ast.Expr(value=self.call("__x9_advance", node.value)), node)
        return node

    def visit_Compare(self, node):
        self.generic_visit(node)
        if len(node.ops) == 1 and isinstance(node.ops[0], (ast.In, ast.NotIn)) and self.is_field(node.comparators[0], "rules"):
            c = ast.copy_location(self.call("__x9_has_rule", node.left), node)
            return c if isinstance(node.ops[0], ast.In) else ast.copy_location(ast.UnaryOp(op=ast.Not(), operand=c), node)
        return node

    def visit_Call(self, node):
        self.generic_visit(node)
        f = node.func
        if isinstance(f, ast.Attribute) and f.attr == "match" and isinstance(f.value, ast.Subscript) and self.is_field(f.value.value, "rules") \
                and len(node.args) == 2 and not node.keywords and self.is_field(node.args[0], "source") and self.is_field(node.args[1], "position"):
            return ast.copy_location(self.call("__x9_rule_match", f.value.slice), node)
        return node


class _X9MailRewrite(ast.NodeTransformer):
    """x9: `parse_email` — see the comment at `X9_MAIL_FUNCTIONS`.  Every rewrite keeps Python's evaluation order."""

    def __init__(self, fn):
        self.fn = fn
        self.n = 0

    def call(self, name, *args):
        return ast.Call(func=ast.Name(id=name, ctx=ast.Load()), args=list(args), keywords=[])

    def is_stdlib(self, e, dotted):
        d = _dotted(e)
        return d == dotted and d[0] not in self.fn_locals and inspect.ismodule(self.fn.globals.get(d[0])) \
            and self.fn.globals[d[0]].__name__ == d[0]

    def run(self, node):
        self.fn_locals = {n.id for n in ast.walk(node) if isinstance(n, ast.Name) and isinstance(n.ctx, ast.Store)} \
            | {a.arg for a in node.args.args}
        # locals bound (only) by the standard-library parser
        for n in ast.walk(node):
            if isinstance(n, ast.Assign) and len(n.targets) == 1 and isinstance(n.targets[0], ast.Name) and self.parser_call(n.value) is not None:
                self.fn.x9_msgs.add(n.targets[0].id)
        for v in list(self.fn.x9_msgs):
            binds = [n for n in ast.walk(node) if isinstance(n, (ast.Assign, ast.AnnAssign, ast.AugAssign, ast.For, ast.With))
                     and v in _targets_of(n)]
            if not all(isinstance(b, ast.Assign) and self.parser_call(b.value) is not None for b in binds):
                self.fn.x9_msgs.discard(v)
        node = self.visit(node)
        ast.fix_missing_locations(node)
        return node

    def parser_call(self, e):
        """`email.parser.Parser(…).parsestr(x, …)` / `email.parser.BytesParser(…).parsebytes(x, …)` with `x` a plain name and every
        other argument a constant or a dotted name: -> (key, x); the key is the source text of the call with `x` blanked"""
        if not (isinstance(e, ast.Call) and isinstance(e.func, ast.Attribute) and e.func.attr in ("parsestr", "parsebytes")
                and isinstance(e.func.value, ast.Call) and len(e.args) >= 1 and isinstance(e.args[0], ast.Name)):
            return None
        ctor = e.func.value
        d = _dotted(ctor.func)
        if d not in (["email", "parser", "Parser"], ["email", "parser", "BytesParser"]) or not inspect.ismodule(self.fn.globals.get("email")):
            return None
        def plain(x):
            return isinstance(x, ast.Constant) or _dotted(x) is not None
        if not all(plain(a) for a in ctor.args) or not all(plain(k.value) for k in ctor.keywords) \
                or not all(plain(a) for a in e.args[1:]) or not all(plain(k.value) for k in e.keywords):
            return None
        import copy
        c = copy.deepcopy(e)
        c.args[0] = ast.Name(id="_", ctx=ast.Load())
        return ast.unparse(c), e.args[0]

    def visit_Call(self, node):
        pc = self.parser_call(node)
        if pc is not None:
            return ast.copy_location(self.call("__x9_parse_message", ast.Constant(value=pc[0]), pc[1]), node)
        self.generic_visit(node)
        f = node.func
        if isinstance(f, ast.Attribute) and isinstance(f.value, ast.Name) and f.value.id in self.fn.x9_msgs:
            if f.attr == "keys" and not node.args and not node.keywords:
                return ast.copy_location(self.call("__x9_msg_keys", f.value), node)
            if f.attr == "get_all" and len(node.args) == 1 and not node.keywords:
                return ast.copy_location(self.call("__x9_msg_get_all", f.value, node.args[0]), node)
            if f.attr == "get_payload" and not node.args and [k.arg for k in node.keywords] in ([], ["decode"]):
                d = node.keywords[0].value if node.keywords else ast.Constant(value=False)
                return ast.copy_location(self.call("__x9_msg_get_payload", f.value, d), node)
        # `frozenset(msg.keys())` / `set(…)`: a set of header names (plain `==`)
        if isinstance(f, ast.Name) and f.id in ("frozenset", "set") and f.id not in self.fn_locals and len(node.args) == 1 and not node.keywords \
                and isinstance(node.args[0], ast.Call) and isinstance(node.args[0].func, ast.Name) and node.args[0].func.id == "__x9_msg_keys":
            return ast.copy_location(self.call("__x9_str_set", ast.Constant(value=f.id), node.args[0]), node)
        if isinstance(f, ast.Attribute) and self.is_stdlib(f, ["email", "header", "decode_header"]) and len(node.args) == 1 and not node.keywords:
            return ast.copy_location(self.call("__x9_decode_header", node.args[0]), node)
        if isinstance(f, ast.Name) and f.id == "str" and "str" not in self.fn_locals and len(node.args) == 1 and not node.keywords:
            a = node.args[0]
            if isinstance(a, ast.Call) and isinstance(a.func, ast.Attribute) and self.is_stdlib(a.func, ["email", "header", "make_header"]) \
                    and len(a.args) == 1 and not a.keywords:
                return ast.copy_location(self.call("__x9_make_header_str", a.args[0]), node)
        # `cast(T, d.pop(k))` / `d.pop(k)`
        if isinstance(f, ast.Attribute) and f.attr == "pop" and isinstance(f.value, ast.Name) and len(node.args) == 1 and not node.keywords \
                and self.fn.x3_is_dict_ann_name(f.value.id):
            return ast.copy_location(self.call("__x9_dict_pop", f.value, node.args[0]), node)
        return node

    def visit_Assign(self, node):
        self.generic_visit(node)
        v = node.value                         # `x = cast(T, __x9_dict_pop(d, k))`: the cast is the identity
        if isinstance(v, ast.Call) and isinstance(v.func, ast.Name) and v.func.id == "cast" and len(v.args) == 2 \
                and isinstance(v.args[1], ast.Call) and isinstance(v.args[1].func, ast.Name) and v.args[1].func.id == "__x9_dict_pop":
            node.value = v.args[1]
        return node

    def visit_Expr(self, node):
        self.generic_visit(node)
        c = node.value
        # `d.setdefault(k, []).append(x)` / `.extend(xs)`, `d[k].append(x)` on a dict local
        if isinstance(c, ast.Call) and isinstance(c.func, ast.Attribute) and c.func.attr in ("append", "extend") and len(c.args) == 1 and not c.keywords:
            r = c.func.value
            if isinstance(r, ast.Call) and isinstance(r.func, ast.Attribute) and r.func.attr == "setdefault" and isinstance(r.func.value, ast.Name) \
                    and self.fn.x3_is_dict_ann_name(r.func.value.id) and len(r.args) == 2 and not r.keywords \
                    and isinstance(r.args[1], ast.List) and not r.args[1].elts:
                return ast.copy_location(ast.Expr(value=self.call("__x9_setdefault_" + c.func.attr, r.func.value, r.args[0], c.args[0])), node)
            if isinstance(r, ast.Subscript) and isinstance(r.value, ast.Name) and self.fn.x3_is_dict_ann_name(r.value.id) \
                    and not isinstance(r.slice, ast.Slice) and c.func.attr == "append":
                return ast.copy_location(ast.Expr(value=self.call("__x9_item_append", r.value, r.slice, c.args[0])), node)
        return node

    def visit_For(self, node):
        self.generic_visit(node)
        # a tuple target with a component that the body rebinds: fresh components, then plain assignments
        if isinstance(node.target, ast.Tuple) and all(isinstance(e, ast.Name) for e in node.target.elts):
            rebound = {n for s_ in _walk_scope(node.body) for n in _targets_of(s_)}
            pre = []
            for i, e in enumerate(node.target.elts):
                if e.id in rebound:
                    self.n += 1
                    fresh = f"__x9_t{self.n}"
                    pre.append(ast.Assign(targets=[ast.Name(id=e.id, ctx=ast.Store())], value=ast.Name(id=fresh, ctx=ast.Load())))
                    node.target.elts[i] = ast.Name(id=fresh, ctx=ast.Store())
            node.body = pre + node.body
        return node


# ---------------------------------------------------------------------------------------------- x6: the rewriting pass
class _X6Rewrite(ast.NodeTransformer):
    """x6: brings constructs of the platform code into the translated subset (see `Fn.x6_prepare`); every rewrite keeps
    Python's evaluation order, and what cannot be rewritten faithfully is left alone (and then refused by the translator)"""

    def __init__(self, fn):
        self.fn = fn
        self.g = fn.globals
        self.n = 0
        self.nts = {k: v for k, v in self.g.items() if inspect.isclass(v) and issubclass(v, tuple) and hasattr(v, "_fields")
                    and (v.__module__ or "").startswith("packaging")}
        idx = {}
        for c in self.nts.values():
            for i, fld in enumerate(c._fields):
                idx.setdefault(fld, set()).add(i)
        self.nt_index = {fld: next(iter(s)) for fld, s in idx.items() if len(s) == 1}
        self.elf = fn.pyfunc.__module__ == "packaging._elffile"
        self.md = fn.pyfunc.__module__ == "packaging.metadata"
        self.msg_locals = set()
        self.me = fn.node.args.args[0].arg if fn.node.args.args else None
        self.in_return = False

    def run(self, node):
        self.local_names = {n.id for n in ast.walk(node) if isinstance(n, ast.Name) and isinstance(n.ctx, ast.Store)} \
            | {a.arg for a in node.args.args + node.args.kwonlyargs}
        self.const_locals = {}
        for n in ast.walk(node):
            if isinstance(n, ast.Assign) and len(n.targets) == 1 and isinstance(n.targets[0], ast.Name):
                self.const_locals.setdefault(n.targets[0].id, []).append(n.value)
        for n in ast.walk(node):
            if isinstance(n, ast.Import):
                self.local_names |= {a.name for a in n.names}
        # a local bound once to a set display of constants and only used as the right operand of `in` is read as a tuple
        for name, vals in self.const_locals.items():
            if len(vals) == 1 and isinstance(vals[0], ast.Set) and all(isinstance(x, ast.Constant) and isinstance(x.value, (str, int))
                                                                     for x in vals[0].elts):
                dead = {id(x) for r in ast.walk(node) if isinstance(r, ast.Raise) for x in ast.walk(r)}    # messages are dropped
                uses = [n for n in ast.walk(node) if isinstance(n, ast.Name) and n.id == name and isinstance(n.ctx, ast.Load)
                        and id(n) not in dead]
                ok = {id(c.comparators[0]) for c in ast.walk(node) if isinstance(c, ast.Compare) and len(c.ops) == 1
                      and isinstance(c.ops[0], (ast.In, ast.NotIn))}
                if uses and all(id(u) in ok for u in uses):
                    for a in ast.walk(node):
                        if isinstance(a, ast.Assign) and a.value is vals[0]:
                            a.value = ast.copy_location(ast.Tuple(elts=list(vals[0].elts), ctx=ast.Load()), vals[0])
        self.seek_first = self.elf and node.name != "__init__" and self.seeks_before_reads(node.body)
        if self.md:
            for name, vals in self.const_locals.items():
                if len(vals) == 1 and isinstance(vals[0], ast.Call) and _dotted(vals[0].func) == ["email", "message", "EmailMessage"] \
                        and not vals[0].args and not vals[0].keywords and self.is_global("email"):
                    stores = [n for n in ast.walk(node) if isinstance(n, ast.Subscript) and isinstance(n.ctx, ast.Store)
                              and isinstance(n.value, ast.Name) and n.value.id == name]
                    if len(stores) == 1 and isinstance(stores[0].slice, ast.Constant) and stores[0].slice.value == "content-type":
                        self.msg_locals.add(name)
            self._params_locals = self.params_locals_scan()
        if self.md and self.fn.pyfunc.__qualname__ == "_Validator.__get__":
            node.body = self.validator_get(node)
            return node
        node.body = self.block(node.body)
        return node

    def block(self, stmts):
        out = []
        for st in stmts:
            r = self.visit(st)
            out.extend(r if isinstance(r, list) else [r])
        return out

    def fresh(self):
        self.n += 1
        return f"__x6t{self.n}"

    def call(self, name, *args):
        return ast.Call(func=ast.Name(id=name, ctx=ast.Load()), args=list(args), keywords=[])

    def is_global(self, name):
        return name not in self.local_names and name in self.g

    # -- statements
    def generic_block(self, node):
        for field in ("body", "orelse", "finalbody"):
            if isinstance(getattr(node, field, None), list) and getattr(node, field) and isinstance(getattr(node, field)[0], ast.stmt):
                setattr(node, field, self.block(getattr(node, field)))
        return node

    def visit_Import(self, node):
        if len(node.names) == 1 and node.names[0].asname is None and "." not in node.names[0].name:
            m = node.names[0].name
            return ast.copy_location(ast.Assign(targets=[ast.Name(id=m, ctx=ast.Store())],
                                                value=self.call("__x6_import", ast.Constant(m))), node)
        return node

    def visit_With(self, node):
        node = self.generic_visit(node)
        if len(node.items) == 1:
            it = node.items[0]
            c = it.context_expr
            if isinstance(c, ast.Call) and isinstance(c.func, ast.Name) and c.func.id in X6_ENV_CONTEXTS and self.is_global(c.func.id) \
                    and isinstance(it.optional_vars, ast.Name):
                return [ast.copy_location(ast.Assign(targets=[ast.Name(id=it.optional_vars.id, ctx=ast.Store())], value=c), node)] \
                    + list(node.body)
        return node

    def visit_Assign(self, node):
        pre = []
        if self.elf and self.is_self_call(node.value, "_read") and len(node.value.args) == 1 and self.seek_first:
            # every read of this method follows a `seek`: the position a read leaves behind is never observed
            fmt = self.visit(node.value.args[0])
            node.value = ast.Subscript(value=self.call("__x6_read_struct", ast.Name(id=self.me, ctx=ast.Load()), fmt),
                                       slice=ast.Constant(0), ctx=ast.Load())
            return self.x6_visit_assign_done(node)
        if self.elf and self.is_self_call(node.value, "_read") and len(node.value.args) == 1:
            # `x = self._read(fmt)`: the file position moves, so `self` is rebound together with the result
            t = self.fresh()
            self.local_names.add(t)
            fmt = self.visit(node.value.args[0])
            pre = [ast.copy_location(ast.Assign(
                targets=[ast.Tuple(elts=[ast.Name(id=t, ctx=ast.Store()), ast.Name(id=self.me, ctx=ast.Store())], ctx=ast.Store())],
                value=self.call("__x6_read_struct", ast.Name(id=self.me, ctx=ast.Load()), fmt)), node)]
            node.value = ast.Name(id=t, ctx=ast.Load())
        r = self.x6_visit_assign(node)
        return pre + (r if isinstance(r, list) else [r]) if pre else r

    def validator_get(self, node):
        """`_Validator.__get__(self, instance, _owner)`: see the comment at `X6_FUNCTIONS`; every statement must have one of the
        shapes below, anything else is left for the translator to refuse"""
        me, inst = node.args.args[0].arg, node.args.args[1].arg
        name = lambda n, ctx=ast.Load: ast.Name(id=n, ctx=ctx())
        alias = None
        out = []

        def is_attr(e, obj, attr):
            return isinstance(e, ast.Attribute) and e.attr == attr and isinstance(e.value, ast.Name) and e.value.id == obj

        class Expr(ast.NodeTransformer):
            def visit_Call(s2, c):
                c = s2.generic_visit(c)
                f = c.func
                if isinstance(f, ast.Attribute) and f.attr == "get" and is_attr(f.value, inst, "_raw") and len(c.args) == 1 and not c.keywords:
                    return self.call("__x6_dict_get", f.value, c.args[0], ast.Constant(None))
                return c

            def visit_Compare(s2, c):
                c = s2.generic_visit(c)
                r = c.comparators[0] if len(c.ops) == 1 else None
                if isinstance(r, ast.Name) and isinstance(c.ops[0], (ast.In, ast.NotIn)) and self.is_global(r.id) \
                        and isinstance(self.g[r.id], frozenset) and all(isinstance(x, str) for x in self.g[r.id]):
                    c.comparators = [ast.Tuple(elts=[ast.Constant(x) for x in sorted(self.g[r.id])], ctx=ast.Load())]
                return c

        def stmts(body):
            nonlocal alias
            res = []
            for st in body:
                if isinstance(st, ast.Expr) and isinstance(st.value, ast.Constant):
                    continue
                if isinstance(st, ast.Assign) and len(st.targets) == 1 and isinstance(st.targets[0], ast.Name) \
                        and is_attr(st.value, inst, "__dict__") and alias is None:
                    alias = st.targets[0].id                     # `cache = instance.__dict__`
                    continue
                if isinstance(st, ast.Try) and len(st.body) == 1 and isinstance(st.body[0], (ast.Assign, ast.AnnAssign)) and not st.finalbody \
                        and len(st.handlers) == 1 and isinstance(st.handlers[0].type, ast.Name) and st.handlers[0].type.id == "AttributeError" \
                        and len(st.handlers[0].body) == 1 and isinstance(st.handlers[0].body[0], ast.Pass) and len(st.orelse) == 1:
                    b, e = st.body[0], st.orelse[0]
                    v = b.value
                    bt = b.targets[0] if isinstance(b, ast.Assign) else b.target
                    conv = bt.id if isinstance(bt, ast.Name) else None
                    ok = isinstance(v, ast.Call) and isinstance(v.func, ast.Name) and v.func.id == "getattr" and len(v.args) == 2 \
                        and isinstance(v.args[0], ast.Name) and v.args[0].id == me and isinstance(v.args[1], ast.JoinedStr) \
                        and len(v.args[1].values) == 2 and isinstance(v.args[1].values[0], ast.Constant) \
                        and v.args[1].values[0].value == "_process_" and isinstance(v.args[1].values[1], ast.FormattedValue) \
                        and is_attr(v.args[1].values[1].value, me, "name") and v.args[1].values[1].conversion == -1
                    ok = ok and isinstance(e, ast.Assign) and len(e.targets) == 1 and isinstance(e.targets[0], ast.Name) \
                        and isinstance(e.value, ast.Call) and isinstance(e.value.func, ast.Name) and e.value.func.id == conv \
                        and len(e.value.args) == 1 and isinstance(e.value.args[0], ast.Name) and e.value.args[0].id == e.targets[0].id \
                        and not e.value.keywords
                    if ok:
                        res.append(ast.copy_location(ast.Assign(targets=[name(e.targets[0].id, ast.Store)],
                                                                value=self.call("__x6_process", name(me), name(e.targets[0].id))), st))
                        continue
                if isinstance(st, ast.Assign) and len(st.targets) == 1 and isinstance(st.targets[0], ast.Subscript) \
                        and isinstance(st.targets[0].value, ast.Name) and st.targets[0].value.id == alias and alias is not None:
                    res.append(ast.copy_location(ast.Assign(
                        targets=[name(inst, ast.Store)],
                        value=self.call("__x6_setattr_dyn", name(inst), Expr().visit(st.targets[0].slice), Expr().visit(st.value))), st))
                    continue
                if isinstance(st, ast.Delete) and len(st.targets) == 1 and isinstance(st.targets[0], ast.Subscript) \
                        and is_attr(st.targets[0].value, inst, "_raw"):
                    res.append(ast.copy_location(ast.Assign(
                        targets=[name(inst, ast.Store)],
                        value=self.call("__x6_del_item", name(inst), ast.Constant("_raw"), Expr().visit(st.targets[0].slice))), st))
                    continue
                if isinstance(st, ast.Return) and st.value is not None:
                    res.append(ast.copy_location(ast.Return(value=ast.Tuple(elts=[Expr().visit(st.value), name(inst)], ctx=ast.Load())), st))
                    continue
                if isinstance(st, (ast.If, ast.Try)):
                    if isinstance(st, ast.If):
                        st.test = Expr().visit(st.test)
                    st.body = stmts(st.body)
                    st.orelse = stmts(st.orelse)
                    for h in getattr(st, "handlers", []):
                        h.body = stmts(h.body)
                    res.append(st)
                    continue
                res.append(Expr().visit(st))
            return res

        return stmts(node.body)

    def params_locals(self):
        return getattr(self, "_params_locals", set())

    def params_locals_scan(self):
        """locals bound (in a parallel assignment) to `message["content-type"].params`: dicts of strings"""
        out = set()
        for n in ast.walk(self.fn.node):
            if isinstance(n, ast.Assign) and len(n.targets) == 1 and isinstance(n.targets[0], ast.Tuple) \
                    and isinstance(n.value, ast.Tuple) and len(n.value.elts) == len(n.targets[0].elts):
                for t, v in zip(n.targets[0].elts, n.value.elts):
                    if isinstance(t, ast.Name) and isinstance(v, ast.Attribute) and v.attr == "params" \
                            and isinstance(v.value, ast.Subscript) and isinstance(v.value.value, ast.Name) \
                            and v.value.value.id in self.msg_locals:
                        out.add(t.id)
        return out

    def x6_visit_assign_done(self, node):
        node.targets = [self.visit(t) for t in node.targets]
        return node

    def uses_file(self, st):
        return any((self.is_self_call(n, "_read") or self.is_file_call(n, "read")) for n in ast.walk(st))

    def seeks_before_reads(self, stmts):
        """every statement that reads the file comes directly after a `self._f.seek(…)` statement of the same block (a `try` whose
        first statement is the only reader counts as that statement)"""
        for i, st in enumerate(stmts):
            if not self.uses_file(st):
                continue
            prev_seek = i > 0 and isinstance(stmts[i - 1], ast.Expr) and self.is_file_call(stmts[i - 1].value, "seek")
            if isinstance(st, (ast.Assign, ast.Return)):
                if not prev_seek:
                    return False
            elif isinstance(st, ast.Try) and prev_seek and st.body and isinstance(st.body[0], ast.Assign) \
                    and not any(self.uses_file(x) for x in st.body[1:] + st.orelse + st.finalbody) \
                    and not any(self.uses_file(x) for h in st.handlers for x in h.body):
                continue
            elif isinstance(st, (ast.For, ast.While, ast.If, ast.Try, ast.With)):
                blocks = [getattr(st, k) for k in ("body", "orelse", "finalbody") if getattr(st, k, None)]
                blocks += [h.body for h in getattr(st, "handlers", [])]
                if not all(self.seeks_before_reads(b) for b in blocks):
                    return False
            else:
                return False
        return True

    def is_self_call(self, e, attr):
        return isinstance(e, ast.Call) and isinstance(e.func, ast.Attribute) and e.func.attr == attr \
            and isinstance(e.func.value, ast.Name) and e.func.value.id == self.me and not e.keywords

    def is_file_call(self, e, attr):
        return isinstance(e, ast.Call) and isinstance(e.func, ast.Attribute) and e.func.attr == attr and not e.keywords \
            and isinstance(e.func.value, ast.Attribute) and e.func.value.attr == "_f" \
            and isinstance(e.func.value.value, ast.Name) and e.func.value.value.id == self.me

    def visit_Expr(self, node):
        if self.elf and self.is_file_call(node.value, "seek") and len(node.value.args) == 1:
            off = self.visit(node.value.args[0])
            return ast.copy_location(ast.Assign(targets=[ast.Name(id=self.me, ctx=ast.Store())],
                                                value=self.call("__x6_seek", ast.Name(id=self.me, ctx=ast.Load()), off)), node)
        return self.generic_visit(node)

    def visit_Return(self, node):
        self.in_return = True
        try:
            return self.generic_visit(node)
        finally:
            self.in_return = False

    def visit_Constant(self, node):
        if self.elf and isinstance(node.value, bytes):
            return ast.copy_location(self.call("__x6_bytes_lit", ast.Constant(node.value.hex())), node)
        return node

    def x6_visit_assign(self, node):
        if self.md and len(node.targets) == 1:
            t = node.targets[0]
            if isinstance(t, ast.Name) and t.id in self.msg_locals and isinstance(node.value, ast.Call) \
                    and _dotted(node.value.func) == ["email", "message", "EmailMessage"]:
                node.value = ast.copy_location(ast.Constant(None), node.value)      # nothing is known of the message yet
                return node
            if isinstance(t, ast.Subscript) and isinstance(t.value, ast.Name) and t.value.id in self.msg_locals:
                v = self.visit(node.value)
                return ast.copy_location(ast.Assign(targets=[ast.Name(id=t.value.id, ctx=ast.Store())],
                                                    value=self.call("__x6_ext", ast.Constant("EmailMessage.set_content_type"), v)), node)
        node = self.generic_visit(node)
        if len(node.targets) == 1 and isinstance(node.targets[0], (ast.Tuple, ast.List)):
            elts = node.targets[0].elts
            plain = all(isinstance(t, ast.Name) for t in elts)
            simple = all(isinstance(t, ast.Name) or (isinstance(t, ast.Attribute) and isinstance(t.value, ast.Name)) for t in elts)
            parallel = isinstance(node.value, (ast.Tuple, ast.List)) and len(node.value.elts) == len(elts)
            if simple and not parallel and (len(elts) > 3 or not plain):
                t = self.fresh()
                self.local_names.add(t)
                out = [ast.Assign(targets=[ast.Name(id=t, ctx=ast.Store())],
                                  value=self.call("__x6_unpack", node.value, ast.Constant(len(elts))))]
                for i, tgt in enumerate(elts):
                    out.append(ast.Assign(targets=[tgt], value=ast.Subscript(value=ast.Name(id=t, ctx=ast.Load()),
                                                                             slice=ast.Constant(i), ctx=ast.Load())))
                return [ast.copy_location(x, node) for x in out]
        return node

    # -- expressions
    def visit_Attribute(self, node):
        node = self.generic_visit(node)
        if not isinstance(node.ctx, ast.Load):
            return node
        b = node.value
        if self.md and node.attr == "params" and isinstance(b, ast.Subscript) and isinstance(b.value, ast.Name) \
                and b.value.id in self.msg_locals and isinstance(b.slice, ast.Constant) and b.slice.value == "content-type":
            return ast.copy_location(ast.Subscript(value=b.value, slice=ast.Constant(1), ctx=ast.Load()), node)
        if isinstance(b, ast.Name) and self.is_global(b.id):
            import enum
            v = self.g[b.id]
            if inspect.isclass(v) and issubclass(v, enum.Enum) and node.attr in v.__members__ and isinstance(v[node.attr].value, int):
                return ast.copy_location(ast.Constant(int(v[node.attr].value)), node)
            if inspect.ismodule(v) or inspect.isclass(v):
                return node
        if node.attr == "stdout" and isinstance(b, ast.Call) and _dotted(b.func) == ["subprocess", "run"] and self.is_global("subprocess"):
            return ast.copy_location(self.call("__x6_env_read", ast.Constant(ast.unparse(node))), node)
        if node.attr in self.nt_index and not (isinstance(b, ast.Name) and b.id in ("self", "cls")):
            return ast.copy_location(ast.Subscript(value=b, slice=ast.Constant(self.nt_index[node.attr]), ctx=ast.Load()), node)
        return node

    def visit_Call(self, node):
        node = self.generic_visit(node)
        f = node.func
        if self.md and self.msg_locals:
            if isinstance(f, ast.Attribute) and f.attr == "lower" and not node.args and not node.keywords \
                    and isinstance(f.value, ast.Call) and isinstance(f.value.func, ast.Attribute) \
                    and f.value.func.attr == "get_content_type" and isinstance(f.value.func.value, ast.Name) \
                    and f.value.func.value.id in self.msg_locals and not f.value.args and not f.value.keywords:
                return ast.copy_location(ast.Subscript(value=f.value.func.value, slice=ast.Constant(0), ctx=ast.Load()), node)
            if isinstance(f, ast.Attribute) and f.attr == "get" and len(node.args) == 2 and not node.keywords \
                    and isinstance(f.value, ast.Name) and f.value.id in self.params_locals():
                return ast.copy_location(self.call("__x6_dict_get", f.value, node.args[0], node.args[1]), node)
        if self.elf:
            if self.is_file_call(node, "read") and len(node.args) == 1 and self.in_return:
                return ast.copy_location(self.call("__x6_read", ast.Name(id=self.me, ctx=ast.Load()), node.args[0]), node)
            if _dotted(f) == ["os", "fsdecode"] and self.is_global("os") and len(node.args) == 1 and not node.keywords:
                return ast.copy_location(self.call("__x6_fsdecode", node.args[0]), node)
            if isinstance(f, ast.Attribute) and f.attr == "strip" and len(node.args) == 1 and not node.keywords:
                return ast.copy_location(self.call("__x6_strip_chars", f.value, node.args[0]), node)
            if isinstance(f, ast.Name) and f.id == "bytes" and f.id not in self.local_names and len(node.args) == 1 and not node.keywords:
                return ast.copy_location(self.call("__x6_bytes", node.args[0]), node)
        if isinstance(f, ast.Name) and self.is_global(f.id) and self.g[f.id] in self.nts.values():
            c = self.g[f.id]
            if len(node.args) == 1 and isinstance(node.args[0], ast.Starred) and not node.keywords:
                return ast.copy_location(self.call("__x6_tuple_n", node.args[0].value, ast.Constant(len(c._fields))), node)
            if not any(isinstance(a, ast.Starred) for a in node.args) and all(k.arg is not None for k in node.keywords):
                names = list(c._fields[:len(node.args)]) + [k.arg for k in node.keywords]
                if names == list(c._fields):       # every field, in field order: evaluation order is the display's
                    return ast.copy_location(ast.Tuple(elts=list(node.args) + [k.value for k in node.keywords], ctx=ast.Load()), node)
            return node
        # a parameter left to its default, where the default is a probe of the interpreter (`_32_BIT_INTERPRETER`)
        if isinstance(f, ast.Name) and self.is_global(f.id) and inspect.isfunction(self.g[f.id]) \
                and (self.g[f.id].__module__ or "").startswith("packaging") and not any(isinstance(a, ast.Starred) for a in node.args) \
                and all(k.arg is not None for k in node.keywords):
            try:
                fd = ast.parse(textwrap.dedent(inspect.getsource(self.g[f.id]))).body[0]
            except (OSError, SyntaxError, TypeError):
                fd = None
            if isinstance(fd, ast.FunctionDef) and not fd.args.vararg and not fd.args.kwonlyargs:
                params = [a.arg for a in fd.args.args]
                defaults = dict(zip(params[len(params) - len(fd.args.defaults):], fd.args.defaults))
                given = set(params[:len(node.args)]) | {k.arg for k in node.keywords}
                for p_ in params:
                    d = defaults.get(p_)
                    if p_ not in given and isinstance(d, ast.Name) and d.id in EXTERNAL_READS and d.id in self.g[f.id].__globals__ \
                            and d.id in self.g:
                        node.keywords.append(ast.keyword(arg=p_, value=ast.Name(id=d.id, ctx=ast.Load())))
            return node
        if isinstance(f, ast.Attribute) and f.attr == "get" and isinstance(f.value, ast.Dict) and len(node.args) in (1, 2) \
                and not node.keywords and all(isinstance(k, ast.Constant) and isinstance(k.value, str) for k in f.value.keys):
            d = node.args[1] if len(node.args) == 2 else ast.Constant(None)
            return ast.copy_location(self.call("__x6_dict_get", f.value, node.args[0], d), node)
        # `template.format(k=v, …)`: an f-string, when the fields are the keywords in their order
        if isinstance(f, ast.Attribute) and f.attr == "format" and not node.args and node.keywords \
                and all(k.arg is not None for k in node.keywords):
            tmpl = None
            if isinstance(f.value, ast.Constant) and isinstance(f.value.value, str):
                tmpl = f.value.value
            elif isinstance(f.value, ast.Name) and len(self.const_locals.get(f.value.id, [])) == 1 \
                    and isinstance(self.const_locals[f.value.id][0], ast.Constant) and isinstance(self.const_locals[f.value.id][0].value, str) \
                    and f.value.id not in {a.arg for a in self.fn.node.args.args}:
                tmpl = self.const_locals[f.value.id][0].value
            if tmpl is not None:
                import string
                try:
                    parts = list(string.Formatter().parse(tmpl))
                except ValueError:
                    return node
                fields = [p[1] for p in parts if p[1] is not None]
                if fields == [k.arg for k in node.keywords] and all(not p[2] and p[3] is None for p in parts if p[1] is not None):
                    vals = {k.arg: k.value for k in node.keywords}
                    js = []
                    for lit, fld, _, _ in parts:
                        if lit:
                            js.append(ast.Constant(lit))
                        if fld is not None:
                            js.append(ast.FormattedValue(value=vals[fld], conversion=-1, format_spec=None))
                    return ast.copy_location(ast.JoinedStr(values=js), node)
        return node

    def gdict_name(self, e):
        if isinstance(e, ast.Name) and self.is_global(e.id) and isinstance(self.g[e.id], dict):
            d = self.g[e.id]
            try:
                for k, v in d.items():
                    lconst(k), lconst(v)
            except Unsupported:
                return None
            return e.id
        return None

    def visit_Compare(self, node):
        node = self.generic_visit(node)
        if len(node.ops) == 1 and isinstance(node.ops[0], (ast.In, ast.NotIn)):
            name = self.gdict_name(node.comparators[0])
            if name is not None:
                c = self.call("__x6_gdict_contains", ast.Constant(name), node.left)
                if isinstance(node.ops[0], ast.NotIn):
                    c = ast.UnaryOp(op=ast.Not(), operand=c)
                return ast.copy_location(c, node)
        return node

    def visit_Subscript(self, node):
        node = self.generic_visit(node)
        if isinstance(node.ctx, ast.Load) and not isinstance(node.slice, ast.Slice):
            name = self.gdict_name(node.value)
            if name is not None:
                return ast.copy_location(self.call("__x6_gdict_getitem", ast.Constant(name), node.slice), node)
            if isinstance(node.value, ast.Dict) and node.value.keys and all(k is not None for k in node.value.keys):
                try:
                    for k in node.value.keys:
                        lconst(ast.literal_eval(k))
                except (ValueError, Unsupported):
                    return node
                return ast.copy_location(self.call("__x6_dict_lookup", node.value, node.slice), node)
        return node

    def visit_BinOp(self, node):
        node = self.generic_visit(node)
        if isinstance(node.op, ast.BitAnd):
            return ast.copy_location(self.call("__x6_bitand", node.left, node.right), node)
        return node

    def visit_FunctionDef(self, node):
        return node                  # nested scopes are not entered (the outermost function is handled by `run`)

    visit_Lambda = visit_ClassDef = visit_AsyncFunctionDef = visit_FunctionDef


_CMP = {ast.Lt: "lt", ast.LtE: "le", ast.Gt: "gt", ast.GtE: "ge"}


def _set_display_as_tuple(r):
    """x2: `x in {c1, c2, …}` for constants is membership in the tuple of the same constants"""
    if isinstance(r, ast.Set) and all(isinstance(x, ast.Constant) and isinstance(x.value, (str, int)) for x in r.elts):
        return ast.Tuple(elts=list(r.elts), ctx=ast.Load())
    return r


def _seq_pattern(pat, flags=0):
    """x2: a literal pattern as a list of `PyRx.SeqItem`s (Lean text) + its group-name index, or None when the pattern is not
    a sequence of literal characters and `<atom>+` runs whose greedy reading is the only one"""
    import re
    from re import _parser as P
    import translate as T
    try:
        tree = P.parse(pat, flags)
    except Exception:
        return None
    cflags = re.compile(pat, flags).flags
    items = []            # ("lit", cp) | ("run", capture, ranges)
    for op, av in tree:
        if op is P.LITERAL:
            items.append(("lit", av))
            continue
        cap = False
        if op is P.SUBPATTERN:
            g, add, dele, body = av
            body = list(body)
            if add or dele or g is None or len(body) != 1:
                return None
            op, av = body[0]
            cap = True
        if op is not P.MAX_REPEAT:
            return None
        lo, hi, body = av
        body = list(body)
        if lo != 1 or hi != P.MAXREPEAT or len(body) != 1 or body[0][0] not in (P.IN, P.LITERAL, P.ANY, P.NOT_LITERAL):
            return None
        _, rs = T.sweep(tree.state, cflags, *body[0])
        items.append(("run", cap, list(rs)))
    # the greedy reading must be the only one
    def inside(rs, cp):
        return any(lo <= cp <= hi for lo, hi in rs)
    for a, b in zip(items, items[1:]):
        if a[0] == "run":
            if b[0] == "lit" and inside(a[2], b[1]):
                return None
            if b[0] == "run" and any(inside(a[2], lo) or inside(a[2], hi) or inside(b[2], x) for lo, hi in b[2] for x, _ in a[2]):
                return None
    out = []
    for it in items:
        if it[0] == "lit":
            out.append(f"PyRx.SeqItem.lit {it[1]}")
        else:
            out.append(f"PyRx.SeqItem.run {'true' if it[1] else 'false'} [" + ", ".join(f"({lo}, {hi})" for lo, hi in it[2]) + "]")
    return "[" + ", ".join(out) + "]", dict(re.compile(pat, flags).groupindex)


def _x7_class_pattern(pat):
    """x7: the code-point ranges of a compiled pattern that is exactly one character class / literal (swept from the
    interpreter's regex parser under the pattern's flags), else None"""
    from re import _parser as P
    import translate as T
    try:
        tree = P.parse(pat.pattern, pat.flags)
    except Exception:
        return None
    items = list(tree)
    if len(items) != 1 or items[0][0] not in (P.IN, P.LITERAL):
        return None
    _, rs = T.sweep(tree.state, pat.flags, *items[0])
    return [tuple(r) for r in rs]


def _registered_regex(pat):
    """x2: the name under which `translate.regex_source` regenerates this very pattern object (Gen.<name>), else None"""
    import translate
    for name, thunk in translate.REGEX_SOURCES.items():
        try:
            if thunk()[0] is pat:
                return name
        except Exception:
            continue
    return None
_MISSING = object()


def _dotted(a):
    parts = []
    while isinstance(a, ast.Attribute):
        parts.append(a.attr)
        a = a.value
    if isinstance(a, ast.Name):
        parts.append(a.id)
        return list(reversed(parts))
    return None


def _is_fresh_list(v):
    if isinstance(v, (ast.List, ast.ListComp)):
        return True
    if isinstance(v, ast.Call) and isinstance(v.func, ast.Name) and v.func.id in FRESH_CALLS:
        return True
    if isinstance(v, ast.BinOp) and isinstance(v.op, (ast.Add, ast.Mult)) and (_is_fresh_list(v.left) or _is_fresh_list(v.right)):
        return True
    return False


def _class_digest(cls):
    """x3: sha256 over the ast of a class's methods, doc strings and comments aside"""
    import hashlib
    tree = ast.parse(textwrap.dedent(inspect.getsource(cls))).body[0]
    parts = []
    for st in tree.body:
        if isinstance(st, ast.FunctionDef):
            body = st.body
            if body and isinstance(body[0], ast.Expr) and isinstance(body[0].value, ast.Constant) and isinstance(body[0].value.value, str):
                body = body[1:]
            parts.append(st.name + ast.dump(st.args) + "".join(ast.dump(x) for x in body) + "".join(ast.dump(d) for d in st.decorator_list))
    return hashlib.sha256("\n".join(parts).encode()).hexdigest()


def _fn_digest(f):
    """x5: sha256 over the ast of a function, doc string aside"""
    import hashlib
    st = ast.parse(textwrap.dedent(inspect.getsource(f))).body[0]
    body = st.body
    if body and isinstance(body[0], ast.Expr) and isinstance(body[0].value, ast.Constant) and isinstance(body[0].value.value, str):
        body = body[1:]
    return hashlib.sha256((ast.dump(st.args) + "".join(ast.dump(x) for x in body)).encode()).hexdigest()


def _nested_mutation(n):
    """x3: statement `name[i].append(x)` (a list method on an element of a local list): the name, else None"""
    if isinstance(n, ast.Expr) and isinstance(n.value, ast.Call) and isinstance(n.value.func, ast.Attribute) \
            and n.value.func.attr in MUTATORS and isinstance(n.value.func.value, ast.Subscript) \
            and isinstance(n.value.func.value.value, ast.Name) and not isinstance(n.value.func.value.slice, ast.Slice):
        return n.value.func.value.value.id
    return None


def _falls_through(stmts):
    """can control reach the end of this statement list?  (conservative: True when in doubt)"""
    for st in stmts:
        if isinstance(st, (ast.Return, ast.Raise)):
            return False
        if isinstance(st, ast.If) and st.orelse and not _falls_through(st.body) and not _falls_through(st.orelse):
            return False
    return True


def _targets_of(n):
    """local names bound by statement n itself (not by nested statements)"""
    out = []
    if isinstance(n, ast.Assign):
        for t in n.targets:
            out += [x.id for x in ast.walk(t) if isinstance(x, ast.Name) and isinstance(x.ctx, ast.Store)]
    elif isinstance(n, (ast.AnnAssign, ast.AugAssign)):
        if isinstance(n, ast.AnnAssign) and n.value is None:
            return out
        out += [x.id for x in ast.walk(n.target) if isinstance(x, ast.Name) and isinstance(x.ctx, ast.Store)]
    elif isinstance(n, ast.NamedExpr):
        raise Unsupported("assignment expression")
    return out


def _walk_scope(stmts, into_exprs=False):
    """statements of a function body, recursively, without entering nested scopes; with into_exprs also every
    expression node (lambda / comprehension bodies included: they can read the enclosing locals)"""
    stack = list(reversed(stmts))
    while stack:
        n = stack.pop()
        yield n
        if isinstance(n, (ast.FunctionDef, ast.AsyncFunctionDef, ast.ClassDef)):
            continue
        for c in reversed(list(ast.iter_child_nodes(n))):
            if isinstance(c, ast.stmt) or isinstance(c, ast.ExceptHandler) or into_exprs:
                stack.append(c)
            elif isinstance(c, (ast.Yield, ast.YieldFrom, ast.NamedExpr)):
                stack.append(c)
            elif isinstance(c, ast.expr):
                # look for yield / walrus inside expressions
                for d in ast.walk(c):
                    if isinstance(d, (ast.Yield, ast.YieldFrom, ast.NamedExpr)):
                        stack.append(d)


# ---------------------------------------------------------------------------------------------- whole file
class Ctx:
    def __init__(self, selected, tracked=None):
        self.selected = selected
        self.objs = {}        # id(function object) -> lean name
        self.funcs = []       # (lean name, function object or None, error); grows while dependencies are discovered
        self.deps = {}
        self.current = None
        self.imports = set()       # extra Lean modules the generated file needs
        self.uses_env = set()      # lean names of functions that take the environment
        self.uses_ext = set()      # x3: lean names of functions that take the oracle
        self.recursive = {}        # x3: lean name -> id of its recursive group (functions that call each other)
        self.state_fns = set()     # x3: lean names of functions that run in the state monad
        self.x7_mx = set()         # x7: lean names of functions that run in PyX7.MX (exception objects)
        self.x7_clsmethods = set() # x7: lean names of classmethods (their `cls` parameter is dropped)
        self.x9_io = {}            # x9: lean name -> the message parameter that is the state of `PyX9.SM`
        self.x9_io_objs = {}       # x9: lean name -> the (copied) function object of that second translation
        self.x9_sm = set()         # x9: lean names of functions that run in `PyX9.SM`
        self.x9_io_idx = {}        # x9: lean name -> index of that parameter
        self.loops = set()         # x3: lean names of functions with a `while` loop (they take fuel as well)
        self.dispatchers = {}      # name -> Lean definition text
        self.dispatcher_deps = {}
        self.tracked = []
        for mod, name in (TRACKED if tracked is None else tracked):
            try:
                c = getattr(importlib.import_module(mod), name)
                if inspect.isclass(c):
                    self.tracked.append(c)
            except Exception:
                pass
        for lean_name, mod, path in selected:
            try:
                m = importlib.import_module(mod)
                obj = m
                for part in path.split("."):
                    obj = inspect.getattr_static(obj, part) if inspect.isclass(obj) else getattr(obj, part)
                if isinstance(obj, property):
                    obj = obj.fget
                if isinstance(obj, (staticmethod, classmethod)):
                    obj = obj.__func__
                if not inspect.isfunction(obj):
                    raise Unsupported(f"{mod}.{path} is not a function")
                self.objs[id(obj)] = lean_name
                self.funcs.append((lean_name, obj, None))
            except Exception as ex:   # the function is gone or renamed
                self.funcs.append((lean_name, None, f"{type(ex).__name__}: {ex}"))

    # -- x7
    def x7_is_mx(self, f):
        return (getattr(f, "__module__", None), getattr(f, "__qualname__", None)) in X7_MX_FUNCTIONS

    def x7_is_clsmethod(self, f):
        qn = (getattr(f, "__qualname__", "") or "").split(".")
        if len(qn) != 2:
            return False
        c = getattr(importlib.import_module(f.__module__), qn[0], None)
        return inspect.isclass(c) and isinstance(inspect.getattr_static(c, qn[1], None), classmethod)

    # -- classes
    def is_tracked(self, c):
        return any(c is t for t in self.tracked)

    def subclasses(self, c):
        """tracked proper subclasses of c"""
        return [d for d in self.tracked if d is not c and c in d.__mro__]

    def lookup(self, c, attr):
        try:
            return inspect.getattr_static(c, attr)
        except AttributeError:
            return _MISSING

    def defined_by_tracked(self, attr):
        return any(attr in k.__dict__ for c in self.tracked for k in c.__mro__ if k is not object)

    def field_class(self, c, attr):
        """class of instance attribute `attr` of a c: from `self.attr = K(...)` in `__init__` (K tracked)"""
        init = self.lookup(c, "__init__")
        if not inspect.isfunction(init):
            return None
        try:
            tree = ast.parse(textwrap.dedent(inspect.getsource(init)))
        except (OSError, SyntaxError):
            return None
        fn = tree.body[0]
        selfname = fn.args.args[0].arg
        found = set()
        for n in ast.walk(fn):
            if isinstance(n, ast.Assign) and len(n.targets) == 1:
                t = n.targets[0]
                if isinstance(t, ast.Attribute) and isinstance(t.value, ast.Name) and t.value.id == selfname and t.attr == attr:
                    v = n.value
                    if isinstance(v, ast.Call) and isinstance(v.func, ast.Name):
                        k = init.__globals__.get(v.func.id)
                        found.add(k if inspect.isclass(k) and self.is_tracked(k) else None)
                    else:
                        found.add(None)
        if len(found) == 1:
            return found.pop()
        return None

    def x5_field_ann(self, c, attr):
        """x5: the annotation (ast) of `self.attr: T = …` in `__init__` of class c, with the globals to read it in; else None"""
        init = self.lookup(c, "__init__")
        if not inspect.isfunction(init):
            return None
        try:
            fn = ast.parse(textwrap.dedent(inspect.getsource(init))).body[0]
        except (OSError, SyntaxError):
            return None
        me = fn.args.args[0].arg
        for st in ast.walk(fn):
            if isinstance(st, ast.AnnAssign) and isinstance(st.target, ast.Attribute) and isinstance(st.target.value, ast.Name) \
                    and st.target.value.id == me and st.target.attr == attr:
                ann = st.annotation
                if isinstance(ann, ast.Constant) and isinstance(ann.value, str):
                    try:
                        ann = ast.parse(ann.value, mode="eval").body
                    except SyntaxError:
                        return None
                return ann, init.__globals__
        return None

    def x5_field_class(self, c, attr):
        """x5: `(K, optional)` when `__init__` of c declares `self.attr: K` / `K | None` with K a tracked class; else None"""
        r = self.x5_field_ann(c, attr)
        if r is None:
            return None
        ann, g = r
        optional = False
        if isinstance(ann, ast.BinOp) and isinstance(ann.op, ast.BitOr):
            sides = [x for x in (ann.left, ann.right) if not (isinstance(x, ast.Constant) and x.value is None)]
            if len(sides) != 1:
                return None
            ann, optional = sides[0], True
        if isinstance(ann, ast.Name):
            k = g.get(ann.id)
            if inspect.isclass(k) and self.is_tracked(k):
                return k, optional
        return None

    def x5_field_set(self, c, attr):
        """x5: `(K,)` when instance attribute `attr` of class c always holds a frozenset / set whose members are instances of
        tracked class K (K None: unknown members) — every `self.attr = …` in `__init__` is `frozenset(map(K, …))` or
        `frozenset(<parameter annotated Iterable[K]>)`; None when the attribute is not known to be a set"""
        cache = self.__dict__.setdefault("_x5_fs", {})
        if (c, attr) in cache:
            return cache[(c, attr)]
        cache[(c, attr)] = None
        r = self.x5_field_ann(c, attr)
        if r is not None and isinstance(r[0], ast.Subscript) and isinstance(r[0].value, ast.Name) \
                and r[0].value.id in ("set", "frozenset", "Set", "FrozenSet") and isinstance(r[0].slice, ast.Name) \
                and r[0].slice.id in ("str", "int"):
            cache[(c, attr)] = ("plain",)                     # `self.attr: set[str] = …`: members compared with plain `==`
            return cache[(c, attr)]
        init = self.lookup(c, "__init__")
        if not inspect.isfunction(init):
            return None
        try:
            fn = ast.parse(textwrap.dedent(inspect.getsource(init))).body[0]
        except (OSError, SyntaxError):
            return None
        me = fn.args.args[0].arg
        elems, n = set(), 0
        for st in ast.walk(fn):
            if isinstance(st, (ast.Assign, ast.AnnAssign)):
                for t in (st.targets if isinstance(st, ast.Assign) else [st.target]):
                    if isinstance(t, ast.Attribute) and isinstance(t.value, ast.Name) and t.value.id == me and t.attr == attr:
                        v = st.value
                        n += 1
                        if not (isinstance(v, ast.Call) and isinstance(v.func, ast.Name) and v.func.id in ("frozenset", "set")
                                and len(v.args) == 1 and not v.keywords):
                            return None
                        a = v.args[0]
                        k = None
                        if isinstance(a, ast.Call) and isinstance(a.func, ast.Name) and a.func.id == "map" and len(a.args) == 2 \
                                and isinstance(a.args[0], ast.Name):
                            g = init.__globals__.get(a.args[0].id)
                            k = g if inspect.isclass(g) and self.is_tracked(g) else None
                        elif _x8_comp_ctor(a) is not None:        # --- x8: `frozenset(K(x) for x in … [if …])` ≡ `frozenset(map(K, …))`
                            g = init.__globals__.get(_x8_comp_ctor(a))
                            k = g if inspect.isclass(g) and self.is_tracked(g) else None
                        elif isinstance(a, ast.Name):
                            ann = next((p.annotation for p in fn.args.args + fn.args.kwonlyargs if p.arg == a.id), None)
                            if isinstance(ann, ast.Constant) and isinstance(ann.value, str):
                                try:
                                    ann = ast.parse(ann.value, mode="eval").body
                                except SyntaxError:
                                    ann = None
                            for s_ in ast.walk(ann) if ann is not None else []:
                                if isinstance(s_, ast.Subscript) and isinstance(s_.slice, ast.Name):
                                    g = init.__globals__.get(s_.slice.id)
                                    if inspect.isclass(g) and self.is_tracked(g):
                                        k = g
                        elems.add(k)
        if n:
            cache[(c, attr)] = (elems.pop() if len(elems) == 1 else None,)
        return cache[(c, attr)]

    # -- functions
    def is_state_fn(self, f):
        """x3: the first parameter is annotated with the state class (`tokenizer: Tokenizer`)"""
        if _x9_is_state_method(f):                            # x9: a method of the state class (`self` is the state)
            return True
        try:
            node = ast.parse(textwrap.dedent(inspect.getsource(f))).body[0]
        except (OSError, SyntaxError, TypeError):
            return False
        if not isinstance(node, ast.FunctionDef) or not node.args.args:
            return False
        ann = node.args.args[0].annotation
        if isinstance(ann, ast.Constant) and isinstance(ann.value, str):
            ann = ast.Name(id=ann.value, ctx=ast.Load())
        if not isinstance(ann, ast.Name) or ann.id != STATE_CLASS[1]:
            return False
        c = f.__globals__.get(ann.id)
        return inspect.isclass(c) and c.__module__ == STATE_CLASS[0]

    def ipf_of(self, f):
        """x3: index of the parameter that function f updates in place *and* returns at every `return` (the function is
        then translated as returning the updated value, and its callers rebind what they passed), else None"""
        cache = self.__dict__.setdefault("_ipf", {})
        if id(f) in cache:
            return cache[id(f)]
        cache[id(f)] = None
        try:
            node = ast.parse(textwrap.dedent(inspect.getsource(f))).body[0]
        except (OSError, SyntaxError, TypeError):
            return None
        if not isinstance(node, ast.FunctionDef):
            return None
        names = [a.arg for a in node.args.args]
        hit = set()
        for n in _walk_scope(node.body, into_exprs=True):
            if isinstance(n, ast.Subscript) and isinstance(n.ctx, ast.Store) and isinstance(n.value, ast.Name) and n.value.id in names:
                hit.add(n.value.id)
            if isinstance(n, ast.Call) and isinstance(n.func, ast.Attribute) and isinstance(n.func.value, ast.Name) \
                    and n.func.value.id in names and n.func.attr in (set(MUTATORS) | OTHER_MUTATORS):
                hit.add(n.func.value.id)
        rets = [n for n in _walk_scope(node.body) if isinstance(n, ast.Return)]
        if len(hit) == 1 and rets and all(isinstance(r.value, ast.Name) and r.value.id in hit for r in rets) \
                and not _falls_through(node.body):
            cache[id(f)] = names.index(next(iter(hit)))
        return cache[id(f)]

    def lean_name_of(self, f):
        return self.objs.get(id(f))

    def need(self, f):
        self.deps.setdefault(self.current, set()).add(self.objs[id(f)])

    def require(self, f, name=None):
        """the Lean name of function f, adding it to the functions to translate if it is not selected yet"""
        if id(f) not in self.objs:
            if not (f.__module__ or "").startswith("packaging"):
                raise Unsupported(f"call of {f.__module__}.{f.__qualname__}")
            name = name or f.__qualname__
            self.objs[id(f)] = name
            self.funcs.append((name, f, None))
        self.need(f)
        return self.objs[id(f)]


def _arity(pyfunc):
    return len(inspect.signature(pyfunc).parameters)


def generate(selected=None):
    uses_env = set()
    uses_ext, recursive = set(), {}
    for _ in range(8):                   # which functions need `env` is a fixed point over the call graph
        ctx = Ctx(selected or SELECTED)
        ctx.uses_env = set(uses_env)
        ctx.uses_ext, ctx.recursive = set(uses_ext), dict(recursive)        # x3
        defs, info, arities = _translate_all(ctx)
        rec = _recursive_groups(ctx)
        for n in ctx.loops:                     # a `while` loop is bounded by fuel too
            rec.setdefault(n, n)
        if ctx.uses_env == uses_env and ctx.uses_ext == uses_ext and rec == recursive:
            break
        uses_env = set(ctx.uses_env)
        uses_ext, recursive = set(ctx.uses_ext), rec
    return _assemble(ctx, defs, info, arities)


def _translate_all(ctx):
    defs = {}
    info = {}
    arities = {}
    i = 0
    while i < len(ctx.funcs):              # the list grows while dependencies are discovered
        lean_name, obj, err = ctx.funcs[i]
        i += 1
        ctx.current = lean_name
        text = None
        if obj is not None:
            try:
                arities[lean_name] = _arity(obj)
                fn_ = Fn(ctx, lean_name, obj)
                text = fn_.translate()
                if getattr(fn_, "x9_arity", None) is not None:       # x9: a part of a split generator has parameters of its own
                    arities[lean_name] = fn_.x9_arity
                missing = _missing_runtime(text)
                if missing:
                    # containment: a call the run-time has no primitive for must not reach the Lean build (it would
                    # take the whole driver, and with it every property, down); the function becomes a stub instead
                    raise Unsupported("no run-time primitive " + ", ".join(missing))
            except Unsupported as ex:
                text = None
                err = f"unsupported: {ex}"
            except Exception as ex:
                err = f"translator failure: {type(ex).__name__}: {ex}"
        if text is None:
            n = arities.get(lean_name)
            if n is None:
                n = 1
                arities[lean_name] = n
            monad = "M"
            if obj is not None and ctx.is_state_fn(obj):            # x3
                ctx.state_fns.add(lean_name)
                ctx.imports.add(STATE_IMPORT)
                n -= 1
                monad = STATE_MONAD
            if obj is not None and ctx.x7_is_mx(obj):                # x7
                ctx.x7_mx.add(lean_name)
                ctx.imports.add(X7_IMPORT)
                monad = X7_MX
            if obj is not None and ctx.x7_is_clsmethod(obj):
                ctx.x7_clsmethods.add(lean_name)
                n -= 1
            if lean_name in ctx.x9_io:                               # x9
                ctx.x9_sm.add(lean_name)
                ctx.imports.add(X9_IMPORT)
                n -= 1
                monad = X9_SM
            params = " ".join(f"_a{i}" for i in range(n))
            env = "(_env : PyRt.Env) " if lean_name in ctx.uses_env else ""
            env += "(_ext : PyRt.Oracle) " if lean_name in ctx.uses_ext else ""
            text = (f"/-- NOT TRANSLATED: {err} -/\n"
                    f"def {lean_name} {env}" + (f"({params} : PyVal) " if n else "") + f': {monad} PyVal := throw "PySrcUnsupported"')
            info[lean_name] = {"supported": False, "why": err}
        else:
            info[lean_name] = {"supported": True}
        defs[lean_name] = text
    return defs, info, arities


_RUNTIME_NAMES = None


def _runtime_names():
    """every name the run-time files define (definitions, structures, constructors), by namespace-free spelling"""
    global _RUNTIME_NAMES
    if _RUNTIME_NAMES is None:
        import re as _re
        from pathlib import Path as _Path
        names = set()
        root = _Path(__file__).resolve().parent.parent.parent / "lean" / "PkgModel"
        for fp in sorted(root.glob("Py?*.lean")):          # PyRt, PyRx, PyObj, PyTok, PyLic, … (not Py.lean)
            txt = fp.read_text()
            for m in _re.finditer(r"^\s*(?:@\[[^\]]*\]\s*)?(?:private\s+|protected\s+|partial\s+|noncomputable\s+)*"
                                  r"(?:def|abbrev|structure|inductive|class|instance|opaque|theorem)\s+([^\s:({\[]+)", txt, _re.M):
                names.add(m.group(1).split(".")[-1].strip("«»"))
            for m in _re.finditer(r"^\s*\|\s*([A-Za-z_][\w']*)", txt, _re.M):
                names.add(m.group(1))
        _RUNTIME_NAMES = names
    return _RUNTIME_NAMES


def _missing_runtime(text):
    import re as _re
    known = _runtime_names()
    if not known:
        return []
    used = set(_re.findall(r"\bPy[A-Z]\w*\.([A-Za-z_][\w']*)", text))
    return sorted(u for u in used if u not in known)


def _sccs(ctx):
    """x3: strongly connected components of the call graph (functions and dispatcher definitions), callees first"""
    nodes = [n for n, _, _ in ctx.funcs] + list(ctx.dispatchers)
    def succ(n):
        return sorted(ctx.dispatcher_deps[n] if n in ctx.dispatchers else ctx.deps.get(n, ()))
    index, low, on, stack, out = {}, {}, set(), [], []
    def strong(v):
        index[v] = low[v] = len(index)
        stack.append(v)
        on.add(v)
        for w in succ(v):
            if w not in index:
                strong(w)
                low[v] = min(low[v], low[w])
            elif w in on:
                low[v] = min(low[v], index[w])
        if low[v] == index[v]:
            comp = []
            while True:
                w = stack.pop()
                on.discard(w)
                comp.append(w)
                if w == v:
                    break
            out.append(list(reversed(comp)))
    for n in nodes:
        if n not in index:
            strong(n)
    return out, succ


def _recursive_groups(ctx):
    """x3: lean name -> group id, for the functions that call themselves or each other"""
    comps, succ = _sccs(ctx)
    rec = {}
    for comp in comps:
        if len(comp) > 1 or comp[0] in succ(comp[0]):
            gid = sorted(comp)[0]
            for n in comp:
                rec[n] = gid
    return rec


def _assemble(ctx, defs, info, arities):
    # order by dependencies (calls between selected functions); a group of functions that call each other becomes a
    # `mutual` block of fuel-indexed definitions followed by the entry points (x3)
    comps, succ = _sccs(ctx)
    out = ["import PkgModel.PyRt"] + [f"import {m}" for m in sorted(ctx.imports)] + [
           "/-! GENERATED by harness/translators/pysrc.py from the current source of the selected functions — do not edit. -/",
           "set_option linter.unusedVariables false",
           "namespace Gen.PySrc", "open PyRt", ""]
    order = []
    for comp in comps:
        recursive = len(comp) > 1 or comp[0] in succ(comp[0]) or comp[0] in ctx.recursive
        if not recursive:
            n = comp[0]
            if n in ctx.dispatchers:
                out.append("/-- dynamic dispatch on the run-time class / a table of callables -/")
                out.append(ctx.dispatchers[n])
                out.append("")
                continue
            order.append(n)
            out.append(f"def {n}_supported : Bool := {'true' if info[n]['supported'] else 'false'}")
            out.append(defs[n])
            out.append("")
            continue
        if any(n in ctx.dispatchers for n in comp):
            raise Unsupported("recursion through a dispatcher definition: " + " -> ".join(comp))
        comp = [n for n, _, _ in ctx.funcs if n in comp]            # source order
        good = [n for n in comp if info[n]["supported"] and ctx.recursive.get(n) is not None]
        for n in comp:
            order.append(n)
            sup = n in good
            out.append(f"def {n}_supported : Bool := {'true' if sup else 'false'}")
            if not sup:                                  # a stub, ahead of the block (it calls nothing)
                k = arities[n] - (1 if n in ctx.state_fns else 0)
                monad = STATE_MONAD if n in ctx.state_fns else "M"
                env = ("(_env : PyRt.Env) " if n in ctx.uses_env else "") + ("(_ext : PyRt.Oracle) " if n in ctx.uses_ext else "")
                why = info[n].get("why") or "the group of recursive functions was not stable"
                out.append(f"/-- NOT TRANSLATED: {why} -/")
                out.append(f"def {n}__fuel {env}(_fuel : Nat) " + (f"({' '.join(f'_a{i}' for i in range(k))} : PyVal) " if k else "")
                           + f': {monad} PyVal := throw "PySrcUnsupported"')
        if len(good) > 1:
            out.append("mutual")
        for n in good:
            out.append(defs[n])
        if len(good) > 1:
            out.append("end")
        out.append("")
        for n in comp:
            k = arities[n] - (1 if n in ctx.state_fns else 0)
            ps = [f"a{i}" for i in range(k)]
            envd = ("(env : PyRt.Env) " if n in ctx.uses_env else "") + ("(ext : PyRt.Oracle) " if n in ctx.uses_ext else "")
            enva = (" env" if n in ctx.uses_env else "") + (" ext" if n in ctx.uses_ext else "")
            out.append(f"/-- entry point: the fuel bounds the recursion depth by the size of the arguments -/")
            if n in ctx.state_fns:
                out.append(f"def {n} {envd}" + (f"({' '.join(ps)} : PyVal) " if ps else "") + f": {STATE_MONAD} PyVal := do\n"
                           f"  {n}__fuel{enva} (PyTok.fuelOf (← get) [{', '.join(ps)}])" + "".join(" " + q for q in ps))
            else:
                out.append(f"def {n} {envd}" + (f"({' '.join(ps)} : PyVal) " if ps else "") + ": M PyVal :=\n"
                           f"  {n}__fuel{enva} (PyRt.fuelOf [{', '.join(ps)}])" + "".join(" " + q for q in ps))
            out.append("")
    out.append("/-- every translated function by name, for the `src.call` driver operation -/")
    out.append("def table : List (String × Nat × (List PyVal → M PyVal)) :=")
    rows = []
    for n in order:
        k = arities[n]
        if n in ctx.x7_clsmethods:               # x7: the `cls` parameter is dropped
            k -= 1
        if n in ctx.state_fns:                   # the tokenizer travels as the first argument and comes back with the result
            call = "PyTok.runWire (" + n + (" (PyRt.envOf e)" if n in ctx.uses_env else "") + (" (PyRt.oracleOf x)" if n in ctx.uses_ext else "") \
                + "".join(f" a{i}" for i in range(1, k)) + ") a0"
        else:
            call = n + (" (PyRt.envOf e)" if n in ctx.uses_env else "") + (" (PyRt.oracleOf x)" if n in ctx.uses_ext else "") \
                + "".join(f" a{i}" for i in range(k))
        if n in ctx.x9_sm:                       # x9: the message travels as argument `idx` and comes back with the result
            idx = ctx.x9_io_idx[n]
            call = "PyX9.runWireSM (" + n + (" (PyRt.envOf e)" if n in ctx.uses_env else "") + (" (PyRt.oracleOf x)" if n in ctx.uses_ext else "") \
                + "".join(f" a{i}" for i in range(k) if i != idx) + f") a{idx}"
        if n in ctx.x7_mx:                       # x7: an escaping exception object is answered as a value
            call = "PyX7.runX (" + call + ")"
        pats = ", ".join((["e"] if n in ctx.uses_env else []) + (["x"] if n in ctx.uses_ext else []) + [f"a{i}" for i in range(k)])
        kk = k + (1 if n in ctx.uses_env else 0) + (1 if n in ctx.uses_ext else 0)
        rows.append(f'  ("{n}", {kk}, fun (args : List PyVal) => (match args with | [{pats}] => {call} | _ => throw "PySrcArity" : M PyVal))')
    out.append("  [" + ",\n  ".join(r.strip() for r in rows) + "]")
    out.append("")
    out.append("end Gen.PySrc")
    return "\n".join(out) + "\n", info


@table("PySrc")
def _pysrc():
    src, info = generate()
    bad = {k: v["why"] for k, v in info.items() if not v["supported"]}
    meta = {"functions": len(info), "translated": sum(1 for v in info.values() if v["supported"])}
    meta["names"] = sorted(info)
    if bad:
        meta["untranslated"] = bad
    return src, meta
