"""token rules of _tokenizer.py used by the marker grammar, the `\\w` table and markers._operators (C07, C09)

Every rule the marker grammar asks for is re-read from ``DEFAULT_RULES`` on every run:

* finite-language rules (LEFT/RIGHT_PARENTHESIS, OP, BOOLOP, IN, NOT, VARIABLE) are emitted as
  ``(boundary-before, words in the regex engine's backtracking order, boundary-after)``;
* WS, QUOTED_STRING and END are checked to still have the shape the hand-written matcher mirrors
  (``[set]+``, ``q[^q]*q | …``, ``$``) and their character data is emitted;
* ``\\w`` (Unicode, as compiled by ``re.compile(str)``) is measured over all code points;
* ``markers._operators`` is emitted as key -> behaviour id (0 lt, 1 le, 2 eq, 3 ne, 4 ge, 5 gt, 6 in, 7 not in),
  the behaviour being identified by probing the callable, not by its name.
"""
import operator
import re
from re import _parser as P

from translate import Unsupported, lean_str, sweep, table

FIN = ["LEFT_PARENTHESIS", "RIGHT_PARENTHESIS", "OP", "BOOLOP", "IN", "NOT", "VARIABLE"]
LEAN_NAME = {"LEFT_PARENTHESIS": "rLparen", "RIGHT_PARENTHESIS": "rRparen", "OP": "rOp", "BOOLOP": "rBoolop",
             "IN": "rIn", "NOT": "rNot", "VARIABLE": "rVariable"}
MAX_WORDS = 200


def _chars(state, flags, op, av):
    _k, rs = sweep(state, flags, op, av)
    n = sum(hi - lo + 1 for lo, hi in rs)
    if n > 16:
        raise Unsupported("large character set in a finite rule")
    return [chr(c) for lo, hi in rs for c in range(lo, hi + 1)]


def _enum(items, state, flags):
    """words of a boundary-free, repetition-free pattern in backtracking (priority) order"""
    words = [""]
    for op, av in items:
        if op in (P.LITERAL, P.IN):
            nxt = _chars(state, flags, op, av)
        elif op is P.SUBPATTERN:
            _g, add, dele, body = av
            if add or dele:
                raise Unsupported("inline flags")
            nxt = _enum(body, state, flags)
        elif op is P.BRANCH:
            nxt = [w for b in av[1] for w in _enum(b, state, flags)]
        elif op in (P.MAX_REPEAT, P.MIN_REPEAT) and av[1] != P.MAXREPEAT and av[1] <= 4:
            # a bounded repeat (`x?`, `x{1,2}`): greedy tries one more copy before stopping, lazy the other way round
            lo, hi, body = av
            once = _enum(list(body), state, flags)

            def reps(k):
                more = [a + b for a in once for b in reps(k + 1)] if k < hi else []
                stop = [""] if k >= lo else []
                return more + stop if op is P.MAX_REPEAT else stop + more
            nxt = reps(0)
        else:
            raise Unsupported(f"construct {op} in a finite rule")
        words = [a + b for a in words for b in nxt]
        if len(words) > MAX_WORDS:
            raise Unsupported("too many words")
    return words


def _fin_rule(pat):
    tree = P.parse(pat.pattern, pat.flags)
    items = list(tree)
    if pat.flags & (re.IGNORECASE | re.MULTILINE | re.DOTALL | re.ASCII | re.LOCALE):
        raise Unsupported("flags")
    b_start = b_end = False
    if items and items[0] == (P.AT, P.AT_BOUNDARY):
        b_start, items = True, items[1:]
    if items and items[-1] == (P.AT, P.AT_BOUNDARY):
        b_end, items = True, items[:-1]
    words = _enum(items, tree.state, pat.flags)
    if not words or any(w == "" for w in words):
        raise Unsupported("empty word")
    return b_start, words, b_end


def _ws_rule(pat):
    tree = P.parse(pat.pattern, pat.flags)
    items = list(tree)
    if len(items) != 1 or items[0][0] is not P.MAX_REPEAT:
        raise Unsupported("WS is not a single repeat")
    lo, hi, body = items[0][1]
    body = list(body)
    if lo != 1 or hi != P.MAXREPEAT or len(body) != 1 or body[0][0] not in (P.IN, P.LITERAL):
        raise Unsupported("WS is not [set]+")
    return _chars(tree.state, pat.flags, *body[0])


def _quoted_rule(pat):
    """( q [^q]* q | q' [^q']* q' | ... )  ->  the quote characters in alternation order"""
    tree = P.parse(pat.pattern, pat.flags)
    if pat.flags & (re.IGNORECASE | re.MULTILINE | re.ASCII):
        raise Unsupported("flags")

    def strip(items):
        items = list(items)
        while len(items) == 1 and items[0][0] is P.SUBPATTERN:
            _g, add, dele, body = items[0][1]
            if add or dele:
                raise Unsupported("inline flags")
            items = list(body)
        return items

    items = strip(tree)
    if len(items) != 1 or items[0][0] is not P.BRANCH:
        raise Unsupported("QUOTED_STRING is not an alternation")
    quotes = []
    for b in items[0][1][1]:
        b = strip(b)
        if len(b) != 3 or b[0][0] is not P.LITERAL or b[2] != b[0] or b[1][0] is not P.MAX_REPEAT:
            raise Unsupported("QUOTED_STRING alternative is not q[^q]*q")
        lo, hi, body = b[1][1]
        body = list(body)
        if lo != 0 or hi != P.MAXREPEAT or body != [(P.NOT_LITERAL, b[0][1])]:
            raise Unsupported("QUOTED_STRING body is not [^q]*")
        # NOT_LITERAL q accepts every other code point (measured)
        _k, rs = sweep(tree.state, pat.flags, P.NOT_LITERAL, b[0][1])
        q = b[0][1]
        want = [r for r in ([0, q - 1], [q + 1, 0x10FFFF]) if r[0] <= r[1]]
        if rs != want:
            raise Unsupported("[^q] does not accept exactly the other code points")
        quotes.append(chr(q))
    return quotes


def _end_rule(pat):
    tree = P.parse(pat.pattern, pat.flags)
    if list(tree) != [(P.AT, P.AT_END)] or pat.flags & re.MULTILINE:
        raise Unsupported("END is not a bare $")


def _word_ranges():
    pat = re.compile(r"\w")           # same compilation path as Tokenizer.__init__ for str rules
    tree = P.parse(pat.pattern, pat.flags)
    (op, av), = list(tree)
    _k, rs = sweep(tree.state, pat.flags, op, av)
    ascii_r = [[lo, min(hi, 127)] for lo, hi in rs if lo < 128]
    other = [[max(lo, 128), hi] for lo, hi in rs if hi >= 128]
    return ascii_r, other


_PROBES = [("a", "b"), ("b", "a"), ("a", "a"), ("a", "ab"), ("ab", "a"), ("", "a"), ("B", "a"), ("a", "ba")]
_BEHAVIOUR = [operator.lt, operator.le, operator.eq, operator.ne, operator.ge, operator.gt,
              lambda l, r: l in r, lambda l, r: l not in r]


def _op_id(f):
    sig = [bool(f(l, r)) for l, r in _PROBES]
    ids = [i for i, g in enumerate(_BEHAVIOUR) if [bool(g(l, r)) for l, r in _PROBES] == sig]
    return ids[0] if len(ids) == 1 else 99


def _pairs(rs):
    return "[" + ", ".join(f"({lo}, {hi})" for lo, hi in rs) + "]"


def _words(ws):
    return "[" + ", ".join(lean_str(w) for w in ws) + "]"


@table("MarkerTok")
def _marker_tok():
    from packaging import _tokenizer, markers
    rules = {k: (v if isinstance(v, re.Pattern) else re.compile(v)) for k, v in _tokenizer.DEFAULT_RULES.items()}
    out = ["import PkgModel.Py",
           "/-! GENERATED by harness/translators/markers.py from the working tree — do not edit. -/",
           "namespace Gen.MarkerTok", "def supported : Bool := true"]
    info = {}
    for k in FIN:
        bs, words, be = _fin_rule(rules[k])
        out.append(f"def {LEAN_NAME[k]} : Bool × List (List Nat) × Bool := "
                   f"({str(bs).lower()}, {_words(words)}, {str(be).lower()})")
        info[k] = len(words)
    ws = _ws_rule(rules["WS"])
    out.append(f"def wsChars : List Nat := {lean_str(''.join(ws))}")
    qs = _quoted_rule(rules["QUOTED_STRING"])
    out.append(f"def quoteChars : List Nat := {lean_str(''.join(qs))}")
    _end_rule(rules["END"])
    a, o = _word_ranges()
    out.append(f"def asciiWord : List (Nat × Nat) := {_pairs(a)}")
    out.append(f"def nonAsciiWord : List (Nat × Nat) := {_pairs(o)}")
    info["word_ranges"] = len(a) + len(o)
    ops = [(k, _op_id(f)) for k, f in markers._operators.items()]
    out.append("def opTable : List (List Nat × Nat) := [" + ", ".join(f"({lean_str(k)}, {i})" for k, i in ops) + "]")
    info["operators"] = len(ops)
    out.append("end Gen.MarkerTok")
    return "\n".join(out) + "\n", info
