"""tables of utils.py / tags.py that the name and filename models depend on (C13, C14).

Everything is measured from the working tree of $VERIF_REPO and from the running interpreter:
* the separator set of ``_canonicalize_regex`` (atom swept over all code points),
* the character class of the inline project-name pattern in ``parse_wheel_filename`` (found in the AST of the
  function, compiled with the flags written there, atom swept),
* the ``\\d`` set of ``_build_tag_regex`` with the value ``int()`` gives each digit, and the complement of ``.``,
* ``str.lower`` per code point (non-ASCII entries only; U+03A3 gets its non-final form — see C13 ``partial``).
"""
import ast
import inspect
import re
import textwrap
from re import _parser as P

import translate as T
from translate import table


def _ranges_lean(rs):
    return "[" + ", ".join(f"({lo}, {hi})" for lo, hi in rs) + "]"


def _complement(rs):
    out, nxt = [], 0
    for lo, hi in rs:
        if lo > nxt:
            out.append((nxt, lo - 1))
        nxt = hi + 1
    if nxt <= 0x10FFFF:
        out.append((nxt, 0x10FFFF))
    return out


def _single_repeat(tree, lo_expected):
    """tree == [MAX_REPEAT(lo, inf, [one atom])] -> the atom"""
    items = list(tree)
    if len(items) != 1 or items[0][0] is not P.MAX_REPEAT:
        return None
    lo, hi, body = items[0][1]
    body = list(body)
    if lo != lo_expected or hi != P.MAXREPEAT or len(body) != 1:
        return None
    if body[0][0] not in (P.IN, P.LITERAL, P.ANY, P.NOT_LITERAL):
        return None
    return body[0]


def _group_body(item):
    if item[0] is not P.SUBPATTERN:
        return None
    _g, add, dele, body = item[1]
    if add or dele:
        return None
    return body


def _inline_name_pattern(utils):
    """the (pattern text, flags) of the ``re.match(<literal>, name_part, <flags>)`` call in parse_wheel_filename"""
    src = textwrap.dedent(inspect.getsource(utils.parse_wheel_filename))
    found = []
    for node in ast.walk(ast.parse(src)):
        if (isinstance(node, ast.Call) and isinstance(node.func, ast.Attribute) and node.func.attr in ("match", "fullmatch", "search")
                and isinstance(node.func.value, ast.Name) and node.func.value.id == "re"
                and node.args and isinstance(node.args[0], ast.Constant) and isinstance(node.args[0].value, str)):
            flags = 0
            extra = list(node.args[2:]) + [k.value for k in node.keywords if k.arg == "flags"]
            for f in extra:
                flags |= int(eval(compile(ast.Expression(f), "<flags>", "eval"), {"re": re}))
            found.append((node.func.attr, node.args[0].value, flags))
        # x8: the same test through a precompiled module-level pattern (`_name_re.fullmatch(x)` / `.match(x)`) other than the
        # patterns measured on their own (`MEASURED_GLOBALS`)
        if (isinstance(node, ast.Call) and isinstance(node.func, ast.Attribute) and node.func.attr in ("match", "fullmatch", "search")
                and isinstance(node.func.value, ast.Name) and node.func.value.id not in MEASURED_GLOBALS
                and isinstance(getattr(utils, node.func.value.id, None), re.Pattern) and len(node.args) == 1 and not node.keywords):
            c = getattr(utils, node.func.value.id)
            found.append((node.func.attr, c.pattern, c.flags))
    return found


# compiled patterns of utils.py that have a measurement / certificate of their own
MEASURED_GLOBALS = ("_canonicalize_regex", "_build_tag_regex", "_normalized_regex")


@table("NameTables")
def _name_tables():
    from packaging import utils
    info = {}
    # --- _canonicalize_regex : [-_.]+
    cr = utils._canonicalize_regex
    tree = P.parse(cr.pattern, cr.flags)
    atom = _single_repeat(tree, 1)
    canon_ok = atom is not None
    seps = []
    if canon_ok:
        _, rs = T.sweep(tree.state, cr.flags, *atom)
        seps = [cp for lo, hi in rs for cp in range(lo, hi + 1)] if sum(hi - lo + 1 for lo, hi in rs) <= 64 else []
        canon_ok = bool(seps)
    info["separators"] = seps
    # --- inline project-name pattern of parse_wheel_filename
    calls = _inline_name_pattern(utils)
    wn_ok, wn_ranges, wn_method, wn_dollar = False, [], "", True
    if len(calls) == 1:
        wn_method, pat, flags = calls[0]
        c = re.compile(pat, flags)
        tree = P.parse(c.pattern, c.flags)
        items = list(tree)
        if (len(items) == 3 and items[0] == (P.AT, P.AT_BEGINNING) and items[2] in ((P.AT, P.AT_END), (P.AT, P.AT_END_STRING))):
            wn_dollar = items[2] == (P.AT, P.AT_END)
            atom = _single_repeat([items[1]], 0)
            if atom is not None:
                _, wn_ranges = T.sweep(tree.state, c.flags, *atom)
                wn_ok = wn_method == "match"
        elif wn_method == "fullmatch" and not (c.flags & re.MULTILINE):
            # x8: `fullmatch` of `<atom>*` (anchors optional): the match has to end at the end of the string, so even a `$`
            # cannot stop before a trailing newline — the language is that of `^<atom>*\Z`
            core = list(items)
            if core and core[0] == (P.AT, P.AT_BEGINNING):
                core = core[1:]
            if core and core[-1] in ((P.AT, P.AT_END), (P.AT, P.AT_END_STRING)):
                core = core[:-1]
            atom = _single_repeat(core, 0) if len(core) == 1 else None
            if atom is not None:
                _, wn_ranges = T.sweep(tree.state, c.flags, *atom)
                wn_ok, wn_dollar = True, False
        info["wheel_name_pattern"] = pat
    # --- _build_tag_regex : (\d+)(.*)
    br = utils._build_tag_regex
    tree = P.parse(br.pattern, br.flags)
    items = list(tree)
    b_ok, digit_tab, nodot = False, [], []
    if len(items) == 2:
        g1, g2 = _group_body(items[0]), _group_body(items[1])
        a1 = _single_repeat(g1, 1) if g1 is not None else None
        a2 = _single_repeat(g2, 0) if g2 is not None else None
        if a1 is not None and a2 is not None:
            _, drs = T.sweep(tree.state, br.flags, *a1)
            _, anys = T.sweep(tree.state, br.flags, *a2)
            nodot = _complement(anys)
            b_ok = True
            for lo, hi in drs:
                start = lo
                for cp in range(lo, hi + 2):
                    # split where the int() value stops following (v0 + offset) mod 10
                    if cp == hi + 1 or int(chr(cp)) != (int(chr(start)) + cp - start) % 10:
                        digit_tab.append((start, cp - 1, int(chr(start))))
                        start = cp
    info["digit_ranges"] = len(digit_tab)
    # --- str.lower per code point
    single, special = [], []
    for cp in range(128, 0x110000):
        if 0xD800 <= cp <= 0xDFFF:
            continue
        l = chr(cp).lower()
        if l != chr(cp):
            if len(l) == 1:
                single.append((cp, ord(l)))
            else:
                special.append((cp, [ord(x) for x in l]))
    # arithmetic runs: (lo, hi, step, target of lo); cp in lo..hi with (cp-lo) % step == 0 maps to target + (cp-lo)
    runs = []
    for cp, t in single:
        if runs:
            lo, hi, step, tlo = runs[-1]
            if t - cp == tlo - lo and ((step == 0 and cp - hi in (1, 2)) or (step and cp - hi == step)):
                runs[-1] = (lo, cp, cp - hi if step == 0 else step, tlo)
                continue
        runs.append((cp, cp, 0, t))
    runs = [(lo, hi, step or 1, tlo) for lo, hi, step, tlo in runs]
    # self-check of the compression against the interpreter
    chk = {}
    for lo, hi, step, tlo in runs:
        for cp in range(lo, hi + 1, step):
            chk[cp] = tlo + cp - lo
    assert chk == dict(single), "lower-table compression is wrong"
    info["lower_entries"] = len(single) + len(special)
    info["lower_runs"] = len(runs)
    # balanced search tree over the (disjoint, sorted) runs
    assert all(a[1] < b[0] for a, b in zip(runs, runs[1:])), "lower-case runs overlap"

    def tree(lo_i, hi_i):
        if lo_i >= hi_i:
            return ".leaf"
        m = (lo_i + hi_i) // 2
        lo, hi, step, tlo = runs[m]
        return f"(.node {tree(lo_i, m)} {lo} {hi} {step} {tlo} {tree(m + 1, hi_i)})"

    def find(cp):
        a, b = 0, len(runs)
        while a < b:
            m = (a + b) // 2
            lo, hi, step, tlo = runs[m]
            if cp < lo:
                b = m
            elif cp > hi:
                a = m + 1
            else:
                return tlo + cp - lo if (cp - lo) % step == 0 else None
        return None
    probe = set()
    for cp, t in single:
        probe.update((cp - 1, cp, cp + 1, t))
    for cp in probe:
        if cp >= 128 and not 0xD800 <= cp <= 0xDFFF:
            want = chr(cp).lower()
            got = find(cp)
            assert (chr(got) if got is not None else (want if len(want) > 1 else chr(cp))) == want, f"lower tree wrong at {cp:#x}"
    b = lambda x: "true" if x else "false"
    src = f"""import PkgModel.RunTree
/-! GENERATED by harness/translators/names.py from the working tree and the running interpreter — do not edit. -/
namespace Gen.NameTables
/-- `_canonicalize_regex` is `<one atom>+`; these are the code points the atom accepts -/
def canonStructureOk : Bool := {b(canon_ok)}
def separators : List Nat := {seps}
/-- the inline pattern of `parse_wheel_filename` is `^<one atom>*$` used with `re.match`; ranges of the atom -/
def wheelNameStructureOk : Bool := {b(wn_ok)}
/-- the end anchor is `$` (also matches before one trailing newline) rather than `\\Z` -/
def wheelNameDollar : Bool := {b(wn_dollar)}
def wheelNameRanges : List (Nat × Nat) := {_ranges_lean(wn_ranges)}
/-- `_build_tag_regex` is `(<atom>+)(<atom>*)`: `(lo, hi, v)` — code points `lo..hi` are accepted by the first atom and
`int()` maps `cp` to `(v + cp - lo) % 10`; `notDot`: code points the second atom rejects -/
def buildStructureOk : Bool := {b(b_ok)}
def digitTable : List (Nat × Nat × Nat) := [{", ".join(f"({lo}, {hi}, {v})" for lo, hi, v in digit_tab)}]
def notDot : List (Nat × Nat) := {_ranges_lean(nodot)}
/-- `chr(cp).lower()` for every non-ASCII code point it changes: `(lo, hi, step, t)` — code points `cp` in `lo..hi` with
`(cp - lo) % step = 0` lower to the single code point `t + (cp - lo)` (runs are disjoint; stored as a search tree);
`lowerSpecial`: the multi-character cases -/
def lowerTree : Py.RunTree := {tree(0, len(runs))}
def lowerSpecial : List (Nat × List Nat) := [{", ".join(f"({cp}, {l})" for cp, l in special)}]
end Gen.NameTables
"""
    return src, info
