"""regexes of version.py / specifiers.py / utils.py (C12, C13)"""
import kinds as K
from translate import regex_source


@regex_source("VersionRx")
def _version():
    from packaging import version
    return version.Version._regex, K.kind_ci


@regex_source("SpecifierRx")
def _specifier():
    from packaging import specifiers
    return specifiers.Specifier._regex, K.kind_ci


@regex_source("NameValidRx")
def _name_valid():
    from packaging import utils
    return utils._validate_regex, K.kind_cs


@regex_source("NormalizedRx")
def _name_normalized():
    from packaging import utils
    return utils._normalized_regex, K.kind_cs
