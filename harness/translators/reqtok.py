"""token rules of _tokenizer.py that the *requirement* grammar uses beyond the marker ones (C08)

Re-read from ``DEFAULT_RULES`` on every run:

* LEFT_BRACKET, RIGHT_BRACKET, SEMICOLON, COMMA, AT, VERSION_PREFIX_TRAIL are finite-language rules, emitted like the
  marker ones as ``(boundary-before, words in backtracking order, boundary-after)``;
* URL must have the shape ``[^set]+``: the excluded code points are emitted (measured);
* IDENTIFIER must have the shape ``\\b[head][tail]*\\b``: the two measured sets are emitted as ranges;
* VERSION_LOCAL_LABEL_TRAIL must have the shape ``c[set]+(?:[seps][set]+)*``: lead character, set, separators;
* SPECIFIER: the operator alternation (in the engine's order), and for each of the alternatives of the version group
  its look-behind guard and a *shape descriptor* obtained by matching the parse tree against the template the
  hand-written prefix scanner ``Req.verForm`` mirrors (white space, ``v?``, epoch, release with its minimal number of
  ``.N`` repetitions, optional ``.*`` alternative, pre/post/dev keyword lists in alternation order, optional local
  label).  Every character set in the template is measured and compared with what the scanner uses; any deviation
  is ``Unsupported`` (the generated file then says ``supported := false`` and the theorem that reads it fails).
  ``specTied`` records that the rule is literally the body of ``Specifier._regex`` (the pattern C12 proves equal to
  the PEP 440 clause language) without its ``^\\s*`` … ``\\s*$`` frame, compiled with the same flags.
"""
import re
from re import _parser as P

import translate as T
from translate import Unsupported, lean_str, sweep, table
from translators.markers import _fin_rule, _pairs, _words

FIN = {"LEFT_BRACKET": "rLbracket", "RIGHT_BRACKET": "rRbracket", "SEMICOLON": "rSemicolon", "COMMA": "rComma",
       "AT": "rAt", "VERSION_PREFIX_TRAIL": "rPrefixTrail"}

WS = [[9, 13], [32, 32]]
DIGIT = [[48, 57]]
SEP = [[45, 46], [95, 95]]
ALNUM_CI = [[48, 57], [65, 90], [97, 122]]


def _no_flags(pat):
    if pat.flags & (re.IGNORECASE | re.MULTILINE | re.DOTALL | re.ASCII | re.LOCALE | re.VERBOSE):
        raise Unsupported("flags")


def _set_of(tree, pat, item):
    op, av = item
    if op not in (P.IN, P.LITERAL, P.NOT_LITERAL):
        raise Unsupported(f"expected a character set, found {op}")
    return sweep(tree.state, pat.flags, op, av)[1]


def _url_rule(pat):
    _no_flags(pat)
    tree = P.parse(pat.pattern, pat.flags)
    items = list(tree)
    if len(items) != 1 or items[0][0] is not P.MAX_REPEAT:
        raise Unsupported("URL is not a single repeat")
    lo, hi, body = items[0][1]
    body = list(body)
    if lo != 1 or hi != P.MAXREPEAT or len(body) != 1:
        raise Unsupported("URL is not [^set]+")
    rs = _set_of(tree, pat, body[0])
    excluded = []
    prev = 0
    for a, b in rs + [[0x110000, 0x110000]]:
        excluded += list(range(prev, a))
        prev = b + 1
        if len(excluded) > 16:
            raise Unsupported("URL excludes a large set")
    return excluded


def _ident_rule(pat):
    _no_flags(pat)
    tree = P.parse(pat.pattern, pat.flags)
    items = list(tree)
    if len(items) != 4 or items[0] != (P.AT, P.AT_BOUNDARY) or items[3] != (P.AT, P.AT_BOUNDARY) or items[2][0] is not P.MAX_REPEAT:
        raise Unsupported("IDENTIFIER is not \\b[head][tail]*\\b")
    lo, hi, body = items[2][1]
    body = list(body)
    if lo != 0 or hi != P.MAXREPEAT or len(body) != 1:
        raise Unsupported("IDENTIFIER tail is not [set]*")
    head, tail = _set_of(tree, pat, items[1]), _set_of(tree, pat, body[0])
    if any(b >= 128 for _a, b in head + tail):
        raise Unsupported("IDENTIFIER sets are not ASCII")
    return head, tail


def _local_trail_rule(pat):
    _no_flags(pat)
    tree = P.parse(pat.pattern, pat.flags)
    items = list(tree)
    if len(items) != 3 or items[0][0] is not P.LITERAL or items[1][0] is not P.MAX_REPEAT or items[2][0] is not P.MAX_REPEAT:
        raise Unsupported("VERSION_LOCAL_LABEL_TRAIL is not c[set]+(...)*")
    lo, hi, body = items[1][1]
    body = list(body)
    if lo != 1 or hi != P.MAXREPEAT or len(body) != 1:
        raise Unsupported("local label: first segment is not [set]+")
    chars = _set_of(tree, pat, body[0])
    lo, hi, grp = items[2][1]
    grp = list(grp)
    if len(grp) == 1 and grp[0][0] is P.SUBPATTERN:
        grp = list(grp[0][1][3])
    if lo != 0 or hi != P.MAXREPEAT or len(grp) != 2 or grp[1][0] is not P.MAX_REPEAT:
        raise Unsupported("local label: tail is not ([seps][set]+)*")
    lo2, hi2, body2 = grp[1][1]
    body2 = list(body2)
    if lo2 != 1 or hi2 != P.MAXREPEAT or len(body2) != 1 or _set_of(tree, pat, body2[0]) != chars:
        raise Unsupported("local label: segments differ")
    seps = _set_of(tree, pat, grp[0])
    return items[0][1], chars, seps


# ---------------------------------------------------------------- SPECIFIER
def _flat(ir):
    out = []
    for n in ir:
        if n[0] == "seq":
            out.extend(_flat(n[1]))
        else:
            out.append(n)
    return out


class _Shape:
    """matches the IR of one alternative of the version group against the scanner's template"""

    def __init__(self, atoms):
        self.atoms = atoms

    def set(self, n, want, what):
        if n[0] != "atom" or self.atoms[n[1]] != want:
            raise Unsupported(f"SPECIFIER: {what} is not the expected set")

    def rep(self, n, lo, hi, what):
        if n[0] != "rep" or n[1] != lo or n[2] != hi:
            raise Unsupported(f"SPECIFIER: {what} is not a {{{lo},{hi}}} repeat")
        return _flat(n[3])

    def letter(self, n):
        rs = self.atoms[n[1]] if n[0] == "atom" else None
        if not rs or len(rs) != 2 or rs[0][0] != rs[0][1] or rs[1][0] != rs[1][1] or rs[0][0] + 32 != rs[1][0] \
                or not 65 <= rs[0][0] <= 90:
            raise Unsupported("SPECIFIER: keyword letter is not an ASCII case pair")
        return chr(rs[1][0])

    def word(self, branch):
        return "".join(self.letter(n) for n in _flat(branch))

    def kws(self, n):
        if n[0] == "alt":
            ws = [self.word(b) for b in n[1]]
            for ref in ("pre-keywords", "post-keywords"):                     # x4: canonical order of the keyword alternation
                ws = [ws[i] for i in T.canonical_word_order(ws, T.REFERENCE_WORD_ORDER[ref])]
            return ws
        raise Unsupported("SPECIFIER: keyword alternation expected")

    def opt_sep(self, n):
        b = self.rep(n, 0, 1, "separator")
        if len(b) != 1:
            raise Unsupported("SPECIFIER: separator")
        self.set(b[0], SEP, "separator")

    def digits(self, n, lo):
        b = self.rep(n, lo, P.MAXREPEAT, "digits")
        if len(b) != 1:
            raise Unsupported("SPECIFIER: digits")
        self.set(b[0], DIGIT, "digit")

    def letter_group(self, items, fixed=None):
        """[sep? KW sep? digit*] -> keyword list"""
        if fixed is None:
            if len(items) != 4:
                raise Unsupported("SPECIFIER: letter group")
            self.opt_sep(items[0]); k = self.kws(items[1]); self.opt_sep(items[2]); self.digits(items[3], 0)
            return k
        # a single literal keyword is a run of letter atoms
        if len(items) != 3 + len(fixed):
            raise Unsupported("SPECIFIER: dev group")
        self.opt_sep(items[0])
        w = "".join(self.letter(n) for n in items[1:1 + len(fixed)])
        self.opt_sep(items[-2]); self.digits(items[-1], 0)
        return [w]

    def suffixes(self, items, with_local):
        """pre? post? dev? (local?) -> (pre kws, post kws, dev kws)"""
        if len(items) != (4 if with_local else 3):
            raise Unsupported("SPECIFIER: suffix groups")
        pre = self.letter_group(self.rep(items[0], 0, 1, "pre group"))
        post = self.rep(items[1], 0, 1, "post group")
        if len(post) != 1 or post[0][0] != "alt" or len(post[0][1]) != 2:
            raise Unsupported("SPECIFIER: post group is not -N | spelled")
        implicit = _flat(post[0][1][0])
        if len(implicit) != 2:
            raise Unsupported("SPECIFIER: implicit post")
        self.set(implicit[0], [[45, 45]], "implicit post dash"); self.digits(implicit[1], 1)
        postk = self.letter_group(_flat(post[0][1][1]))
        dev = self.letter_group(self.rep(items[2], 0, 1, "dev group"), fixed="dev")
        if with_local:
            loc = self.rep(items[3], 0, 1, "local group")
            if len(loc) != 3:
                raise Unsupported("SPECIFIER: local group")
            self.set(loc[0], [[43, 43]], "plus")
            b = self.rep(loc[1], 1, P.MAXREPEAT, "local segment")
            if len(b) != 1:
                raise Unsupported("SPECIFIER: local segment")
            self.set(b[0], ALNUM_CI, "local character")
            t = self.rep(loc[2], 0, P.MAXREPEAT, "local tail")
            if len(t) != 2:
                raise Unsupported("SPECIFIER: local tail")
            self.set(t[0], SEP, "local separator")
            b = self.rep(t[1], 1, P.MAXREPEAT, "local segment")
            if len(b) != 1:
                raise Unsupported("SPECIFIER: local segment")
            self.set(b[0], ALNUM_CI, "local character")
        return pre, postk, dev

    def alternative(self, items):
        """-> (positive, literals, descriptor)"""
        items = _flat(items)
        if not items or items[0][0] != "lookbehind":
            raise Unsupported("SPECIFIER: alternative without a look-behind guard")
        _, positive, lits = items[0]
        items = items[1:]
        b = self.rep(items[0], 0, P.MAXREPEAT, "leading white space")
        if len(b) != 1:
            raise Unsupported("SPECIFIER: leading white space")
        self.set(b[0], WS, "white space")
        if len(items) == 2:                    # arbitrary: \s* [^\s;)]*
            b = self.rep(items[1], 0, P.MAXREPEAT, "arbitrary text")
            if len(b) != 1 or b[0][0] != "atom":
                raise Unsupported("SPECIFIER: arbitrary text")
            rs = self.atoms[b[0][1]]
            want = [[0, 8], [14, 31], [33, 40], [42, 58], [60, 0x10FFFF]]
            if rs != want:
                raise Unsupported("SPECIFIER: arbitrary text is not [^\\s;)]*")
            return positive, lits, ("arb",)
        if len(items) < 5:
            raise Unsupported("SPECIFIER: version alternative too short")
        v = self.rep(items[1], 0, 1, "v?")
        if len(v) != 1 or self.letter(v[0]) != "v":
            raise Unsupported("SPECIFIER: v?")
        ep = self.rep(items[2], 0, 1, "epoch")
        if len(ep) != 2:
            raise Unsupported("SPECIFIER: epoch")
        self.digits(ep[0], 1); self.set(ep[1], [[33, 33]], "epoch '!'")
        self.digits(items[3], 1)
        if items[4][0] != "rep" or items[4][1] not in (0, 1) or items[4][2] != P.MAXREPEAT:
            raise Unsupported("SPECIFIER: release tail")
        minrel = items[4][1]
        rt = _flat(items[4][3])
        if len(rt) != 2:
            raise Unsupported("SPECIFIER: release tail body")
        self.set(rt[0], [[46, 46]], "release dot"); self.digits(rt[1], 1)
        rest = items[5:]
        if len(rest) == 1 and rest[0][0] == "rep" and (rest[0][1], rest[0][2]) == (0, 1):
            inner = _flat(rest[0][3])
            if len(inner) == 1 and inner[0][0] == "alt" and len(inner[0][1]) == 2:
                wild = _flat(inner[0][1][0])
                if len(wild) != 2:
                    raise Unsupported("SPECIFIER: wildcard alternative")
                self.set(wild[0], [[46, 46]], "wildcard dot"); self.set(wild[1], [[42, 42]], "wildcard star")
                pre, post, dev = self.suffixes(_flat(inner[0][1][1]), True)
                return positive, lits, ("ver", minrel, True, True, pre, post, dev)
        pre, post, dev = self.suffixes(rest, False)
        return positive, lits, ("ver", minrel, False, False, pre, post, dev)


def _specifier_rule(pat, spec_cls):
    tree = P.parse(pat.pattern, pat.flags)
    atoms = {}
    ir = _flat(T.walk(tree, tree.state, pat.flags, atoms))
    if len(ir) != 2 or ir[0][0] != "alt" or ir[1][0] != "alt":
        raise Unsupported("SPECIFIER is not (operators)(version alternatives)")
    ops = []
    for b in ir[0][1]:
        w = ""
        for n in _flat(b):
            rs = atoms[n[1]] if n[0] == "atom" else None
            if not rs or len(rs) != 1 or rs[0][0] != rs[0][1]:
                raise Unsupported("operator atom is not a single character")
            w += chr(rs[0][0])
        ops.append(w)
    ops = [ops[i] for i in T.canonical_word_order(ops, T.REFERENCE_WORD_ORDER["specifier-operators"])]      # x4
    sh = _Shape(atoms)
    alts = [sh.alternative(b) for b in ir[1][1]]
    kw = None
    for _p, _l, d in alts:
        if d[0] == "ver":
            if kw is None:
                kw = d[4:]
            elif kw != d[4:]:
                raise Unsupported("SPECIFIER: keyword lists differ between alternatives")
    if kw is None:
        raise Unsupported("SPECIFIER: no version alternative")
    # the rule is the body of Specifier._regex, same flags
    full = spec_cls._regex
    tied = (full.pattern == r"^\s*" + pat.pattern + r"\s*$" and full.flags == pat.flags
            and pat.pattern == spec_cls._operator_regex_str + spec_cls._version_regex_str)
    return ops, alts, kw, tied


def _form(positive, lits, d):
    g = f"({str(bool(positive)).lower()}, {_words(lits)})"
    if d[0] == "arb":
        return f"({g}, none)"
    return f"({g}, some ({d[1]}, {str(d[2]).lower()}, {str(d[3]).lower()}))"


@table("ReqTok")
def _req_tok():
    from packaging import _tokenizer
    from packaging.specifiers import Specifier
    rules = {k: (v if isinstance(v, re.Pattern) else re.compile(v)) for k, v in _tokenizer.DEFAULT_RULES.items()}
    out = ["import PkgModel.Py",
           "/-! GENERATED by harness/translators/reqtok.py from the working tree — do not edit. -/",
           "namespace Gen.ReqTok", "def supported : Bool := true"]
    info = {}
    for k, name in FIN.items():
        bs, words, be = _fin_rule(rules[k])
        out.append(f"def {name} : Bool × List (List Nat) × Bool := ({str(bs).lower()}, {_words(words)}, {str(be).lower()})")
    ex = _url_rule(rules["URL"])
    out.append(f"def urlExcluded : List Nat := [{', '.join(map(str, ex))}]")
    head, tail = _ident_rule(rules["IDENTIFIER"])
    out.append(f"def identHead : List (Nat × Nat) := {_pairs(head)}")
    out.append(f"def identTail : List (Nat × Nat) := {_pairs(tail)}")
    lead, chars, seps = _local_trail_rule(rules["VERSION_LOCAL_LABEL_TRAIL"])
    out.append(f"def localLead : Nat := {lead}")
    out.append(f"def localChars : List (Nat × Nat) := {_pairs(chars)}")
    out.append(f"def localSeps : List (Nat × Nat) := {_pairs(seps)}")
    ops, alts, kw, tied = _specifier_rule(rules["SPECIFIER"], Specifier)
    out.append(f"def specOps : List (List Nat) := {_words(ops)}")
    out.append("/-- per alternative of the version group: (look-behind is positive, its literals), and `none` for the\n"
               "arbitrary form `\\s*[^\\s;)]*` or `some (minimal number of .N repetitions, has the .* alternative, has a local label)` -/")
    out.append("def specForms : List ((Bool × List (List Nat)) × Option (Nat × Bool × Bool)) := ["
               + ", ".join(_form(*a) for a in alts) + "]")
    out.append(f"def specPreKws : List (List Nat) := {_words(kw[0])}")
    out.append(f"def specPostKws : List (List Nat) := {_words(kw[1])}")
    out.append(f"def specDevKws : List (List Nat) := {_words(kw[2])}")
    out.append(f"def specTied : Bool := {str(bool(tied)).lower()}")
    out.append("end Gen.ReqTok")
    info.update({"operators": len(ops), "alternatives": len(alts), "tied_to_Specifier_regex": bool(tied),
                 "ident_ranges": len(head) + len(tail)})
    return "\n".join(out) + "\n", info
