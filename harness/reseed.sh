#!/bin/sh
# reseed.sh [name…] : re-run every kept seeded change (or the named ones) against the current machinery.
# For each: apply seeded/<name>/patch.diff to /repo, run the quick checks recorded for it (check_*.txt files),
# expect a VIOLATION, undo.  Prints one line per change; evidence of these runs is not kept.
set -u
R=${VERIF_REPO:-/repo}
here=$(cd "$(dirname "$0")/.." && pwd)
cd "$here"
names="$@"; [ -z "$names" ] && names=$(ls seeded)
git -C $R diff --quiet || { echo "/repo is dirty, refusing"; exit 2; }
L=${RESEED_LOGDIR:-/root/work}; mkdir -p "$L"   # per-check logs (override with RESEED_LOGDIR)
B=$(mktemp -d /root/work/evbak.XXXX); cp evidence/*.json $B/
for n in $names; do
  d="$here/seeded/$n"
  [ -f "$d/patch.diff" ] || continue
  if ! git -C $R apply --check "$d/patch.diff" 2>/dev/null; then
    if git -C $R apply --3way "$d/patch.diff" >/dev/null 2>&1; then git -C $R reset -q; how=3way; else echo "$n NOAPPLY"; git -C $R reset -q --hard HEAD; continue; fi
  else git -C $R apply "$d/patch.diff"; how=ok; fi
  res=""
  for c in "$d"/check_*.txt; do
    p=$(basename "$c" .txt | cut -d_ -f2)
    ./check "$p" quick > $L/reseed_${n}_${p}.log 2>&1; rc=$?
    v=$(grep -c '^VIOLATION' $L/reseed_${n}_${p}.log)
    nf=$(grep -c 'no-failing-input-found' $L/reseed_${n}_${p}.log)
    res="$res $p:rc=$rc,viol=$v,nofail=$nf"
  done
  echo "$n [$how]$res"
  git -C $R reset -q --hard HEAD
  /venv/bin/python harness/translate.py --all > /dev/null 2>&1      # no generated input of this change may leak into the next
done
cp $B/*.json evidence/; rm -rf $B
/venv/bin/python harness/translate.py --all > /dev/null 2>&1
