"""Structured generator of specifier-clause multisets, set descriptors and candidate lists (C05, C06).

A *clause structure* is JSON: ``[op, version-structure, wildcard]`` (see gen/specifiers.py) or
``["raw", text]`` for an arbitrary-equality clause whose text is not a version (``===foo``, ``===1,0``).
"""
from __future__ import annotations

from gen import specifiers as GS
from gen import versions as GV

OVS = [None, True, False]
RAW_ARBITRARY = ["===foo", "===1,0", "===1.0,<2", "=== 1.0a1", "===1.0A1", "===1.0-", "===,", "====1", "===*"]


def norm_v(v):
    v = dict(v)
    if v.get("pre"):
        v["pre"] = (v["pre"][0], v["pre"][1])
    return v


def norm_clause(c):
    if c[0] == "raw":
        return ("raw", c[1])
    return (c[0], norm_v(c[1]), bool(c[2]))


def spell_clause(rng, c, *, plain=False, ws=True):
    c = norm_clause(c)
    if c[0] == "raw":
        return c[1]
    return GS.spell_clause(rng, c, plain=plain, ws=ws)


def names_prerelease(c):
    """does the clause 'itself name a pre-release' (statement of C06)?  None = not decidable from the structure"""
    c = norm_clause(c)
    if c[0] == "raw":
        return None
    op, v, _ = c
    if op == "!=":
        return False
    return bool(v["pre"]) or v["dev"] is not None


def variant(rng, c):
    """a clause equal to ``c`` as a Specifier (``==1.0`` / ``==1.0.0``) or at least about the same version"""
    c = norm_clause(c)
    if c[0] == "raw":
        return c
    op, v, wc = c
    v = dict(v)
    k = rng.randrange(4)
    if k == 0:
        v["release"] = list(v["release"]) + [0] * rng.choice([1, 2])       # trailing zeros
    elif k == 1 and len(v["release"]) > 1 and v["release"][-1] == 0 and not (op == "~=" and len(v["release"]) == 2):
        v["release"] = list(v["release"])[:-1]
    # k >= 2: same structure, other spelling (decided by the spelling seed)
    return (op, v, wc)


def clause_structs(rng, near, *, nmax=6, raw=0.04):
    """0..nmax clause structures around ``near`` with duplicates and equal-but-differently-spelled members"""
    n = rng.choice([0, 1, 1, 2, 2, 2, 3, 3, 4, 5, nmax])
    out = []
    while len(out) < n:
        r = rng.random()
        if out and r < 0.3:
            out.append(variant(rng, rng.choice(out)))
        elif r < 0.3 + raw:
            out.append(("raw", rng.choice(RAW_ARBITRARY)))
        else:
            out.append(GS.clause_struct(rng, near=near))
    rng.shuffle(out)
    return out


def satisfiable_structs(rng, near, cand_struct, accepts, *, nmax=6):
    """like clause_structs but biased towards clauses the candidate satisfies (``accepts(clause_struct)``)"""
    out = []
    n = rng.choice([1, 2, 2, 3, 3, 4, 5, nmax])
    tries = 0
    while len(out) < n and tries < 60:
        tries += 1
        c = variant(rng, rng.choice(out)) if (out and rng.random() < 0.3) else GS.clause_struct(rng, near=near)
        try:
            good = accepts(c)
        except Exception:
            good = False
        if good or rng.random() < 0.08:
            out.append(c)
    rng.shuffle(out)
    return out


def join_clauses(rng, spelled):
    """a SpecifierSet string: clauses in the given order, random spacing, empty clauses, trailing commas"""
    parts = []
    for s in spelled:
        if rng.random() < 0.08:
            parts.append(rng.choice(["", " ", "\t"]))
        parts.append(rng.choice(["", "", " ", "  "]) + s + rng.choice(["", "", " ", "\t "]))
    if rng.random() < 0.08:
        parts.append("")
    return ",".join(parts)


def candidates(rng, near, *, nmax=7, finals=None):
    """candidate version structures around ``near``; ``finals`` True/False forces presence/absence of final releases"""
    n = rng.randrange(0, nmax + 1)
    out = []
    for _ in range(n):
        v = GV.neighbour(rng, near) if rng.random() < 0.75 else GV.struct(rng)
        v = dict(v)
        r = rng.random()
        if finals is False or (finals is None and r < 0.35):
            if not v["pre"] and v["dev"] is None:
                if rng.random() < 0.5:
                    v["pre"] = (rng.choice(["a", "b", "rc"]), GV.num(rng))
                else:
                    v["dev"] = GV.num(rng)
        elif finals is True and r < 0.5:
            v["pre"] = None; v["dev"] = None
        out.append(v)
    if finals is True and not any((not v["pre"] and v["dev"] is None) for v in out):
        v = dict(GV.neighbour(rng, near)); v["pre"] = None; v["dev"] = None
        out.append(v)
    rng.shuffle(out)
    return out


def is_pre(v):
    return bool(v["pre"]) or v["dev"] is not None
