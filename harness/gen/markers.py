"""Marker formulas: generator, renderer (layouts), independent reference parser and evaluator (C07, C09).

A *tree* is JSON: ["atom", lhs, op, rhs] with operands ["var", canonical_name] / ["lit", text],
["and", l, r], ["or", l, r].  ``render(tree, rng)`` spells it with random white space, quote style,
PEP 345 variable spellings and redundant parentheses; ``ref_parse`` is a small precedence parser
written from the PEP 508 grammar (independent of packaging's tokenizer/parser); ``ref_eval`` evaluates
a tree per the property statement.
"""
from __future__ import annotations

import re

VARS = ["python_version", "python_full_version", "os_name", "sys_platform", "platform_release",
        "platform_system", "platform_version", "platform_machine", "platform_python_implementation",
        "implementation_name", "implementation_version", "extra"]
SPELLINGS = {
    "os_name": ["os_name", "os.name"],
    "sys_platform": ["sys_platform", "sys.platform"],
    "platform_version": ["platform_version", "platform.version"],
    "platform_machine": ["platform_machine", "platform.machine"],
    "platform_python_implementation": ["platform_python_implementation", "platform.python_implementation",
                                       "python_implementation"],
}
CANON_OF = {sp: v for v in VARS for sp in SPELLINGS.get(v, [v])}
OPS = ["==", "!=", "<", "<=", ">", ">=", "~=", "===", "in", "not in"]
# PEP 508 python_str_c without the quotes
PEP508_CHARS = ("abcdefghijklmnopqrstuvwxyzABCDEFGHIJKLMNOPQRSTUVWXYZ0123456789"
                " \t().{}-_*#:;,/?[]!~`@$%^&=+|<>")
VERSIONY = ["3.8", "3.10", "2.7", "3", "3.8.1", "1.0", "1.0.0", "2.7.0rc1", "1.0+local", "3.8.*", "3.12.0+",
            "1.0.post1", "1!2.0", "v1.0", "1.0a1", "3.9.0.dev0", "0", "10", " 1.0", "1.0 "]
NAMEY = ["posix", "nt", "linux", "win32", "darwin", "CPython", "PyPy", "cpython", "x86_64", "Linux", "Windows",
         "#1 SMP; [x]", "5.10.0-foo", "", "a", "b", "ab", "ba", "A", "test", "Foo_Bar", "foo-bar", "foo.bar",
         "FOO--BAR", "foo_bar", "x(y)", "a b", "it's", 'say "hi"', "a;b", "[dev]", "and", "or", "in", "os_name",
         # literals spelled like variable names (a literal is never a variable, whatever its text)
         "extra", "extra", "python_version", "Extra", "os.name", "platform_machine"]


class OutOfDomain(Exception):
    """the reference parser does not cover this text (not a verdict)"""


class Reject(Exception):
    """not a marker by the PEP 508 grammar"""


# ---------------------------------------------------------------- generation
def literal(rng, pool):
    r = rng.random()
    if r < 0.55:
        return rng.choice(pool)
    if r < 0.7:
        return rng.choice(VERSIONY)
    if r < 0.85:
        return rng.choice(NAMEY)
    q = rng.choice(["'", '"', ""])
    alphabet = PEP508_CHARS + q * 4
    return "".join(rng.choice(alphabet) for _ in range(rng.randrange(0, 7)))


def make_pool(rng):
    """a few strings shared by literals and environment values, so that comparisons are not all false"""
    pool = [rng.choice(VERSIONY) for _ in range(2)] + [rng.choice(NAMEY) for _ in range(3)]
    return pool


def atom(rng, pool, p_odd=0.06):
    var = rng.choice(VARS) if rng.random() < 0.75 else rng.choice(["extra", "python_version", "os_name"])
    op = rng.choice(OPS)
    lit = literal(rng, pool)
    r = rng.random()
    if r < p_odd / 2:
        return ["atom", ["var", var], op, ["var", rng.choice(VARS)]]
    if r < p_odd:
        return ["atom", ["lit", lit], op, ["lit", literal(rng, pool)]]
    if rng.random() < 0.6:
        return ["atom", ["var", var], op, ["lit", lit]]
    return ["atom", ["lit", lit], op, ["var", var]]


def formula(rng, pool, depth=None, p_odd=0.06):
    if depth is None:
        depth = rng.choice([0, 1, 1, 2, 2, 3, 3, 4, 5, 6])
    if depth == 0 or rng.random() < 0.15:
        return atom(rng, pool, p_odd)
    if rng.random() < 0.35:
        # flat mixed chain  a or b and c or d …
        n = rng.randrange(2, 6)
        t = atom(rng, pool, p_odd)
        for _ in range(n):
            op = rng.choice(["and", "or"])
            t = [op, t, formula(rng, pool, max(0, depth - 2), p_odd)]
        return t
    op = rng.choice(["and", "or"])
    return [op, formula(rng, pool, depth - 1, p_odd), formula(rng, pool, rng.randrange(0, depth), p_odd)]


def atoms_of(t):
    if t[0] == "atom":
        return [t]
    return [a for c in t[1:] for a in atoms_of(c)]


def environment(rng, pool, tree=None):
    """supplied mapping (or None): version-like and non-version-like values for the variables,
    extra needing normalisation / None / absent, python_full_version ending in '+'"""
    if rng.random() < 0.05:
        return None
    env = {}
    complete = rng.random() < 0.15        # every variable supplied: nothing is left to the detected values
    for v in VARS:
        if v == "extra":
            r = rng.random()
            if r < 0.3:
                continue
            env[v] = None if r < 0.45 else rng.choice(pool + ["Foo_Bar", "foo-bar", "FOO.BAR", "test", ""])
            continue
        if not complete and rng.random() < 0.25:
            continue
        r = rng.random()
        if v == "python_full_version" and r < 0.3:
            env[v] = rng.choice(["3.12.0+", "3.8.1+", "3.13.0a1+"])
        elif r < 0.5:
            env[v] = rng.choice(pool)
        elif r < 0.75:
            env[v] = rng.choice(VERSIONY)
        else:
            env[v] = rng.choice(NAMEY)
    if rng.random() < 0.1:
        env[rng.choice(["foo", "a", "posix", "Extra"])] = rng.choice(pool)
    return env


# ---------------------------------------------------------------- rendering
def _is_word(c):
    return bool(re.match(r"\w", c))


def _ws(rng, required):
    r = rng.random()
    if required:
        return " " if r < 0.7 else rng.choice(["  ", "\t", " \t "])
    return "" if r < 0.35 else (" " if r < 0.85 else rng.choice(["  ", "\t"]))


def _quote(rng, s, style):
    """a literal in quotes; style 0 any, 1 prefer ', 2 prefer \" """
    can_s, can_d = "'" not in s, '"' not in s
    if not can_s and not can_d:
        raise OutOfDomain("literal with both quote characters")
    if can_s and can_d:
        q = {1: "'", 2: '"'}.get(style) or rng.choice("'\"")
    else:
        q = "'" if can_s else '"'
    return q + s + q


def render_tokens(tree, rng, *, style=0, respell=True, extra_paren=0.25, max_redundant=4, respell_extra=False):
    """token list of one spelling of the tree"""
    def operand(o, other):
        if o[0] == "var":
            return rng.choice(SPELLINGS.get(o[1], [o[1]])) if respell else o[1]
        s = o[1]
        if respell_extra and other[0] == "var" and other[1] == "extra":
            s = respell_name(rng, s)
        return _quote(rng, s, style)

    def go(t, level, red):
        # level: 0 top/or operand, 1 and operand, 2 must be primary
        if t[0] in ("and", "or") and len(t) == 2:
            return go(t[1], level, red)
        lv = {"atom": 2, "and": 1, "or": 0}[t[0]]
        need = lv < level
        n = 1 if need else 0
        while red + n < max_redundant + (1 if need else 0) and rng.random() < extra_paren:
            n += 1
        red += n - (1 if need else 0)
        if t[0] == "atom":
            toks = [operand(t[1], t[3])] + t[2].split(" ") + [operand(t[3], t[1])]
        else:
            # n-ary: children joined left-associatively; a right operand of the same kind may keep or drop its parentheses
            inner = 0 if n else level
            toks = go(t[1], lv if lv >= inner or n else inner, red)
            for c in t[2:]:
                toks = toks + [t[0]] + go(c, lv if rng.random() < 0.5 else lv + 1, red)
        return ["("] * n + toks + [")"] * n

    return go(tree, 0, 0)


def join_tokens(toks, rng, *, canonical=False):
    out = ""
    prev = None
    for i, t in enumerate(toks):
        if prev is not None:
            required = _is_word(prev[-1]) and _is_word(t[0])
            if prev == "not" and t == "in":
                required = True
            out += (" " if required or not (prev == "(" or t == ")") else "") if canonical else _ws(rng, required)
        out += t
        prev = t
    return out


def render(tree, rng, **kw):
    s = join_tokens(render_tokens(tree, rng, **kw), rng)
    r = rng.random()
    if r < 0.1:
        s = _ws(rng, True) + s
    if 0.05 < r < 0.2:
        s = s + _ws(rng, True)
    return s


def respell_name(rng, s):
    """another spelling of the same PEP 503 name (only for names made of letters, digits, -_.)"""
    if not re.fullmatch(r"[A-Za-z0-9]+([-_.]+[A-Za-z0-9]+)*", s or ""):
        return s
    out = ""
    for part in re.split(r"([-_.]+)", s):
        if part and part[0] in "-_.":
            out += rng.choice(["-", "_", ".", "--", "_.", "-"])
        else:
            out += "".join(rng.choice([c.lower(), c.upper()]) for c in part)
    return out


def damage(rng, s):
    from gen.versions import ODD_CHARS
    k = rng.randrange(9)
    toks = re.findall(r"\(|\)|'[^']*'|\"[^\"]*\"|[=~!<>]+|[\w.]+|\s+|.", s)
    if k == 0 and toks:
        i = rng.randrange(len(toks)); del toks[i]; return "".join(toks)
    if k == 1 and toks:
        i = rng.randrange(len(toks)); toks.insert(i, toks[i]); return "".join(toks)
    if k == 2 and len(toks) > 1:
        i, j = rng.randrange(len(toks)), rng.randrange(len(toks)); toks[i], toks[j] = toks[j], toks[i]; return "".join(toks)
    if k == 3:
        i = rng.randrange(len(s) + 1)
        return s[:i] + rng.choice(ODD_CHARS + ["'", '"', "\\n", "\\x41", "\\", "\\\n", "\\777", "\\u00e9", "\\q"]) + s[i:]
    if k == 4 and s:
        i = rng.randrange(len(s)); return s[:i] + s[i + 1:]
    if k == 5:
        i = rng.randrange(len(s) + 1)
        return s[:i] + rng.choice(["and", "or", " and ", " or ", "not", " in ", "(", ")", "((", "))", "\n", ";", "#", "é", "extra"]) + s[i:]
    if k == 6 and toks:
        # glue: remove a white-space token
        ws = [i for i, t in enumerate(toks) if t.isspace()]
        if ws:
            del toks[rng.choice(ws)]; return "".join(toks)
    if k == 7:
        return s + rng.choice(["\n", "\n\n", " \n", "\r\n", "\x00", " and", " or", ")", " x"])
    i = rng.randrange(len(s) + 1)
    return s[i:] + s[:i]


# ---------------------------------------------------------------- reference parser (PEP 508 grammar)
_TOKEN = re.compile(r"""
    (?P<ws>[ \t]+) | (?P<lp>\() | (?P<rp>\)) |
    (?P<q>'[^']*'|"[^"]*") |
    (?P<op>===|==|~=|!=|<=|>=|<|>) |
    (?P<id>[A-Za-z0-9_.]+)
""", re.X)


def ref_tokens(s):
    pos, out = 0, []
    if any(ord(c) > 127 or c in "\\\r\n\x00" for c in s):
        raise OutOfDomain("non-ASCII or escape/newline/NUL characters")
    while pos < len(s):
        m = _TOKEN.match(s, pos)
        if not m:
            raise Reject(f"bad character at {pos}")
        pos = m.end()
        k = m.lastgroup
        if k == "ws":
            continue
        out.append((k, m.group()))
    return out


def ref_parse(s, *, keep_parens=False):
    """text -> tree (with ["paren", t] nodes when keep_parens).  Raises Reject / OutOfDomain."""
    toks = ref_tokens(s)
    i = 0

    def peek():
        return toks[i] if i < len(toks) else (None, None)

    def take():
        nonlocal i
        i += 1
        return toks[i - 1]

    def operand():
        k, v = peek()
        if k == "q":
            take()
            return ["lit", v[1:-1]]
        if k == "id" and v in CANON_OF:
            take()
            return ["var", CANON_OF[v]]
        raise Reject("operand expected")

    def primary():
        k, v = peek()
        if k == "lp":
            take()
            t = or_expr()
            if peek()[0] != "rp":
                raise Reject(") expected")
            take()
            return ["paren", t] if keep_parens else t
        l = operand()
        k, v = peek()
        if k == "op":
            take(); op = v
        elif (k, v) == ("id", "in"):
            take(); op = "in"
        elif (k, v) == ("id", "not"):
            take()
            if peek() != ("id", "in"):
                raise Reject("in expected")
            take(); op = "not in"
        else:
            raise Reject("operator expected")
        return ["atom", l, op, operand()]

    def and_expr():
        t = primary()
        while peek() == ("id", "and"):
            take()
            t = ["and", t, primary()]
        return t

    def or_expr():
        t = and_expr()
        while peek() == ("id", "or"):
            take()
            t = ["or", t, and_expr()]
        return t

    t = or_expr()
    if i != len(toks):
        raise Reject("trailing tokens")
    return t


def strip_parens(t):
    if t[0] == "paren":
        return strip_parens(t[1])
    if t[0] == "atom":
        return t
    return [t[0], *[strip_parens(c) for c in t[1:]]]


def ref_canon_name(s):
    return re.sub(r"[-_.]+", "-", s).lower()


def normal_form(t, *, extras=True):
    """n-ary flattening (and/or are associative, also for the first-exception order), extra names canonical"""
    t = strip_parens(t)
    if t[0] == "atom":
        _, l, op, r = t
        if extras and l[0] != r[0]:
            if l == ["var", "extra"] and all(ord(c) < 128 for c in r[1]):
                r = ["lit", ref_canon_name(r[1])]
            elif r == ["var", "extra"] and all(ord(c) < 128 for c in l[1]):
                l = ["lit", ref_canon_name(l[1])]
        return ["atom", l, op, r]
    args = []
    for c in t[1:]:
        c = normal_form(c, extras=extras)
        if c[0] == t[0]:
            args.extend(c[1:])
        else:
            args.append(c)
    if len(args) == 1:
        return args[0]
    return [t[0], *args]


# ---------------------------------------------------------------- reference evaluation (property statement)
def effective_env(default, supplied):
    env = dict(default)
    env["extra"] = ""
    if supplied is not None:
        env.update(supplied)
    if env["extra"] is None:
        env["extra"] = ""
    if env["python_full_version"].endswith("+"):
        env["python_full_version"] += "local"
    return env


_STR_OPS = {
    "<": lambda a, b: a < b, "<=": lambda a, b: a <= b, "==": lambda a, b: a == b, "!=": lambda a, b: a != b,
    ">=": lambda a, b: a >= b, ">": lambda a, b: a > b, "in": lambda a, b: a in b, "not in": lambda a, b: a not in b,
}


def spec_answer(op, rhs, lhs):
    """'n' not a specifier | 'v' lhs not a version | '1' | '0'   (the real Specifier / Version are the oracle)"""
    from packaging.specifiers import InvalidSpecifier, Specifier
    from packaging.version import InvalidVersion
    try:
        sp = Specifier(op + rhs)
    except InvalidSpecifier:
        return "n"
    try:
        return "1" if sp.contains(lhs, prereleases=True) else "0"
    except InvalidVersion:
        return "v"


class RefUndefinedComparison(Exception):
    pass


def ref_compare(l, op, r):
    a = spec_answer(op, r, l)
    if a in "01":
        return a == "1"
    f = _STR_OPS.get(op)
    if f is None:
        raise RefUndefinedComparison(op)
    return f(l, r)


def ref_eval(t, env, lazy=False):
    """value of the formula; every comparison is evaluated, left to right (``lazy``: short-circuit instead)"""
    if t[0] == "paren":
        return ref_eval(t[1], env, lazy)
    if t[0] == "atom":
        _, l, op, r = t
        if l[0] == r[0]:
            raise OutOfDomain("comparison of two variables / two literals")
        key = l[1] if l[0] == "var" else r[1]
        lv = env[l[1]] if l[0] == "var" else l[1]
        rv = env[r[1]] if r[0] == "var" else r[1]
        if not isinstance(lv, str) or not isinstance(rv, str):
            raise OutOfDomain("non-string environment value")
        if key == "extra":
            from packaging.utils import canonicalize_name
            lv, rv = canonicalize_name(lv), canonicalize_name(rv)
        return ref_compare(lv, op, rv)
    if len(t) == 2:
        return ref_eval(t[1], env, lazy)
    acc = ref_eval(t[1], env, lazy)
    for c in t[2:]:
        if lazy and acc == (t[0] == "or"):
            return acc
        b = ref_eval(c, env, lazy)
        acc = (acc and b) if t[0] == "and" else (acc or b)
    return acc


def check_tree(t):
    """raise ValueError unless ``t`` is a well-formed (n-ary tolerant) tree — law inputs may come from the shrinker"""
    if not isinstance(t, list) or not t:
        raise ValueError("tree")
    if t[0] == "atom":
        if len(t) != 4 or t[2] not in OPS:
            raise ValueError("atom")
        for o in (t[1], t[3]):
            if not (isinstance(o, list) and len(o) == 2 and o[0] in ("var", "lit") and isinstance(o[1], str)):
                raise ValueError("operand")
            if o[0] == "var" and o[1] not in VARS:
                raise ValueError("variable")
    elif t[0] in ("and", "or"):
        if len(t) < 2:
            raise ValueError("empty connective")
        for c in t[1:]:
            check_tree(c)
    else:
        raise ValueError("node")
    return t


def _is_quoted(tok):
    return len(tok) >= 2 and tok[0] in "'\"" and tok[-1] == tok[0]


def respell_tokens(toks, rng, *, outer=None):
    """another spelling of the same token sequence: quote style, PEP 345 names, the spelling of names compared
    with extra, redundant *outer* parentheses (white space is chosen when the tokens are joined)"""
    toks = list(toks)
    extra_lits = set()
    opish = set(OPS) | {"in"}
    for i, t in enumerate(toks):
        if t != "extra":
            continue
        j = i + 1
        if j < len(toks) and toks[j] == "not":
            j += 1
        if j < len(toks) and toks[j] in opish:
            j += 1
            if j < len(toks) and _is_quoted(toks[j]):
                extra_lits.add(j)
        j = i - 1
        if j >= 0 and toks[j] in opish:
            j -= 1
            if j >= 0 and toks[j] == "not":
                j -= 1
            if j >= 0 and _is_quoted(toks[j]):
                extra_lits.add(j)
    for i, t in enumerate(toks):
        if _is_quoted(t):
            body = t[1:-1]
            if i in extra_lits:
                body = respell_name(rng, body)
            toks[i] = _quote(rng, body, 0)
        elif t in CANON_OF:
            toks[i] = rng.choice(SPELLINGS.get(CANON_OF[t], [CANON_OF[t]]))
    n = rng.choice([0, 0, 1, 2]) if outer is None else outer
    return ["("] * n + toks + [")"] * n


def grouping_form(t, top=True):
    """the formula with its inner parentheses, outermost parentheses dropped, extra names canonical"""
    if top:
        while t[0] == "paren":
            t = t[1]
    if t[0] == "paren":
        return ["paren", grouping_form(t[1], False)]
    if t[0] == "atom":
        return normal_form(t)
    return [t[0], *[grouping_form(c, False) for c in t[1:]]]


def one_variable_atoms(t):
    """every comparison is between one variable and one literal (the domain of the property statements)"""
    return all(a[1][0] != a[3][0] for a in atoms_of(strip_parens(t)))


RULE_NAMES = ["LEFT_PARENTHESIS", "RIGHT_PARENTHESIS", "QUOTED_STRING", "OP", "BOOLOP", "IN", "NOT", "VARIABLE", "WS", "END"]


def tokenizer_probe(rng, s):
    """(rule, position) for a direct tokenizer comparison: mostly token starts with the rule that could match there"""
    pos = rng.randrange(len(s) + 1)
    if rng.random() < 0.7:
        starts = [i for i in range(len(s) + 1)
                  if i == 0 or i == len(s) or s[i - 1] in " \t()'\"=<>~!" or s[i] in " \t()'\"=<>~!\n"]
        pos = rng.choice(starts)
    rule = rng.choice(RULE_NAMES)
    if rng.random() < 0.6:
        c = s[pos:pos + 1]
        rest = s[pos:]
        if c == "":
            rule = "END"
        elif c == "(":
            rule = "LEFT_PARENTHESIS"
        elif c == ")":
            rule = "RIGHT_PARENTHESIS"
        elif c in "'\"":
            rule = "QUOTED_STRING"
        elif c in "=<>!~":
            rule = "OP"
        elif c in " \t":
            rule = "WS"
        elif rest.startswith(("and", "or")):
            rule = "BOOLOP"
        elif rest.startswith("in"):
            rule = rng.choice(["IN", "IN", "VARIABLE"])
        elif rest.startswith("not"):
            rule = "NOT"
        elif c.isalpha():
            rule = "VARIABLE"
    return rule, pos
