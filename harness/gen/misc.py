"""Small structured generators for requirement / marker / filename / license / metadata / ELF inputs
(used by the cross-cutting properties C10, C11; the per-area properties have richer ones)."""
from __future__ import annotations

import struct

from gen import specifiers as GS
from gen import versions as GV

VARS = ["python_version", "python_full_version", "os_name", "os.name", "sys_platform", "sys.platform", "platform_release",
        "platform_system", "platform_version", "platform.version", "platform_machine", "platform_python_implementation",
        "python_implementation", "implementation_name", "implementation_version", "extra"]
MOPS = ["==", "!=", "<", "<=", ">", ">=", "~=", "===", "in", "not in"]
LITS = ["posix", "3.8", "1.0", "linux", "x86_64", "A_b", "a-b", "", "win32", "3.10.0", "1.0+local", "cpython", "2.7.*", "a b", "extra", "os_name"]
NAMES = ["foo", "Foo_Bar", "a.b-c", "x1", "A", "name", "zope.interface", "p-y_t.h"]


def pep508_name(rng):
    """a PEP 508 identifier from the grammar: letterOrDigit ((letterOrDigit | '-' | '_' | '.')* letterOrDigit)? —
    runs of several separators, digits first, single characters and upper case included on purpose"""
    n = rng.choice([1, 1, 2, 3, 4, 6, 9])
    alnum = "abzAZ019xY"
    if n == 1:
        return rng.choice(alnum)
    mid = "".join(rng.choice(alnum) if rng.random() < 0.55 else rng.choice("-_.") for _ in range(n - 2))
    return rng.choice(alnum) + mid + rng.choice(alnum)


LICS = ["MIT", "Apache-2.0", "GPL-2.0-or-later", "BSD-3-Clause", "LicenseRef-Foo", "ISC"]
EXCS = ["Classpath-exception-2.0", "LLVM-exception"]


def marker_atom(rng):
    v, l = rng.choice(VARS), rng.choice(LITS)
    if rng.random() < 0.2:
        v, l = "extra", rng.choice(["A_b", "Foo.Bar", "x--y", "a-b", "X"])
    q = rng.choice("'\"")
    lit = q + l + q
    a, b = (v, lit) if rng.random() < 0.8 else (lit, v)
    sp = rng.choice(["", " ", "  "])
    op = rng.choice(MOPS)
    if op in ("in", "not in"):
        return f"{a} {op} {b}"
    return f"{a}{sp}{op}{sp}{b}"


def marker(rng, depth=3):
    if depth == 0 or rng.random() < 0.35:
        return marker_atom(rng)
    k = rng.random()
    if k < 0.2:
        return "(" + marker(rng, depth - 1) + ")"
    return marker(rng, depth - 1) + " " + rng.choice(["and", "or"]) + " " + marker(rng, depth - 1)


def requirement(rng):
    s = rng.choice(NAMES)
    if rng.random() < 0.4:
        s += rng.choice(["", " "]) + "[" + ",".join(rng.sample(["a", "B_c", "d.e", "f"], rng.randrange(0, 4))) + "]"
    k = rng.random()
    if k < 0.15:
        s += " @ " + rng.choice(["https://example.com/x.whl", "file:///tmp/x", "git+https://h/r@v1#egg=x"])
        if rng.random() < 0.5:
            s += " ; " + marker(rng, 2)
        return s
    cl = ",".join(GS.clause(rng, ws=rng.random() < 0.3) for _ in range(rng.randrange(0, 4)))
    if cl and rng.random() < 0.3:
        cl = "(" + cl + ")"
    s += rng.choice(["", " "]) + cl
    if rng.random() < 0.4:
        s += rng.choice(["", " "]) + ";" + rng.choice(["", " "]) + marker(rng, 2)
    return s


def wheel_name(rng):
    name = rng.choice(["foo", "Foo_Bar", "a.b", "x1"])
    ver = GV.normal(GV.struct(rng))
    build = rng.choice(["", "", "1", "2abc", "0_x"])
    tags = ".".join(rng.sample(["py3", "cp39", "py2"], rng.randrange(1, 3))) + "-" + rng.choice(["none", "abi3.cp39"]) + "-" + rng.choice(["any", "linux_x86_64.win32"])
    return "-".join([name, ver] + ([build] if build else []) + [tags]) + ".whl"


def sdist_name(rng):
    return rng.choice(["foo", "Foo_Bar", "a-b", "x1"]) + "-" + GV.normal(GV.struct(rng, allow_local=False)) + rng.choice([".tar.gz", ".zip"])


def license_expr(rng, depth=3):
    if depth == 0 or rng.random() < 0.4:
        x = rng.choice(LICS)
        if rng.random() < 0.2:
            x += "+"
        if rng.random() < 0.2:
            x += " WITH " + rng.choice(EXCS)
        return "".join(c.upper() if rng.random() < 0.3 else c for c in x) if rng.random() < 0.3 else x
    if rng.random() < 0.25:
        return "(" + license_expr(rng, depth - 1) + ")"
    return license_expr(rng, depth - 1) + " " + rng.choice(["AND", "OR", "and", "or"]) + " " + license_expr(rng, depth - 1)


HEADERS = ["Metadata-Version", "Name", "Version", "Summary", "Keywords", "Requires-Dist", "Requires-Python", "Project-URL",
           "Description", "Description-Content-Type", "Classifier", "License", "License-Expression", "License-File", "Dynamic",
           "Provides-Extra", "Author", "X-Unknown", "name", "VERSION"]


def email_doc(rng):
    lines = []
    for _ in range(rng.randrange(0, 9)):
        h = rng.choice(HEADERS)
        v = rng.choice(["2.1", "foo", "1.0", "a, b", "x>=1; extra == 'a'", ">=3.8", "Home, https://e.com", "text/markdown", "MIT",
                        "é ü", "=?utf-8?q?caf=C3=A9?=", "multi\n  line", "", "LICENSE"])
        lines.append(f"{h}: {v}")
    doc = "\n".join(lines)
    if rng.random() < 0.4:
        doc += "\n\n" + rng.choice(["body text", "", "é body", "line1\nline2"])
    if rng.random() < 0.15:
        doc = "Content-Type: " + rng.choice(["multipart/mixed; boundary=x", "message/rfc822", "text/plain"]) + "\n" + doc + "\n--x\nA: b\n\nz\n--x--\n"
    return doc


def raw_metadata(rng):
    vals = {
        "metadata_version": ["2.1", "2.3", "2.4", "1.0", "9.9", "x"], "name": ["foo", "Foo_Bar", "-bad", "", "{x}", "a{0}"], "version": ["1.0", "1!2a1", "bad", "{0}", "1.{}"],
        "summary": ["ok", "two\nlines", "{}\nx"], "description": ["text"], "description_content_type": ["text/markdown", "text/plain; charset=UTF-8", "text/x", "text/plain\nfoo", "text/plain; charset=latin-1", "text/plain; a*", "text/plain; a*0*=\"x'", "text/markdown; charset*"],
        "keywords": [["a", "b"], []], "requires_python": [">=3.8", "??", "", "{x}"], "requires_dist": [["a>=1"], ["a ; os_name == '\\x'"], ["bad req!"], []],
        "provides_extra": [["a", "B_c"], ["-x"]], "dynamic": [["classifier"], ["name"], ["nope"]], "license_expression": ["MIT", "mit or apache-2.0", "LicenseRef-foo+", "MIT AND ()"],
        "license_files": [["LICENSE"], ["../x"], ["/abs"], ["a\\b"], ["*.txt"]], "project_urls": [{"A": "u"}], "classifiers": [["x"]],
        "platforms": [["any"]], "author": ["me"], "bogus": ["1"], "license": ["MIT text"], "home_page": ["h"],
    }
    raw = {}
    for k in rng.sample(list(vals), rng.randrange(0, 10)):
        raw[k] = rng.choice(vals[k])
    if rng.random() < 0.8:
        raw.setdefault("metadata_version", rng.choice(vals["metadata_version"]))
        raw.setdefault("name", "foo"); raw.setdefault("version", "1.0")
    return raw


def elf_bytes(rng):
    """a mostly-valid ELF header + program headers (or damaged variants), as bytes"""
    cls = rng.choice([1, 2]); enc = rng.choice([1, 2])
    e = "<" if enc == 1 else ">"
    ident = b"\x7fELF" + bytes([cls, enc, 1, 0]) + b"\x00" * 8
    phnum = rng.randrange(0, 4)
    interp = rng.choice([b"/lib/ld-linux.so.2\x00", b"/lib/ld-musl-x86_64.so.1\x00", b"\xff\xfe\x00", b""])
    big = rng.random() < 0.1
    if cls == 1:
        phoff = 52 if not big else rng.choice([2**32 - 1, 2**31])
        hdr = struct.pack(e + "HHIIIIIHHHHHH", 2, rng.choice([3, 40, 62, 183]), 1, 0, phoff, 0, rng.choice([0, 0x5000400, 0x5000200]), 52, 32, phnum, 0, 0, 0)
        body = b""
        off = 52 + 32 * phnum
        for i in range(phnum):
            t = rng.choice([3, 1, 2])
            body += struct.pack(e + "IIIIIIII", t, off, 0, 0, len(interp), 0, 0, 0)
    else:
        phoff = 64 if not big else rng.choice([2**64 - 1, 2**63, 2**40])
        hdr = struct.pack(e + "HHIQQQIHHHHHH", 2, rng.choice([3, 40, 62, 183]), 1, 0, phoff, 0, 0, 64, 56, phnum, 0, 0, 0)
        body = b""
        off = 64 + 56 * phnum
        for i in range(phnum):
            t = rng.choice([3, 1, 2])
            body += struct.pack(e + "IIQQQQQQ", t, 0, off, 0, 0, len(interp), 0, 0)
    data = ident + hdr + body + interp
    k = rng.random()
    if k < 0.15:
        data = data[: rng.randrange(0, len(data) + 1)]
    elif k < 0.25:
        i = rng.randrange(len(data)); data = data[:i] + bytes([rng.randrange(256)]) + data[i + 1 :]
    elif k < 0.3:
        data = bytes(rng.randrange(256) for _ in range(rng.randrange(0, 40)))
    return data
