"""Synthetic ELF files for C16, built with `struct` from a JSON description (independent of packaging._elffile).

description:
  {"cls": 1|2|other, "data": 1|2|other, "magic": "7f454c46", "ident_rest": hex (10 bytes),
   "type", "machine", "version", "entry", "phoff", "shoff", "flags", "ehsize", "phentsize", "phnum": ints,
   "phs": [{"at": offset, "type", "flags", "offset", "vaddr", "paddr", "filesz", "memsz", "align"} …],
   "blobs": [[offset, hex] …], "size": pad/truncate the file to this many bytes (optional)}
Values are reduced modulo the field width of the layout, so any integers are allowed.
"""
from __future__ import annotations

import struct

WORD = {1: 4, 2: 8}


def _order(data):
    return "<" if data == 1 else ">"


def header_bytes(d):
    cls, data = d["cls"], d["data"]
    ident = bytes.fromhex(d.get("magic", "7f454c46")) + bytes([cls % 256, data % 256]) + bytes.fromhex(
        d.get("ident_rest", "01" + "00" * 9))
    if cls not in WORD or data not in (1, 2):
        # no defined layout: the remaining bytes are arbitrary
        return ident + bytes.fromhex(d.get("rest_hex", "00" * 48))
    w = "I" if cls == 1 else "Q"
    mask = (1 << (8 * WORD[cls])) - 1
    fmt = _order(data) + "HHI" + w * 3 + "IHHH"
    return ident + struct.pack(
        fmt, d.get("type", 2) & 0xFFFF, d.get("machine", 62) & 0xFFFF, d.get("version", 1) & 0xFFFFFFFF,
        d.get("entry", 0) & mask, d.get("phoff", 0) & mask, d.get("shoff", 0) & mask,
        d.get("flags", 0) & 0xFFFFFFFF, d.get("ehsize", 52 if cls == 1 else 64) & 0xFFFF,
        d.get("phentsize", 32 if cls == 1 else 56) & 0xFFFF, d.get("phnum", 0) & 0xFFFF)


def ph_bytes(cls, data, p):
    o = _order(data)
    if cls == 1:
        m = 0xFFFFFFFF
        return struct.pack(o + "IIIIIIII", p.get("type", 1) & m, p.get("offset", 0) & m, p.get("vaddr", 0) & m,
                           p.get("paddr", 0) & m, p.get("filesz", 0) & m, p.get("memsz", 0) & m,
                           p.get("flags", 0) & m, p.get("align", 0) & m)
    m = 0xFFFFFFFFFFFFFFFF
    return struct.pack(o + "IIQQQQQQ", p.get("type", 1) & 0xFFFFFFFF, p.get("flags", 0) & 0xFFFFFFFF,
                       p.get("offset", 0) & m, p.get("vaddr", 0) & m, p.get("paddr", 0) & m,
                       p.get("filesz", 0) & m, p.get("memsz", 0) & m, p.get("align", 0) & m)


def build(d, limit=1 << 16):
    """the file's bytes; writes beyond ``limit`` are dropped (such offsets are simply past the end)"""
    out = bytearray(header_bytes(d))

    def put(at, b):
        if at < 0 or at + len(b) > limit:
            return
        if len(out) < at + len(b):
            out.extend(b"\0" * (at + len(b) - len(out)))
        out[at:at + len(b)] = b

    cls, data = d["cls"], d["data"]
    if cls in WORD and data in (1, 2):
        for p in d.get("phs", []):
            put(p["at"], ph_bytes(cls, data, p))
    for at, hx in d.get("blobs", []):
        put(at, bytes.fromhex(hx))
    if "size" in d:
        n = d["size"]
        if n < len(out):
            del out[n:]
        else:
            out.extend(b"\0" * min(n - len(out), limit))
    return bytes(out)


# ---------------------------------------------------------------- random descriptions
MACHINES = [3, 40, 62, 183, 22, 21, 243, 258, 0, 0xFFFF]
ARM_FLAGS = [0x05000400, 0x05000200, 0x05000000, 0x04000400, 0x05000402, 0xFF000400, 0x85000400, 0x05000600, 0]
INTERPS = ["/lib/ld-musl-x86_64.so.1", "/lib/ld-musl-aarch64.so.1", "/lib64/ld-linux-x86-64.so.2",
           "/lib/ld-linux-armhf.so.3", "/lib/ld-musl-armhf.so.1\0", "\0\0/lib/ld-musl-i386.so.1\0\0", "musl", "mus",
           "", "\0", "/lib/ld-MUSL.so", "/lib/libc.musl-x86_64.so.1", "a\0b"]


def gen_desc(rng, sane=False, huge=True):
    """a mostly well-formed ELF description with a program-header table; ``sane`` switches all damage off,
    ``huge=False`` only the offsets/sizes beyond a real file's reach (for cases that go through open())"""
    cls = rng.choice([1, 2])
    data = rng.choice([1, 2])
    hsize = 16 + (36 if cls == 1 else 48)     # what the code reads is 46 / 58 bytes; the real header is 52 / 64
    phsize = 32 if cls == 1 else 56
    d = {"cls": cls, "data": data, "machine": rng.choice(MACHINES), "flags": rng.choice(ARM_FLAGS + [rng.getrandbits(32)]),
         "type": rng.choice([2, 3]), "entry": rng.getrandbits(8 * WORD[cls]), "shoff": rng.getrandbits(8 * WORD[cls]),
         "version": rng.choice([1, rng.getrandbits(32)]), "ident_rest": bytes(rng.getrandbits(8) for _ in range(10)).hex()}
    phnum = rng.choice([0, 1, 2, 3, 3, 4, 4, 6])
    phentsize = rng.choice([phsize] * 8 + [phsize + 8, phsize - 4, 0, 1, 100])
    phoff = rng.choice([hsize + 6, hsize + 6, hsize, hsize, 64, 52, rng.randrange(40, 200)])
    d.update(phoff=phoff, phentsize=phentsize, phnum=phnum)
    phs, blobs = [], []
    blob_at = phoff + max(phentsize, phsize) * max(phnum, 1) + 16
    interp_at = rng.randrange(phnum) if phnum and rng.random() < 0.9 else None
    for i in range(phnum):
        at = phoff + phentsize * i
        if i == interp_at or rng.random() < 0.15:
            s = rng.choice(INTERPS).encode()
            if rng.random() < 0.1:
                s = bytes(rng.getrandbits(8) for _ in range(rng.randrange(0, 12)))
            filesz = len(s) + rng.choice([0, 0, 0, 1, -1, 5])
            phs.append({"at": at, "type": 3, "offset": blob_at, "filesz": max(filesz, 0), "flags": 4,
                        "vaddr": rng.getrandbits(16), "memsz": len(s), "align": 1})
            blobs.append([blob_at, s.hex()])
            blob_at += len(s) + rng.choice([0, 1, 7])
        else:
            phs.append({"at": at, "type": rng.choice([1, 2, 6, 4, 0x6474e551, 0, 3 << 8, 0x03000000]),
                        "offset": rng.getrandbits(12), "filesz": rng.getrandbits(10), "flags": rng.getrandbits(3)})
    d["phs"], d["blobs"] = phs, blobs
    if not sane:
        r = rng.random()
        if r < 0.06:
            d["size"] = rng.randrange(0, 80)                      # truncated
        elif r < 0.10:
            d["magic"] = rng.choice(["7f454c47", "00454c46", "7f454c", "454c467f"])
        elif r < 0.14:
            d[rng.choice(["cls", "data"])] = rng.choice([0, 3, 255])
        elif r < 0.20 and cls == 2 and huge:
            d["phoff"] = rng.choice([2**64 - 1, 2**63, 2**63 - 1, 2**63 - phentsize * 2, 2**62])
        elif r < 0.26 and phs and huge:
            p = rng.choice(phs)
            p["type"] = 3
            p[rng.choice(["offset", "filesz"])] = rng.choice([2**64 - 1, 2**63, 2**63 - 1, 2**32 - 1, 2**31, 10**6])
        elif r < 0.30:
            d["phnum"] = rng.choice([0xFFFF, 200])
        elif r < 0.33:
            d["size"] = phoff + phentsize * max(phnum - 1, 0) + rng.randrange(0, phsize + 1)   # last entry short
    return d


def gen_desc_huge(rng):
    """a well-formed image whose only damage is one PT_INTERP entry with an offset or size at a machine-word boundary
    (what a file object cannot seek to / read): the error path of the interpreter lookup, not of the header"""
    for _ in range(8):
        d = gen_desc(rng, sane=True)
        if d["phs"] and d["phentsize"] >= (32 if d["cls"] == 1 else 56):
            break
    if d["phs"]:
        p = rng.choice(d["phs"])
        p["type"] = 3
        big = [2**64 - 1, 2**63, 2**63 - 1, 2**63 + 1] if d["cls"] == 2 else [2**32 - 1, 2**31, 2**31 - 1]
        p[rng.choice(["offset", "filesz"])] = rng.choice(big)
    return d


def exe_for(kind, rng=None):
    """a minimal executable description with a given ABI: 'x86_64', 'i686', 'armhf', 'armel', 'aarch64', …"""
    table = {
        "x86_64": dict(cls=2, data=1, machine=62, flags=0),
        "i686": dict(cls=1, data=1, machine=3, flags=0),
        "armhf": dict(cls=1, data=1, machine=40, flags=0x05000400),
        "armhf2": dict(cls=1, data=1, machine=40, flags=0x05000402),
        "armel": dict(cls=1, data=1, machine=40, flags=0x05000200),
        "arm-eabi4": dict(cls=1, data=1, machine=40, flags=0x04000400),
        # EABI version bytes that contain the bits of 5 without being 5 (a masked test `flags & V == V` accepts them)
        "arm-eabi7": dict(cls=1, data=1, machine=40, flags=0x07000400),
        "arm-eabi0d": dict(cls=1, data=1, machine=40, flags=0x0D000400),
        "arm-eabiff": dict(cls=1, data=1, machine=40, flags=0xFF000400),
        "arm-eabi5-nofloat-bits": dict(cls=1, data=1, machine=40, flags=0x05000B00),
        "arm-be": dict(cls=1, data=2, machine=40, flags=0x05000400),
        "arm64as32": dict(cls=2, data=1, machine=40, flags=0x05000400),
        "aarch64": dict(cls=2, data=1, machine=183, flags=0),
        "s390x": dict(cls=2, data=2, machine=22, flags=0),
        "i386-be": dict(cls=1, data=2, machine=3, flags=0),
        "x32": dict(cls=1, data=1, machine=62, flags=0),
    }
    d = dict(table[kind])
    d.update(phoff=0, phnum=0, phs=[], blobs=[])
    return d


def with_interp(d, interp: bytes):
    """add one PT_LOAD and one PT_INTERP entry pointing at ``interp``"""
    d = dict(d)
    cls = d["cls"]
    phsize = 32 if cls == 1 else 56
    phoff = 52 if cls == 1 else 64
    blob = phoff + 2 * phsize
    d.update(phoff=phoff, phentsize=phsize, phnum=2,
             phs=[{"at": phoff, "type": 1, "offset": 0, "filesz": 100},
                  {"at": phoff + phsize, "type": 3, "offset": blob, "filesz": len(interp)}],
             blobs=[[blob, interp.hex()]])
    return d
