"""Jointly chosen (specifier clause, candidate) structures for C03/C04, and the reference
semantics ``admits`` written from the statement of C03 on *structures* (never on strings).

A version structure is the dict of ``gen.versions`` (epoch, release, pre, post, dev, local).
"""
from __future__ import annotations

from gen import versions as GV

OPS = ["~=", "==", "!=", "<=", ">=", "<", ">", "==="]
SUFFIX_SHAPES = ["", "", "", "p", "o", "d", "po", "pd", "od", "pod"]   # p = pre, o = post, d = dev
COMP = [0, 0, 0, 1, 1, 2, 3, 9, 10]


# ---------------------------------------------------------------- reference semantics (statement of C03)
def pub(c):
    d = dict(c)
    d["local"] = None
    return d


def is_pre(v):
    return v["pre"] is not None or v["dev"] is not None


def is_post(v):
    return v["post"] is not None


def zero_pad_prefix(r, cr):
    """r is a zero-padded prefix of cr"""
    cr = list(cr) + [0] * max(0, len(r) - len(cr))
    return cr[: len(r)] == list(r)


def same_release(a, b):
    return a["epoch"] == b["epoch"] and GV._strip0(a["release"]) == GV._strip0(b["release"])


def admits(op, v, wild, c, raw=None):
    """Does ``op V`` (``V.*`` if wild; ``raw`` = clause text for ``===``) admit candidate c, pre-releases enabled?"""
    if op == "===":
        return GV.normal(c).lower() == raw.lower()
    if op in ("==", "!="):
        if wild:
            r = c["epoch"] == v["epoch"] and zero_pad_prefix(v["release"], c["release"])
        else:
            r = GV.ref_cmp(pub(c) if v["local"] is None else c, v) == 0
        return r if op == "==" else not r
    if op == "~=":
        return (GV.ref_cmp(pub(c), v) >= 0 and c["epoch"] == v["epoch"]
                and zero_pad_prefix(v["release"][:-1], c["release"]))
    if op == "<=":
        return GV.ref_cmp(pub(c), v) <= 0
    if op == ">=":
        return GV.ref_cmp(pub(c), v) >= 0
    if op == "<":
        if GV.ref_cmp(c, v) >= 0:
            return False
        return not (not is_pre(v) and is_pre(c) and same_release(c, v))
    if op == ">":
        if GV.ref_cmp(c, v) <= 0:
            return False
        if not is_post(v) and is_post(c) and same_release(c, v):
            return False
        if c["local"] is not None and GV.ref_cmp(pub(c), v) == 0:
            return False
        return True
    raise KeyError(op)


def situation(op, v, wild, c, raw=None):
    """coarse label of which rule of the statement decides this case (for the measured distribution)"""
    if op == "===":
        return "===:" + ("equal" if admits(op, v, wild, c, raw) else
                         ("same-version-other-text" if _raw_is(c, raw) else "different"))
    lc, lv = len(c["release"]), len(v["release"])
    if (op in ("==", "!=") and wild) or op == "~=":
        rel = v["release"] if op != "~=" else v["release"][:-1]
        if c["epoch"] != v["epoch"]:
            k = "epoch-differs"
        elif zero_pad_prefix(rel, c["release"]):
            k = "hit-padded" if lc < len(rel) else ("hit-same-length" if lc == len(rel) else "hit-longer")
        else:
            k = "miss-shorter" if lc < len(rel) else "miss"
        if op == "~=":
            return "~=:" + k + (",ge" if ref_ge(c, v) else ",below")
        return "==.*|!=.*:" + k + (",cand-suffix" if is_pre(c) or is_post(c) else "")
    if op in ("==", "!="):
        k = "spec-local" if v["local"] is not None else ("cand-local" if c["local"] is not None else "no-local")
        if GV.ref_cmp(c if v["local"] is not None else pub(c), v) == 0:
            k += ",eq" + ("-padded" if lc != lv else "")
        elif GV.ref_cmp(pub(c), pub(v)) == 0:
            k += ",ne-by-local-only"
        else:
            k += ",ne"
        return "==|!=:" + k
    if op in ("<=", ">="):
        o = GV.ref_cmp(pub(c), v)
        k = {-1: "below", 0: "equal", 1: "above"}[o]
        if o == 0:
            k += ("-padded" if lc != lv else "") + (",local-of-V" if c["local"] is not None else "")
        return op + ":" + k
    o = GV.ref_cmp(c, v)
    if op == "<":
        if o >= 0:
            return "<:not-below" + (",equal" if o == 0 else "")
        k = "below"
        if same_release(c, v):
            k += ",same-release" + ("-padded" if lc != lv else "")
            if is_pre(c):
                k += ",cand-pre" + ("(V-pre)" if is_pre(v) else "(V-final:excluded)")
        return "<:" + k
    if o <= 0:
        return ">:not-above" + (",equal" if o == 0 else "")
    k = "above"
    if c["local"] is not None and GV.ref_cmp(pub(c), v) == 0:
        return ">:above,local-of-V:excluded"
    if same_release(c, v):
        k += ",same-release" + ("-padded" if lc != lv else "")
        if is_post(c):
            k += ",cand-post" + ("(V-post)" if is_post(v) else "(V-not-post:excluded)")
        if c["local"] is not None:
            k += ",cand-local"
    return ">:" + k


def ref_ge(c, v):
    return GV.ref_cmp(pub(c), v) >= 0


def _raw_is(c, raw):
    try:
        from packaging.version import Version
        return Version(raw) == Version(GV.normal(c))
    except Exception:
        return False


# ---------------------------------------------------------------- generators
def comp(rng):
    if rng.random() < 0.04:
        return rng.choice([99, 2024, 10**9, 10**20])
    return rng.choice(COMP)


def suffixes(rng, v, shape=None):
    shape = rng.choice(SUFFIX_SHAPES) if shape is None else shape
    v["pre"] = (rng.choice(["a", "b", "rc"]), GV.num(rng)) if "p" in shape else None
    v["post"] = GV.num(rng) if "o" in shape else None
    v["dev"] = GV.num(rng) if "d" in shape else None
    return v


def local(rng):
    return [rng.choice([rng.choice(GV.LOCAL_ALPHA), rng.choice(GV.SMALL)]) for _ in range(rng.choice([1, 1, 2, 3]))]


def spec_version(rng, op, wild):
    """a version the operator's grammar admits: release length 1-5, epoch, every suffix shape, local label"""
    n = rng.choice([1, 2, 2, 3, 3, 4, 5])
    if op == "~=":
        n = max(n, 2)
    v = {"epoch": rng.choice([0, 0, 0, 1, 2]), "release": [comp(rng) for _ in range(n)],
         "pre": None, "post": None, "dev": None, "local": None}
    if not wild:
        suffixes(rng, v)
        if op in ("==", "!=") and rng.random() < 0.3:
            v["local"] = local(rng)
    return v


def clause_struct(rng):
    op = rng.choice(OPS)
    wild = op in ("==", "!=") and rng.random() < 0.45
    return op, spec_version(rng, op, wild), wild


def candidate_near(rng, v):
    """a candidate that shares epoch / release prefix with ``v`` so that padding, prefix and exclusion rules fire"""
    if rng.random() < 0.08:
        return GV.struct(rng, maxrel=5)
    c = {"epoch": v["epoch"], "release": list(v["release"]), "pre": v["pre"], "post": v["post"], "dev": v["dev"],
         "local": (list(v["local"]) if v["local"] is not None else None)}
    r = c["release"]
    k = rng.randrange(15)
    if k in (13, 14):
        # textual neighbours: a release that is V's as *text* with a digit appended to / removed from one component
        # (1.1 / 1.10 / 1.100, 1.20 / 1.2, 12 / 1): string functions (rstrip, startswith, slicing) relate these, numbers do not
        i = rng.choice([len(r) - 1, len(r) - 1, rng.randrange(len(r))])
        t = str(r[i])
        how = rng.randrange(4)
        if how == 0:
            t = t + "0" * rng.choice([1, 1, 2])
        elif how == 1 and len(t) > 1:
            t = t[:-1]
        elif how == 2:
            t = t + rng.choice("123456789")
        else:
            t = t.rstrip("0") or "0"
        c["release"] = r[:i] + [int(t)] + r[i + 1:]
        if rng.random() < 0.5:
            c["release"] = (GV._strip0(c["release"]) or [0]) + [0] * rng.choice([0, 0, 1])
    elif k == 1:
        c["release"] = r + [0] * rng.choice([1, 1, 2])
    elif k == 2:
        c["release"] = GV._strip0(r) or [0]
    elif k in (3, 10):
        c["release"] = r[: rng.randrange(1, len(r) + 1)]
    elif k == 4:
        c["release"] = r + [comp(rng) for _ in range(rng.choice([1, 1, 2]))]
    elif k == 5:
        c["release"] = r[:-1] + [max(0, r[-1] + rng.choice([-1, 1]))]
    elif k == 6 and len(r) >= 2:
        c["release"] = r[:-2] + [max(0, r[-2] + rng.choice([-1, 1]))] + rng.choice([[], [0], [r[-1]], [comp(rng)]])
    elif k == 7:
        i = rng.randrange(len(r))
        c["release"] = r[:i] + [max(0, r[i] + rng.choice([-1, 1]))] + r[i + 1:]
    elif k in (8, 11):
        c["release"] = r[: rng.randrange(1, len(r) + 1)] + [0] * rng.choice([0, 1, 2])
    elif k == 12:
        # the shortest release with the same meaning as a prefix of V's (padding must supply the zeros)
        j = rng.randrange(1, len(r) + 1)
        c["release"] = GV._strip0(r[:j]) or [0]
    elif k == 9 and rng.random() < 0.5:
        c["epoch"] = max(0, c["epoch"] + rng.choice([-1, 1]))
    # suffixes: keep V's, drop them, nudge a number, or draw a fresh shape
    s = rng.random()
    if s < 0.30:
        pass
    elif s < 0.50:
        c["pre"] = c["post"] = c["dev"] = None
    elif s < 0.65:
        which = rng.choice(["pre", "post", "dev"])
        if c[which] is None:
            c[which] = (rng.choice(["a", "b", "rc"]), GV.num(rng)) if which == "pre" else GV.num(rng)
        elif which == "pre":
            c["pre"] = (rng.choice([c["pre"][0], "a", "b", "rc"]), max(0, c["pre"][1] + rng.choice([-1, 0, 1])))
        else:
            c[which] = max(0, c[which] + rng.choice([-1, 1]))
    else:
        suffixes(rng, c)
    # local label: none / V's own / a different one
    s = rng.random()
    if v["local"] is not None:
        if s < 0.40:
            pass
        elif s < 0.60:
            c["local"] = None
        elif s < 0.75:
            c["local"] = list(v["local"]) + [rng.choice(GV.SMALL)]
        else:
            c["local"] = local(rng)
    else:
        c["local"] = None if s < 0.5 else local(rng)
    return c


def arbitrary_text(rng, c):
    """text for an ``===`` clause related to candidate ``c``"""
    k = rng.random()
    if k < 0.45:
        t = GV.normal(c)
        return "".join(ch.upper() if rng.random() < 0.4 else ch for ch in t)
    if k < 0.6:
        return GV.spell(rng, c, ws=False)                     # same version, possibly another spelling
    if k < 0.75:
        return GV.normal(GV.neighbour(rng, c))
    if k < 0.85:
        return GV.normal(pub(c))
    return rng.choice(["foo", "", "1.0.*", "1.0+", "latest", "1.0,2", "1!", "1.0(", "*"])


def spell_clause(rng, op, v, wild, raw=None, *, ws=True, plain=False):
    s = ""
    if ws and rng.random() < 0.15:
        s += rng.choice([" ", "  ", "\t"])
    s += op
    if ws and rng.random() < 0.25:
        s += rng.choice([" ", "  ", "\t"])
    if op == "===":
        s += raw
    else:
        s += GV.spell(rng, v, ws=False, plain=plain)
        if wild:
            s += ".*"
    if ws and rng.random() < 0.15:
        s += rng.choice([" ", "  ", "\t"])
    return s


def norm(v):
    """JSON round trip turns the ``pre`` tuple into a list"""
    v = dict(v)
    if v.get("pre"):
        v["pre"] = (v["pre"][0], v["pre"][1])
    return v


def valid_struct(v):
    return (isinstance(v, dict) and isinstance(v.get("epoch"), int) and v["epoch"] >= 0
            and isinstance(v.get("release"), list) and len(v["release"]) >= 1
            and all(isinstance(x, int) and x >= 0 for x in v["release"])
            and (v.get("pre") is None or (len(v["pre"]) == 2 and v["pre"][0] in ("a", "b", "rc") and isinstance(v["pre"][1], int)))
            and (v.get("post") is None or isinstance(v["post"], int))
            and (v.get("dev") is None or isinstance(v["dev"], int))
            and (v.get("local") is None or (len(v["local"]) >= 1 and all(
                (isinstance(x, int) and x >= 0) or (isinstance(x, str) and x and x.isascii() and x.isalnum() and x == x.lower() and not x.isdigit())
                for x in v["local"]))))


def valid_clause(op, v, wild):
    if op not in OPS or not valid_struct(v):
        return False
    if wild and (op not in ("==", "!=") or v["pre"] or v["post"] is not None or v["dev"] is not None or v["local"] is not None):
        return False
    if v["local"] is not None and op not in ("==", "!="):
        return False
    if op == "~=" and len(v["release"]) < 2:
        return False
    return True
