"""Structured generator of SPDX licence expressions over the bundled tables, token-level damage, spellings."""
from __future__ import annotations

import random

WS_COMMON = [" ", " ", " ", "  ", "\t", "\n"]
WS_ODD = ["\r", "\x0b", "\x0c", "\x1c", "\x1f", "\x85", "\xa0", "\u1680", "\u2003", "\u2028", "\u202f", "\u3000", " \t "]
# one representative per interesting code-point class for character damage
ODD_CHARS = ["\u212a", "\u017f", "\u0130", "\u0131", "\u03a3", "\u03c2", "\x00", "\\", "\ud800", "_", "+", "-", ".", "(", ")",
             "\xe9", "\u0661", "\uff21", "'", '"', ",", ":", "/", "*", "\u200b", "\ufeff", "0", "a", "Z", "\xdf", "\u01c5"]
REF_SUFFIXES = ["x", "Foo", "foo", "FOO", "a.b-c", "1", "-", ".", "MIT", "Proprietary", "Public-Domain", "a-very-long-suffix.0",
                # the reference part is preserved verbatim even when it looks like a prefix, a keyword or an operator
                "vendor.licenseref-eula", "a-LICENSEREF-b", "LicenseRef-x", "licenseref-", "x.LicenSeRef-y", "and", "OR", "with", "WITH-x",
                "mit", "Apache-2.0", "a.licenseref-.b"]
UNKNOWN = ["foo", "licence", "GPL", "true", "false", "not", "None", "mit2", "LicenseRef", "WITHx", "x-and-y", "1", "licenseref_x"]
OPS = ["AND", "OR"]


def tables():
    from packaging.licenses import _spdx
    lic = [v["id"] for v in _spdx.LICENSES.values()]
    exc = [v["id"] for v in _spdx.EXCEPTIONS.values()]
    return lic, exc


_POP = None


def popular():
    """a small pool so that expressions repeat identifiers, plus the whole table for breadth"""
    global _POP
    if _POP is None:
        lic, exc = tables()
        want = ["MIT", "ISC", "Apache-2.0", "GPL-2.0", "GPL-2.0-only", "GPL-3.0-or-later", "BSD-3-Clause", "0BSD", "Zlib", "MPL-2.0",
                "LGPL-2.1", "Unlicense", "Kastrup", "Python-2.0", "Linux-OpenIB"]
        _POP = ([x for x in want if x in lic] or lic[:10], exc[:4] + [e for e in exc if e.lower().startswith("classpath")], lic, exc)
    return _POP


def lic_id(rng):
    pl, _pe, lic, _exc = popular()
    return rng.choice(pl) if rng.random() < 0.7 else rng.choice(lic)


def exc_id(rng):
    _pl, pe, _lic, exc = popular()
    return rng.choice(pe) if rng.random() < 0.7 else rng.choice(exc)


def simple(rng):
    r = rng.random()
    if r < 0.18:
        return "LicenseRef-" + rng.choice(REF_SUFFIXES)
    if r < 0.33:
        return lic_id(rng) + "+"
    return lic_id(rng)


def expr(rng, depth=0, maxdepth=4):
    """a well-formed expression as a token list (canonical spellings)"""
    r = rng.random()
    if depth >= maxdepth or r < 0.35:
        s = [simple(rng)]
        if rng.random() < 0.25:
            s += ["WITH", exc_id(rng)]
        return s
    if r < 0.8:
        n = rng.choice([2, 2, 2, 3, 4])
        out = expr(rng, depth + 1, maxdepth)
        for _ in range(n - 1):
            out += [rng.choice(OPS)] + expr(rng, depth + 1, maxdepth)
        return out
    return ["("] + expr(rng, depth + 1, maxdepth) + [")"]


def is_word(t):
    return t not in ("(", ")") and t.upper() not in ("AND", "OR", "WITH")


DAMAGES = ["drop", "dup", "ins_op", "ins_with", "ins_lp", "ins_rp", "empty_parens", "wrap", "wrap_all", "plus_suffix", "plus_token",
           "with_clause", "unknown", "swap_role", "swap", "odd_char", "dup_with", "op_to_with", "ref_case", "flip_parens", "flip_parens", "shuffle"]


def damage(rng, toks, kind=None):
    """one token-level damage; returns (kind, tokens)"""
    t = list(toks)
    kind = kind or rng.choice(DAMAGES)
    n = len(t)
    i = rng.randrange(n) if n else 0
    j = rng.randrange(n + 1)
    lic, exc = popular()[2], popular()[3]
    if kind == "drop" and n:
        del t[i]
    elif kind == "dup" and n:
        t.insert(i, t[i])
    elif kind == "ins_op":
        t.insert(j, rng.choice(OPS))
    elif kind == "ins_with":
        t.insert(j, "WITH")
    elif kind == "ins_lp":
        t.insert(j, "(")
    elif kind == "ins_rp":
        t.insert(j, ")")
    elif kind == "empty_parens":
        glue = rng.choice([[], [], ["AND"], ["OR"], ["WITH"]])
        ins = (glue + ["(", ")"]) if rng.random() < 0.5 else (["(", ")"] + glue)
        t[j:j] = ins
    elif kind == "wrap" and n:
        # wrap a balanced range in one more pair of parentheses (doubled when the range is a group already)
        opens = [k for k, x in enumerate(t) if x == "("]
        if opens and rng.random() < 0.7:
            a = rng.choice(opens)
            d = 0
            b = a
            for k in range(a, n):
                d += t[k] == "("
                d -= t[k] == ")"
                if d == 0:
                    b = k
                    break
            t = t[:a] + ["("] + t[a : b + 1] + [")"] + t[b + 1 :]
        else:
            words = [k for k, x in enumerate(t) if is_word(x)]
            if words:
                a = rng.choice(words)
                t = t[:a] + ["(", "("] + [t[a]] + [")", ")"] + t[a + 1 :]
    elif kind == "wrap_all":
        t = ["("] * 1 + t + [")"] * 1
        if rng.random() < 0.5:
            t = ["("] + t + [")"]
    elif kind == "plus_suffix" and n:
        words = [k for k, x in enumerate(t) if is_word(x)]
        if words:
            a = rng.choice(words)
            t[a] = t[a] + "+"
    elif kind == "plus_token":
        t.insert(j, "+")
    elif kind == "with_clause":
        t[j:j] = ["WITH", exc_id(rng)]
    elif kind == "unknown" and n:
        words = [k for k, x in enumerate(t) if is_word(x)]
        if words:
            t[rng.choice(words)] = rng.choice(UNKNOWN)
    elif kind == "swap_role" and n:
        words = [k for k, x in enumerate(t) if is_word(x)]
        if words:
            a = rng.choice(words)
            after_with = a > 0 and t[a - 1].upper() == "WITH"
            t[a] = lic_id(rng) if after_with else exc_id(rng)
    elif kind == "swap" and n > 1:
        a = rng.randrange(n - 1)
        t[a], t[a + 1] = t[a + 1], t[a]
    elif kind == "odd_char" and n:
        w = t[i]
        p = rng.randrange(len(w) + 1)
        c = rng.choice(ODD_CHARS)
        t[i] = (w[:p] + c + w[p + (rng.random() < 0.5) :]) or c
    elif kind == "dup_with":
        ws = [k for k, x in enumerate(t) if x.upper() == "WITH"]
        if ws:
            a = rng.choice(ws)
            t[a + 2 : a + 2] = t[a : a + 2]
        else:
            t += ["WITH", exc_id(rng), "WITH", exc_id(rng)]
    elif kind == "op_to_with":
        ops = [k for k, x in enumerate(t) if x.upper() in ("AND", "OR")]
        if ops:
            t[rng.choice(ops)] = "WITH"
    elif kind == "flip_parens":
        # same number of '(' and ')', wrong order: a matching pair is turned inside out, `A ) op ( B`,
        # or an operator is split by `) (`
        opens = [k for k, x in enumerate(t) if x == "("]
        if opens and rng.random() < 0.6:
            a = rng.choice(opens)
            d = 0
            b = a
            for k in range(a, n):
                d += t[k] == "("
                d -= t[k] == ")"
                if d == 0:
                    b = k
                    break
            t[a], t[b] = ")", "("
        else:
            ops = [k for k, x in enumerate(t) if x.upper() in ("AND", "OR")]
            if ops:
                a = rng.choice(ops)
                t = t[:a] + [")", t[a], "("] + t[a + 1 :]
            else:
                t = [")"] + t + ["("]
    elif kind == "shuffle" and n > 2:
        # a permutation of the tokens (all counts preserved)
        a = rng.randrange(n - 1)
        b = rng.randrange(a + 1, n)
        seg = t[a : b + 1]
        rng.shuffle(seg)
        t[a : b + 1] = seg
    elif kind == "ref_case":
        # two LicenseRef tokens that differ only in letter case / a '+'
        suf = rng.choice(["Foo", "aB", "X.y"])
        a, b = "LicenseRef-" + suf, "LicenseRef-" + rng.choice([suf.lower(), suf.upper(), suf.swapcase(), suf + "+"])
        if rng.random() < 0.5:
            a, b = b, a
        t = t + [rng.choice(OPS), a, rng.choice(OPS), b] if t else [a, rng.choice(OPS), b]
    return kind, t


_UP = {c: c - 32 for c in range(97, 123)}
_LO = {c: c + 32 for c in range(65, 91)}
_SWAP = {**_UP, **_LO}


def spell_token(rng, t):
    """random *ASCII* letter case (the statement's notion of case; non-ASCII characters are left alone);
    a LicenseRef suffix keeps its case (it is significant)"""
    keep = 0
    if t.translate(_LO).startswith("licenseref-"):
        keep = len(t) - 11
    mode = rng.randrange(5)
    head = t[: len(t) - keep] if keep else t
    tail = t[len(t) - keep :] if keep else ""
    if mode == 0:
        pass
    elif mode == 1:
        head = head.translate(_LO)
    elif mode == 2:
        head = head.translate(_UP)
    elif mode == 3:
        head = head.translate(_SWAP)
    else:
        head = "".join(c.translate(_UP) if rng.random() < 0.5 else c.translate(_LO) for c in head)
    return head + tail


def ws(rng, required):
    r = rng.random()
    if not required and r < 0.5:
        return ""
    if r < 0.85:
        return rng.choice(WS_COMMON)
    return rng.choice(WS_ODD) + (rng.choice(WS_COMMON) if rng.random() < 0.3 else "")


def spell(rng, toks, recase=True):
    """a string that tokenises to ``toks`` (up to letter case when ``recase``)"""
    out = [ws(rng, False) if rng.random() < 0.2 else ""]
    prev = None
    for t in toks:
        if prev is not None:
            out.append(ws(rng, not (prev in "()" or t in "()")))
        out.append(spell_token(rng, t) if recase else t)
        prev = t
    if rng.random() < 0.2:
        out.append(ws(rng, False))
    return "".join(out)


ALPHABET = list("MITmitANDandORorWITHwith()()  +-.0") + ["LicenseRef-", "licenseref-", "\t", "\n", "\xa0", "\u212a", "\x00", "\xe9", "_", "\u03a3"]


def arbitrary(rng):
    n = rng.choice([0, 1, 2, 3, 5, 8, 13, 21])
    return "".join(rng.choice(ALPHABET) for _ in range(n))
