"""Real-code glue for the marker properties (C07, C09): protocol answers of the implementation, the
tables of external answers handed to the model (`Mk.Ext`), and the text-level laws shared by both."""
from __future__ import annotations

import random
import warnings

import core
from gen import markers as G

warnings.filterwarnings("ignore", category=SyntaxWarning)      # literal_eval of unknown escapes
warnings.filterwarnings("ignore", category=DeprecationWarning)

DOCUMENTED = {"InvalidMarker", "UndefinedComparison", "UndefinedEnvironmentName"}


def mods():
    from packaging import _parser, _tokenizer, markers, utils
    return markers, _parser, _tokenizer, utils


def exc_str(e, documented):
    n = type(e).__name__
    return ("err " if n in documented else "raw ") + n


# ---------------------------------------------------------------- external answers as tables
_default_env = None


def default_env():
    global _default_env
    if _default_env is None:
        _default_env = dict(mods()[0].default_environment())
    return _default_env


def _walk(tree):
    vals, atoms = [], []

    def walk(x):
        if isinstance(x, tuple):
            atoms.append(x)
            vals.append(x[0].value)
            vals.append(x[2].value)
        elif isinstance(x, list):
            for y in x:
                walk(y)
    walk(tree)
    return vals, atoms


def node_values(src):
    """values of all Variable / Value nodes the parser produces for this text (empty if it does not parse),
    and the tuples of the constructed Marker (after the normalisation of extra names)"""
    markers, _parser, _tokenizer, _ = mods()
    try:
        vals, _ = _walk(_parser.parse_marker(src))
    except Exception:
        return [], []
    try:
        vals2, atoms = _walk(markers.Marker(src)._markers)
    except Exception:
        vals2, atoms = [], []
    return vals + vals2, atoms


def canon_table(strings):
    utils = mods()[3]
    tab = {}
    for s in strings:
        if not isinstance(s, str) or s in tab:
            continue
        c = utils.canonicalize_name(s)
        tab[s] = c
        tab.setdefault(c, utils.canonicalize_name(c))
    return tab


def enc_pairs(d):
    return ";".join(core.enc(k) + "," + core.enc(v) for k, v in d.items()) or "_"


def enc_env(env):
    if env is None:
        return "~"
    return ";".join(core.enc(k) + "," + core.enc(v) for k, v in env.items()) or "_"


def dec_env(a):
    if a == "~":
        return None
    out = {}
    if a and a != "_":
        for e in a.split(";"):
            k, v = e.split(",")
            out[core.dec(k)] = core.dec(v)
    return out


def eval_tables(src, env):
    """canon + spec tables covering every lookup the model can make for (src, env)"""
    _markers, _parser, _tok, utils = mods()
    vals, atoms = node_values(src)
    try:
        eff = G.effective_env(default_env(), env)
    except Exception:
        eff = {}
    strings = list(vals) + [v for v in eff.values() if isinstance(v, str)]
    canon = canon_table(strings)
    spec = {}
    for lhs, op, rhs in atoms:
        Variable = _parser.Variable
        if isinstance(lhs, Variable):
            key = lhs.value
            l0, r0 = eff.get(key), rhs.value
        else:
            key = rhs.value
            l0, r0 = lhs.value, eff.get(key)
        if not isinstance(l0, str) or not isinstance(r0, str):
            continue
        if key == "extra":
            l0, r0 = canon[l0], canon[r0]
        o = op.value
        if (o, r0, l0) not in spec:
            spec[(o, r0, l0)] = G.spec_answer(o, r0, l0)
    return canon, spec


def enc_spec(spec):
    return ";".join(",".join([core.enc(o), core.enc(r), core.enc(l), a]) for (o, r, l), a in spec.items()) or "_"


# ---------------------------------------------------------------- protocol answers of the implementation
def real_str(src):
    markers = mods()[0]
    try:
        return "ok " + core.enc(str(markers.Marker(src)))
    except Exception as e:
        return exc_str(e, {"InvalidMarker"})


def real_rt(src):
    markers = mods()[0]
    try:
        m = markers.Marker(src)
    except Exception as e:
        return exc_str(e, {"InvalidMarker"})
    s1 = str(m)
    try:
        m2 = markers.Marker(s1)
    except Exception as e:
        return f"ok {core.enc(s1)} {exc_str(e, {'InvalidMarker'})} -"
    return f"ok {core.enc(s1)} ok {core.enc(str(m2))} {core.encb(m == m2)}"


def real_eq(a, b):
    markers = mods()[0]
    try:
        ma = markers.Marker(a)
    except Exception as e:
        return exc_str(e, {"InvalidMarker"})
    try:
        mb = markers.Marker(b)
    except Exception as e:
        return exc_str(e, {"InvalidMarker"})
    return core.encb(ma == mb) + core.encb(hash(ma) == hash(mb))


def real_eval(src, env):
    markers = mods()[0]
    try:
        m = markers.Marker(src)
    except Exception as e:
        return "ctor " + exc_str(e, {"InvalidMarker"})
    try:
        r = m.evaluate(None if env is None else dict(env))
    except Exception as e:
        return exc_str(e, {"UndefinedComparison", "UndefinedEnvironmentName"})
    return "ok " + core.encb(r) if isinstance(r, bool) else "raw non-bool"


def is_quoted_token(tok):
    return len(tok) >= 2 and tok[0] in "'\"" and tok[-1] == tok[0] and tok[0] not in tok[1:-1]


def real_lit(tok):
    _parser = mods()[1]
    if not is_quoted_token(tok):
        return "bad-token"
    try:
        return "ok " + core.enc(_parser.process_python_str(tok).value)
    except Exception as e:
        return exc_str(e, set())


def real_match(rule, src, pos):
    _tok = mods()[2]
    t = _tok.Tokenizer(src, rules=_tok.DEFAULT_RULES)
    t.position = pos
    if not t.check(rule):
        return "~"
    return str(len(t.next_token.text))


# ---------------------------------------------------------------- case builders (protocol lines)
def case_str(src):
    vals, _ = node_values(src)
    return ("mk.str", [core.enc(src), enc_pairs(canon_table(vals))])


def case_rt(src):
    vals, _ = node_values(src)
    try:
        vals = vals + node_values(str(mods()[0].Marker(src)))[0]
    except Exception:
        pass
    return ("mk.rt", [core.enc(src), enc_pairs(canon_table(vals))])


def case_eq(a, b):
    return ("mk.eq", [core.enc(a), core.enc(b), enc_pairs(canon_table(node_values(a)[0] + node_values(b)[0]))])


def case_eval(src, env):
    canon, spec = eval_tables(src, env)
    return ("mk.eval", [core.enc(src), enc_pairs(default_env()), enc_env(env), enc_pairs(canon), enc_spec(spec)])


def marker_text(inp):
    """the text a law input denotes: given directly, or a tree rendered with a seed"""
    if "marker" in inp:
        return inp["marker"]
    return G.render(inp["tree"], random.Random(inp["seed"]), **inp.get("opts", {}))


def env_of(inp):
    e = inp.get("env")
    if e is not None and not isinstance(e, dict):
        raise TypeError("env")
    if e is not None:
        for k, v in e.items():
            if not (isinstance(v, str) or (v is None and k == "extra")):
                raise TypeError("environment values are strings (extra may be None)")
        if not isinstance(e.get("python_full_version", ""), str):
            raise TypeError("env")
    return e
