"""Generators for C17 / C18: RawMetadata dicts (per-field value pools), header documents, protocol encoders,
and the independent (statement-side) reference tables used by the laws.

Nothing in the *reference* part (SPEC_*) is read from packaging.metadata: it is written from the core
metadata specification, so that a changed table in the code shows up as a disagreement.
"""
from __future__ import annotations

import core

# --------------------------------------------------------------------------- reference tables (from the specification)
SPEC_VERSIONS = ["1.0", "1.1", "1.2", "2.1", "2.2", "2.3", "2.4"]

# raw key -> (header name, type, introduced in)
SPEC_FIELDS = {
    "metadata_version": ("Metadata-Version", "str", "1.0"),
    "name": ("Name", "str", "1.0"),
    "version": ("Version", "str", "1.0"),
    "platforms": ("Platform", "list", "1.0"),
    "summary": ("Summary", "str", "1.0"),
    "description": ("Description", "str", "1.0"),
    "keywords": ("Keywords", "keywords", "1.0"),
    "home_page": ("Home-page", "str", "1.0"),
    "author": ("Author", "str", "1.0"),
    "author_email": ("Author-email", "str", "1.0"),
    "license": ("License", "str", "1.0"),
    "supported_platforms": ("Supported-Platform", "list", "1.1"),
    "download_url": ("Download-URL", "str", "1.1"),
    "classifiers": ("Classifier", "list", "1.1"),
    "requires": ("Requires", "list", "1.1"),
    "provides": ("Provides", "list", "1.1"),
    "obsoletes": ("Obsoletes", "list", "1.1"),
    "maintainer": ("Maintainer", "str", "1.2"),
    "maintainer_email": ("Maintainer-email", "str", "1.2"),
    "requires_dist": ("Requires-Dist", "list", "1.2"),
    "provides_dist": ("Provides-Dist", "list", "1.2"),
    "obsoletes_dist": ("Obsoletes-Dist", "list", "1.2"),
    "requires_python": ("Requires-Python", "str", "1.2"),
    "requires_external": ("Requires-External", "list", "1.2"),
    "project_urls": ("Project-URL", "dict", "1.2"),
    "description_content_type": ("Description-Content-Type", "str", "2.1"),
    "provides_extra": ("Provides-Extra", "list", "2.1"),
    "dynamic": ("Dynamic", "list", "2.2"),
    "license_expression": ("License-Expression", "str", "2.4"),
    "license_files": ("License-File", "list", "2.4"),
}
FIELDS = list(SPEC_FIELDS)
HEADER_TO_KEY = {h.lower(): k for k, (h, _, _) in SPEC_FIELDS.items()}


def email_name(key):
    return SPEC_FIELDS[key][0].lower()


def age(v):
    return SPEC_VERSIONS.index(v)


# --------------------------------------------------------------------------- value pools: (valid, invalid, escaping)
TEXTS = ["x", "A summary", "héllo wörld", "日本語", "", " padded ", "a,b", "=?utf-8?q?caf=C3=A9?=", "tab\there",
         "ſtrange K", "a\x00b", "semi;colon: colon",
         # valid text that *looks* like the trace of a failed decode / an escape (validity is decided on the bytes)
         "replacement \ufffd char", "\ufffd", "bom\ufeffinside", "nbsp\u00a0here", "\U0001f600 emoji", "back\\slash", "?", "caf\u00e9 \ufffd"]
MULTILINE = ["line one\nline two", "para\n\npara", "cr\rhere", "trailing\n", "\n"]
URLS = ["https://example.com", "https://example.com/a,b", "", "not a url"]

POOLS = {
    "metadata_version": (SPEC_VERSIONS, ["2.0", "1", "", "2.5", "3.0", " 2.1", "2.1 ", "1.3", "2.10", "٢.١"], []),
    "name": (["foo", "Foo.Bar_baz", "a", "a1", "A-B", "x.y-z_w"], ["", "-foo", "foo-", "foo bar", "fo/o", "naïve", "_", ".a", "foo\n"], []),
    "version": (["1.0", "1.0a1", "2!1.0.post1+local.1", " 1.0 ", "v1.0", "1.0.dev0", "1", "2024.1.1rc2"],
                ["", "abc", "1.0.x", "1..0", "1.0+", "١.٠"], ["9" * 4400]),
    "summary": (["A summary", "", "héllo", "cr\rhere", "x" * 50], ["two\nlines", "\n", "trailing\n"], []),
    "description": (TEXTS + MULTILINE, [], []),
    "description_content_type": (
        ["text/plain", "text/x-rst", "text/markdown", "text/markdown; variant=GFM", "text/markdown; variant=CommonMark",
         "text/plain; charset=UTF-8", "TEXT/PLAIN", "text/markdown; charset=UTF-8; variant=GFM", "text/x-rst; variant=foo",
         "text/Markdown", "text/plain; charset=\"UTF-8\"", "text/plain;charset=UTF-8", " text/plain"],
        ["text/html", "text/plain; charset=ascii", "text/plain; charset=utf-8", "text/markdown; variant=gh", "",
         "garbage", "application/json", "text/markdown; variant=gfm", "text", "text/plain; charset=UTF-8; charset=ascii",
         "text/x-rst; charset=latin1", "text/plainx", "xtext/plain", "text/plain, text/html"],
        ["text/plain\nfoo", "text/markdown\r\n", "text/x-rst\r; variant=a",
         # RFC 2231 parameter syntax the standard library's header parser trips over
         "text/plain; a*", "text/plain; a*0*=\"x'", "text/plain; charset*", "text/markdown; variant*=", "text/plain; charset*0=UTF-8",
         "text/plain; charset*=utf-8''UTF-8", "text/plain; charset*0*=''UTF; charset*1=-8"]),
    "keywords": ([["a", "b"], [], ["one"], ["with space", "ünï"], [""]], [], []),
    "dynamic": ([["Author", "requires-dist"], ["LICENSE-FILE"], [], ["Keywords"], ["description", "Summary", "classifier"],
                 ["Keywords"]],
                [["Name"], ["version"], ["Metadata-Version"], ["bogus"], ["author_email"], ["Author", "NAME"], [""],
                 ["İ"], ["requires_dist"], ["Author", "x", "Name"]], []),
    "provides_extra": ([["foo", "Foo_Bar"], [], ["a"], ["A.B-c"]], [[""], ["-x"], ["ok", "not ok"], ["x", "y", "bad!"]], []),
    "requires_python": ([">=3.8", "", ">=3.8,<4", "~=3.7", " >= 3 ", "!=3.0.*,>=2.7", "==3.*"],
                        ["3.8", ">=", "python>=3", ">=3.8;", "~=3", "=>3"], []),
    "requires_dist": ([["foo>=1.0", "bar[extra]; python_version<'3.9'"], ["baz @ https://x/y"], [], ["a", "b", "c"],
                       ["Foo_Bar [A,b] >=1,<2 ; os_name=='nt'"]],
                      [["foo bar"], [">=1"], ["ok", "not ok", "ok2"], [""], ["foo; bogus_marker == '1'"], ["foo["]],
                      [["foo; os_name == '\\x'"], ["ok", "foo; os_name == '\\x'", "not ok"]]),
    "license_expression": (["MIT", "mit OR apache-2.0", "LicenseRef-Foo", "(MIT AND BSD-3-Clause) or GPL-2.0+",
                            "GPL-2.0-only WITH Classpath-exception-2.0"],
                           ["MIT OR", "NotALicense", "", "MIT MIT", "()", "AND"], ["LicenseRef-foo+"]),
    "license_files": ([["LICENSE", "licenses/MIT.txt"], [], ["a/b/c"], ["LICENSE.txt", "NOTICE"], ["with space/x"], ["ünï"]],
                      [["../x"], ["*.txt"], ["/abs"], ["C:\\x"], ["a\\b"], ["a..b"], ["ok", "/abs"], ["C:/x"], ["\\\\srv\\share\\x"],
                       ["c:rel"], ["a/../b"], ["x*"]], []),
    "project_urls": ([{"Home": "https://example.com"}, {}, {"a": "1", "b": "2"}, {"": ""}, {"Docs, more": "u,v"}], [], []),
}
# values containing str.format metacharacters: an error message built by formatting a template that already holds the
# value must not choke on them
_BRACES = {"metadata_version": ["{x}", "2.{}"], "name": ["{x}", "{0}", "a{", "}"], "version": ["{0}", "1.{x}", "{"],
           "summary": ["{}\n", "{x}\nb"], "description_content_type": ["text/{x}", "{0}", "text/plain; charset={}"],
           "dynamic": [["{x}"], ["Name{}"]], "provides_extra": [["{x}"], ["a{0}"]], "requires_python": ["{x}", ">={0}"],
           "requires_dist": [["{x}"], ["a{}b >= {0}"]], "license_expression": ["{x}", "MIT OR {0}", "{"],
           "license_files": [["../{x}"], ["/{0}"], ["{}*"]]}
for _k, _vals in _BRACES.items():
    POOLS[_k] = (POOLS[_k][0], POOLS[_k][1] + _vals, POOLS[_k][2])
STR_GENERIC = ["home_page", "download_url", "author", "author_email", "maintainer", "maintainer_email", "license"]
LIST_GENERIC = ["platforms", "supported_platforms", "classifiers", "requires_external", "provides_dist", "obsoletes_dist",
                "requires", "provides", "obsoletes"]
for _k in STR_GENERIC:
    POOLS[_k] = (TEXTS + MULTILINE[:2] + URLS, [], [])
for _k in LIST_GENERIC:
    POOLS[_k] = ([["x"], [], ["a", "b", "a"], ["héllo", "wörld"], ["multi\nline"], ["Programming Language :: Python :: 3"]], [], [])

UNKNOWN_KEYS = ["bogus", "Name", "home-page", "metadata-version", "", "naïve", "from_raw", "from_email", "_raw",
                "__doc__", "__module__", "__class__", "__init__", "__dict__", "__weakref__", "__annotations__", "x" * 12]


def pick(rng, key, kind):
    """a value for ``key``: kind in valid / invalid / escape (falls back to valid)"""
    v, i, e = POOLS[key]
    pool = {"valid": v, "invalid": i or v, "escape": e or i or v}[kind]
    x = rng.choice(pool)
    return x.copy() if isinstance(x, (list, dict)) else x


def raw_dict(rng):
    """(data, plan) — a RawMetadata-shaped dict.  plan is only a label for the measured distribution."""
    r = rng.random()
    mv_valid = r < 0.85
    mv = rng.choice(SPEC_VERSIONS) if mv_valid else rng.choice(POOLS["metadata_version"][1] + [None])
    plan = "all-valid" if (mv_valid and rng.random() < 0.45) else "mixed"
    data = {}
    if mv is not None:
        data["metadata_version"] = mv
    keys = [k for k in FIELDS if k != "metadata_version"]
    if plan == "all-valid":
        a = age(mv)
        data["name"] = pick(rng, "name", "valid")
        data["version"] = pick(rng, "version", "valid")
        p = rng.choice([0.1, 0.3, 0.6, 1.0])
        for k in keys:
            if k in data or age(SPEC_FIELDS[k][2]) > a:
                continue
            if rng.random() < p:
                data[k] = pick(rng, k, "valid")
        if rng.random() < 0.08:
            # one single deviation: the interesting boundary of "accepts iff"
            dev = rng.randrange(5)
            plan = f"one-off-{dev}"
            if dev == 0:
                newer = [k for k in keys if age(SPEC_FIELDS[k][2]) == a + 1]
                if newer:
                    k = rng.choice(newer)
                    data[k] = pick(rng, k, "valid")
            elif dev == 1:
                cand = [k for k in data if POOLS[k][1] and k != "metadata_version"]
                if cand:
                    k = rng.choice(cand)
                    data[k] = pick(rng, k, "invalid")
            elif dev == 2:
                data[rng.choice(UNKNOWN_KEYS)] = rng.choice(["x", ["x"]])
            elif dev == 3:
                del data[rng.choice(["name", "version"])]
            else:
                k = rng.choice(keys)
                data[k] = None
    else:
        p = rng.choice([0.05, 0.2, 0.5, 0.9])
        pinv = rng.choice([0.0, 0.1, 0.3, 0.7])
        for k in ["name", "version"]:
            if rng.random() < 0.85:
                data[k] = pick(rng, k, "invalid" if rng.random() < pinv else "valid")
        for k in keys:
            if k in ("name", "version"):
                continue
            if rng.random() < p:
                q = rng.random()
                kind = "escape" if q < 0.02 else ("invalid" if q < pinv else "valid")
                data[k] = pick(rng, k, kind)
        if rng.random() < 0.25:
            for _ in range(rng.choice([1, 1, 2])):
                data[rng.choice(UNKNOWN_KEYS)] = rng.choice(["x", ["x"], ""])
        if rng.random() < 0.05 and data:
            data[rng.choice(list(data))] = None
    # shuffle insertion order (dict order drives the frozenset layout)
    items = list(data.items())
    rng.shuffle(items)
    return dict(items), plan


def read_seq(rng, data):
    present = [k for k in data if k in SPEC_FIELDS]
    n = rng.choice([0, 1, 2, 3, 5, 8, 12])
    out = []
    for _ in range(n):
        r = rng.random()
        if out and r < 0.3:
            out.append(rng.choice(out))          # repeat
        elif present and r < 0.8:
            out.append(rng.choice(present))
        elif r < 0.97:
            out.append(rng.choice(FIELDS))
        else:
            out.append(rng.choice(["bogus", "from_raw", "_raw", "__doc__", "Name"]))    # not a field
    return out


# --------------------------------------------------------------------------- protocol encoding (C17)
def enc_val(v):
    if v is None:
        return "n"
    if isinstance(v, str):
        return "s" + core.enc(v)
    if isinstance(v, (list, tuple)):
        return "l" + ",".join(core.enc(str(x)) for x in v)
    if isinstance(v, dict):
        return "d" + ",".join(core.enc(k) + "=" + core.enc(x) for k, x in sorted(v.items()))
    return "s" + core.enc(str(v))


def enc_dict(d):
    return ";".join(core.enc(k) + ">" + enc_val(v) for k, v in d.items()) or "_"


def enc_atoms(xs):
    return ",".join(core.enc(x) for x in xs) or "_"


def _verdict(fn, s, caught):
    try:
        r = fn(s)
    except caught:
        return "b"
    except Exception as e:  # anything the _process_ method does not catch
        return "x" + core.enc(type(e).__name__)
    return "o" + core.enc(str(r))


def oracle_table(data):
    """the component parsers' and the standard library's answers for every string in ``data`` (protocol form)"""
    import email.message
    import pathlib

    from packaging import licenses, requirements, specifiers, utils, version

    ent = {}

    def strs(v):
        if isinstance(v, str):
            return [v]
        if isinstance(v, (list, tuple)):
            return [x for x in v if isinstance(x, str)]
        return []

    for s in strs(data.get("name")) + strs(data.get("provides_extra")):
        ent[("n", s)] = _verdict(lambda x: utils.canonicalize_name(x, validate=True), s, utils.InvalidName)
    for s in strs(data.get("version")):
        ent[("v", s)] = _verdict(version.parse, s, version.InvalidVersion)
    for s in strs(data.get("requires_python")):
        ent[("s", s)] = _verdict(specifiers.SpecifierSet, s, specifiers.InvalidSpecifier)
    for s in strs(data.get("requires_dist")):
        ent[("r", s)] = _verdict(requirements.Requirement, s, requirements.InvalidRequirement)
    for s in strs(data.get("license_expression")):
        ent[("l", s)] = _verdict(licenses.canonicalize_license_expression, s, ValueError)
    for s in strs(data.get("description_content_type")):
        try:
            m = email.message.EmailMessage()
            m["content-type"] = s
            ct = m.get_content_type().lower()
            params = m["content-type"].params
            cs, var = params.get("charset"), params.get("variant")
            ent[("c", s)] = "p" + ",".join([core.enc(ct), core.enc(cs), core.enc(var)])
        except (ValueError, IndexError):      # the two classes _process_description_content_type turns into InvalidMetadata
            ent[("c", s)] = "b"
        except Exception as e:
            ent[("c", s)] = "x" + core.enc(type(e).__name__)
        ent[("L", s)] = core.enc(s.lower())
    for s in strs(data.get("dynamic")):
        ent[("L", s)] = core.enc(s.lower())
    for s in strs(data.get("license_files")):
        ent[("pa", s)] = core.encb(pathlib.PurePosixPath(s).is_absolute())
        ent[("wa", s)] = core.encb(pathlib.PureWindowsPath(s).is_absolute())
        ent[("wp", s)] = core.enc(pathlib.PureWindowsPath(s).as_posix())
    return ";".join(f"{k}:{core.enc(s)}:{a}" for (k, s), a in ent.items()) or "_"


# --------------------------------------------------------------------------- documents (C18)
KNOWN_HEADERS = [h for h, _, _ in SPEC_FIELDS.values()]
UNKNOWN_HEADERS = ["X-Foo", "Bogus", "Home_page", "Requires-Dists", "Comment", "X-Ünï"]
MIME_HEADERS = ["Content-Type", "Content-Transfer-Encoding", "MIME-Version"]
BAD_BYTES = ["ff", "c3", "e282", "c0af", "eda080", "f4908080", "80", "61ff62", "f8888080", "c328"]
GOOD_BYTES = ["c3a9", "e282ac", "f09f9880", "efbbbf", "ed9fbf", "f48fbfbf", "7f", "00"]


def spell_name(rng, h):
    k = rng.randrange(5)
    if k == 0:
        return h
    if k == 1:
        return h.lower()
    if k == 2:
        return h.upper()
    if k == 3:
        return "".join(c.upper() if rng.random() < 0.5 else c.lower() for c in h)
    return h.title()


def header_value(rng, key, *, plain=False, as_bytes=True):
    """a value spec for the header of raw key ``key`` (or None for an unknown header)"""
    typ = SPEC_FIELDS[key][1] if key else "str"
    if typ == "keywords":
        t = rng.choice(["a, b, c", "one", "", " spaced ,  out ", "a,,b", "ünï, cödé", ","])
    elif typ == "dict":
        t = rng.choice(["Home, https://example.com", "Docs,https://d", "NoComma", "", ", url-only", "a, b, c", "Home, other",
                        " Home ,x", "ünï, https://ü"])
    else:
        t = rng.choice(TEXTS + ["1.0", "foo", "text/markdown", ">=3.8", "2.1", "MIT"])
    if plain:
        return ["t", t]
    r = rng.random()
    if r < 0.62:
        return ["t", t]
    if r < 0.72:
        return ["f", [t, rng.choice(TEXTS), rng.choice(["more", ""])]]
    if r < 0.80:
        return ["q", t or "x"]
    if r < 0.92:
        if not as_bytes and rng.random() < 0.85 and not t.isascii():
            t = "plain ascii"      # str input: non-ASCII next to an escaped byte makes the stdlib raise (kept rare)
        return ["x", t.encode("utf-8", "surrogatepass").hex() + rng.choice(BAD_BYTES)]
    return ["x", rng.choice(GOOD_BYTES) + t.encode("utf-8", "surrogatepass").hex()]


def document(rng, *, wellformed=False):
    """a header document as a JSON structure (see build_doc)"""
    as_bytes = rng.random() < 0.5
    nl = "\r\n" if rng.random() < 0.15 else "\n"
    headers = []
    n = rng.choice([0, 1, 2, 3, 5, 8])
    keys = list(SPEC_FIELDS)
    for _ in range(n):
        r = rng.random()
        if r < 0.70:
            key = rng.choice(keys)
            name = spell_name(rng, SPEC_FIELDS[key][0])
        elif r < 0.92 or wellformed:
            key = None
            name = spell_name(rng, rng.choice(UNKNOWN_HEADERS[:5]))
        else:
            key = None
            name = spell_name(rng, rng.choice(MIME_HEADERS))
        reps = rng.choice([1, 1, 1, 1, 2, 3])
        for _ in range(reps):
            if key is None and name.lower() in ("content-type", "content-transfer-encoding", "mime-version"):
                v = ["t", rng.choice(["multipart/mixed; boundary=x", "message/rfc822", "text/plain", "base64", "quoted-printable",
                                      "1.0", "multipart/mixed", "text/plain; charset=latin-1", "8bit", "multipart/alternative; boundary=\"b\""])]
            else:
                v = header_value(rng, key, plain=wellformed and rng.random() < 0.9, as_bytes=as_bytes)
            headers.append([spell_name(rng, name) if rng.random() < 0.3 else name, v])
    if rng.random() < 0.5:
        rng.shuffle(headers)
    r = rng.random()
    if r < 0.4:
        body = None
    elif r < 0.85 or wellformed:
        body = ["t", rng.choice(TEXTS + MULTILINE + ["--x\n\nfoo\n--x--\n", "Name: inner\n\ninner body", "aGVsbG8=\n", " "])]
    else:
        body = ["x", rng.choice(BAD_BYTES + GOOD_BYTES) + "0a"]
    return {"bytes": as_bytes, "nl": nl, "headers": headers, "body": body}


def doc_from_raw(rng, raw):
    """a document that serialises a RawMetadata dict (single-line values as headers, the description as body)"""
    headers = []
    body = None
    for key, v in raw.items():
        if key not in SPEC_FIELDS or v is None:
            continue
        name, typ, _ = SPEC_FIELDS[key]
        if key == "description":
            body = ["t", v]
            continue
        vals = [v] if typ == "str" else (v if typ == "list" else ([", ".join(v)] if typ == "keywords" else
                                                                     [f"{a}, {b}" for a, b in v.items()]))
        for x in vals:
            if "\n" in x or "\r" in x:
                continue
            headers.append([spell_name(rng, name), ["t", x]])
    return {"bytes": rng.random() < 0.5, "nl": "\n", "headers": headers, "body": body}


def _q(text):
    return "=?utf-8?q?" + "".join("=%02X" % b if (b > 126 or b < 33 or chr(b) in "=?_") else chr(b) for b in text.encode("utf-8", "surrogatepass")) + "?="


def _val_bytes(v, nl):
    k, x = v
    if k == "t":
        return x.encode("utf-8", "surrogatepass")
    if k == "f":
        return (nl + " ").join(x).encode("utf-8", "surrogatepass")
    if k == "q":
        return _q(x).encode("ascii")
    if k == "x":
        return bytes.fromhex(x)
    raise KeyError(k)


def build_doc(doc):
    """the text of the document: bytes, or str (bytes read with surrogateescape, i.e. as the caller who managed
    the encoding would see undecodable bytes; text specs keep their characters)"""
    nl = doc["nl"]
    out = []
    for name, v in doc["headers"]:
        out.append(name.encode("utf-8") + b": " + _val_bytes(v, nl) + nl.encode())
    if doc["body"] is not None:
        out.append(nl.encode())
        out.append(_val_bytes(doc["body"], nl))
    data = b"".join(out)
    if doc["bytes"]:
        return data
    # str input: decode what is UTF-8, keep the rest as surrogate escapes
    text = data.decode("utf-8", "surrogateescape")
    if doc.get("lone"):
        text = "Comment: a\ud800b" + nl + text        # a lone surrogate that is not an escaped byte
    return text


def enc_bytes(b):
    return ".".join(format(x, "x") for x in b) or "-"


def extract_doc(data):
    """what the standard-library parser presents to parse_email's loop, in protocol form:
    (order, hdrs, payload).  Raises if the stdlib itself raises while presenting a header."""
    import email.header
    import email.parser
    import email.policy

    # the same standard-library call parse_email makes
    if isinstance(data, str):
        parsed = email.parser.Parser(policy=email.policy.compat32).parsestr(data, headersonly=True)
    else:
        parsed = email.parser.BytesParser(policy=email.policy.compat32).parsebytes(data, headersonly=True)
    order = sorted(frozenset(parsed.keys()))      # the loop visits the spelled names sorted
    hdrs = []
    for k, v in parsed.items():
        if isinstance(v, email.header.Header):
            try:
                chunks = [b for b, _ in email.header.decode_header(v)]
                hv = "h" + ",".join(enc_bytes(b) for b in chunks)
            except Exception as e:
                hv = "e" + core.enc(type(e).__name__)
        else:
            hv = "s" + core.enc(v)
        hdrs.append(core.enc(k) + ">" + hv)
    if isinstance(data, str):
        p = parsed.get_payload()
        payload = "s" + core.enc(p) if isinstance(p, str) else "o"
    else:
        del parsed["content-transfer-encoding"]      # as _get_payload does: the body's bytes, not transfer-decoded
        p = parsed.get_payload(decode=True)
        payload = "b" + enc_bytes(p) if isinstance(p, bytes) else "o"
    return enc_atoms(order), ";".join(hdrs) or "_", payload


def enc_parsed(raw, unparsed):
    def uv(x):
        return "b" + enc_bytes(x) if isinstance(x, bytes) else "s" + core.enc(x)
    a = ";".join(core.enc(k) + ">" + enc_val(v) for k, v in sorted(raw.items()))
    b = ";".join(core.enc(k) + ">" + ",".join(uv(x) for x in vs) for k, vs in sorted(unparsed.items()))
    return a + "|" + b
