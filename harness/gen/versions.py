"""Structured generator of PEP 440 versions in every alternate spelling, plus a malformed stream."""
from __future__ import annotations

PRE_SPELL = {"a": ["a", "alpha"], "b": ["b", "beta"], "rc": ["rc", "c", "pre", "preview"]}
POST_SPELL = ["post", "rev", "r"]
SEPS = ["", ".", "-", "_"]
WS = [" ", "\t", "\n", "\r", "\f", "\v"]
SMALL = [0, 0, 0, 1, 1, 2, 3, 10]
LOCAL_ALPHA = ["a", "b", "abc", "ubuntu", "z", "a1", "1a", "local", "x"]
# one representative per interesting code-point class (see DESIGN §3.2)
ODD_CHARS = ["ſ", "İ", "ı", "K", "١", " ", " ", "\x00", "\r", "\n", "\\", "\ud800",
             "\x1c", "\x1f", "\x85", "²", "１", "é", "+", "!", "-", "_", ".", "*", "v", "V", " ", "0", "a", "(", ")", ";", ",",
             "{", "}", "{x}", "{0}", "%s", "\\", "'", "\"", "#", "[", "]", "@", "/", ":"]


BIG = [99, 2024, 10**9, 2**31 - 1, 2**31, 2**32, 2**63 - 2, 2**63 - 1, 2**63, 2**63 + 1, 2**64 - 1, 2**64, 2**64 + 1, 10**20, 10**30]


def num(rng, big=False):
    """component magnitudes are unbounded in the properties: machine-word boundaries are generated on purpose"""
    if rng.random() < (0.05 if big else 0.025):
        return rng.choice(BIG)
    return rng.choice(SMALL)


def struct(rng, *, allow_local=True, allow_epoch=True, maxrel=4):
    rel = [num(rng, True)] + [num(rng, True) for _ in range(rng.choice([0, 0, 1, 1, 2, 2, 3, maxrel - 1]))]
    v = {
        "epoch": (rng.choice([0, 0, 0, 1, 2]) if allow_epoch else 0),
        "release": rel,
        "pre": (rng.choice(["a", "b", "rc"]), num(rng)) if rng.random() < 0.35 else None,
        "post": num(rng) if rng.random() < 0.3 else None,
        "dev": num(rng) if rng.random() < 0.3 else None,
        "local": None,
    }
    if allow_local and rng.random() < 0.3:
        v["local"] = [rng.choice([rng.choice(LOCAL_ALPHA), rng.choice(SMALL)]) for _ in range(rng.choice([1, 1, 2, 3]))]
    return v


def neighbour(rng, v):
    """a version close to ``v`` in the order (one component nudged / added / removed)"""
    w = {k: (list(x) if isinstance(x, list) else x) for k, x in v.items()}
    k = rng.randrange(11)
    if k == 0:
        w["epoch"] = max(0, w["epoch"] + rng.choice([-1, 1]))
    elif k == 1:
        i = rng.randrange(len(w["release"]))
        w["release"][i] = max(0, w["release"][i] + rng.choice([-1, 1]))
    elif k == 2:
        w["release"] = w["release"] + [0] * rng.choice([1, 2])
    elif k == 3 and len(w["release"]) > 1:
        w["release"] = w["release"][:-1]
    elif k == 4:
        w["pre"] = None if w["pre"] and rng.random() < 0.5 else (rng.choice(["a", "b", "rc"]), num(rng))
    elif k == 5:
        w["post"] = None if w["post"] is not None and rng.random() < 0.5 else num(rng)
    elif k == 6:
        w["dev"] = None if w["dev"] is not None and rng.random() < 0.5 else num(rng)
    elif k == 7:
        if w["local"] is None:
            w["local"] = [rng.choice([rng.choice(LOCAL_ALPHA), rng.choice(SMALL)])]
        elif rng.random() < 0.4:
            w["local"] = None
        else:
            w["local"] = w["local"] + [rng.choice([rng.choice(LOCAL_ALPHA), rng.choice(SMALL)])]
    elif k >= 8:
        # change one local segment in place: other type, nudged value, or changed case-insensitive text
        if w["local"] is None:
            w["local"] = [rng.choice([0, 0, 1, "a", "b"])]
        else:
            i = rng.randrange(len(w["local"]))
            x = w["local"][i]
            if isinstance(x, int):
                w["local"][i] = rng.choice([rng.choice(LOCAL_ALPHA), max(0, x + rng.choice([-1, 1])), 0])
            else:
                short = x[:-1] if (x[:-1] and not x[:-1].isdigit()) else "a"
                w["local"][i] = rng.choice([0, 0, 1, 10, rng.choice(LOCAL_ALPHA), x + "a", short])
    return w


def normal(v):
    """the PEP 440 normal form written from the structure (independent of the code under test)"""
    s = ""
    if v["epoch"]:
        s += f"{v['epoch']}!"
    s += ".".join(str(x) for x in v["release"])
    if v["pre"]:
        s += f"{v['pre'][0]}{v['pre'][1]}"
    if v["post"] is not None:
        s += f".post{v['post']}"
    if v["dev"] is not None:
        s += f".dev{v['dev']}"
    if v["local"] is not None:
        s += "+" + ".".join(str(x) for x in v["local"])
    return s


def _case(rng, w):
    m = rng.randrange(4)
    if m == 0:
        return w
    if m == 1:
        return w.upper()
    if m == 2:
        return w.capitalize()
    return "".join(c.upper() if rng.random() < 0.5 else c for c in w)


def _digits(rng, n, *, implicit_ok=False):
    if implicit_ok and n == 0 and rng.random() < 0.4:
        return ""
    return ("0" * rng.choice([0, 0, 0, 1, 2])) + str(n)


def spell(rng, v, *, ws=True, plain=False):
    """one of the alternate spellings of ``v`` (all parse to the same components)"""
    if plain:
        return normal(v)
    s = ""
    if ws and rng.random() < 0.15:
        s += "".join(rng.choice(WS) for _ in range(rng.choice([1, 2])))
    if rng.random() < 0.15:
        s += rng.choice("vV")
    if v["epoch"] or rng.random() < 0.1:
        s += _digits(rng, v["epoch"]) + "!"
    s += ".".join(_digits(rng, x) for x in v["release"])
    if v["pre"]:
        l, n = v["pre"]
        s += rng.choice(SEPS) + _case(rng, rng.choice(PRE_SPELL[l]))
        d = _digits(rng, n, implicit_ok=True)
        if d == "":
            # an implicit number may still be followed by a separator: `1.0a.` — only when nothing numeric follows
            s += ""
        else:
            s += rng.choice(SEPS) + d
    if v["post"] is not None:
        if rng.random() < 0.25 and not (v["pre"] and s[-1:].isalpha()):
            # implicit post release `-N`; after a bare pre-release letter the engine reads `-N` as its number
            s += "-" + _digits(rng, v["post"])
        else:
            s += rng.choice(SEPS) + _case(rng, rng.choice(POST_SPELL))
            d = _digits(rng, v["post"], implicit_ok=True)
            s += (rng.choice(SEPS) + d) if d else ""
    if v["dev"] is not None:
        s += rng.choice(SEPS) + _case(rng, "dev")
        d = _digits(rng, v["dev"], implicit_ok=True)
        s += (rng.choice(SEPS) + d) if d else ""
    if v["local"] is not None:
        s += "+"
        parts = []
        for x in v["local"]:
            parts.append(_digits(rng, x) if isinstance(x, int) else _case(rng, x))
        out = parts[0]
        for p in parts[1:]:
            out += rng.choice([".", "-", "_"]) + p
        s += out
    if ws and rng.random() < 0.15:
        s += "".join(rng.choice(WS) for _ in range(rng.choice([1, 2])))
    return s


def confusable(rng, c):
    """a non-ASCII code point that some Unicode operation (lower / upper / casefold / NFKC / int()) maps to the ASCII
    character ``c`` — the inputs on which 'normalise first, then match' and 'match, then normalise' differ"""
    table = {"k": "\u212a", "K": "\u212a", "s": "\u017f", "S": "\u017f", "i": "\u0131", "I": "\u0130"}
    opts = []
    if c in table:
        opts += [table[c]] * 3
    if c.isascii() and c.isalpha():
        opts += [chr(0xFF21 + ord(c.upper()) - 65), chr(0xFF41 + ord(c.lower()) - 97), chr(0x1D400 + ord(c.upper()) - 65)]
    if c.isascii() and c.isdigit():
        opts += [chr(0x0660 + int(c)), chr(0xFF10 + int(c)), chr(0x1D7CE + int(c)), "\u00b2" if c == "2" else chr(0x0966 + int(c))]
    if c in ".-_+!":
        opts += {".": ["\uff0e", "\u2024"], "-": ["\u2010", "\uff0d"], "_": ["\uff3f"], "+": ["\uff0b"], "!": ["\uff01"]}[c]
    return rng.choice(opts) if opts else c


def confuse(rng, s):
    """replace one character (preferably a letter) by a confusable; the result is a near-valid non-ASCII string"""
    letters = [i for i, c in enumerate(s) if c.isascii() and c.isalpha()]
    # prefer the letters k, s, i (they have single-code-point case partners outside ASCII)
    special = [i for i in letters if s[i] in "kKsSiI"]
    pool = special if special and rng.random() < 0.6 else (letters if letters and rng.random() < 0.8 else list(range(len(s))))
    if not pool:
        return s
    i = rng.choice(pool)
    return s[:i] + confusable(rng, s[i]) + s[i + 1:]


def malformed(rng, s):
    """token- and character-level damage to a valid spelling"""
    k = rng.randrange(9)
    if not s:
        return rng.choice(ODD_CHARS)
    if k >= 7:
        if k == 8 and "+" in s:
            # a local label that contains one of the letters with a non-ASCII case partner
            head, _, loc = s.partition("+")
            j = rng.randrange(len(loc) + 1)
            s = head + "+" + loc[:j] + rng.choice(["k", "K", "s", "i", "ks1"]) + loc[j:]
        return confuse(rng, s)
    i = rng.randrange(len(s) + 1)
    if k == 0:
        return s[:i] + rng.choice(ODD_CHARS) + s[i:]
    if k == 1 and len(s) > 1:
        j = rng.randrange(len(s))
        return s[:j] + s[j + 1 :]
    if k == 2:
        j = rng.randrange(len(s))
        return s[:j] + rng.choice(ODD_CHARS) + s[j + 1 :]
    if k == 3:
        j = rng.randrange(len(s))
        return s[:j] + s[j] * 2 + s[j + 1 :]
    if k == 4:
        return s[:i] + rng.choice(["..", "--", "+", "!", ".post", "dev", "rc", "a", ".*", " "]) + s[i:]
    if k == 5:
        return "".join(rng.choice(ODD_CHARS) for _ in range(rng.randrange(0, 5)))
    return s[i:] + s[:i]


def pool(rng, n):
    """n structures with many near neighbours, so that pairs are often equal / adjacent"""
    out = []
    while len(out) < n:
        v = struct(rng)
        out.append(v)
        for _ in range(rng.randrange(0, 3)):
            out.append(neighbour(rng, out[-1]))
    return out[:n]


# ---------------------------------------------------------------- reference order (from the property text)
def _strip0(rel):
    rel = list(rel)
    while rel and rel[-1] == 0:
        rel.pop()
    return rel


def _phase(v):
    if v["pre"]:
        return {"a": 1, "b": 2, "rc": 3}[v["pre"][0]]
    if v["post"] is None and v["dev"] is not None:
        return 0
    return 4


def _seg_key(x):
    # numeric above alphanumeric; numeric by value; alphanumeric lexically
    return (1, x, "") if isinstance(x, int) else (0, 0, x.lower())


def order_key(v):
    """sort key realising the PEP 440 order on structures (written from the statement of C01)"""
    return (
        v["epoch"],
        _strip0(v["release"]),            # missing components read as zero
        _phase(v),
        v["pre"][1] if v["pre"] else 0,
        (0, 0) if v["post"] is None else (1, v["post"]),
        (1, 0) if v["dev"] is None else (0, v["dev"]),
        (0, []) if v["local"] is None else (1, [_seg_key(x) for x in v["local"]]),
    )


def ref_cmp(a, b):
    ka, kb = order_key(a), order_key(b)
    return -1 if ka < kb else (1 if ka > kb else 0)
