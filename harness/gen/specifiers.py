"""Structured generator of PEP 440 specifier clauses and clause lists."""
from __future__ import annotations

from gen import versions as GV

OPS = ["~=", "==", "!=", "<=", ">=", "<", ">", "==="]


def clause_struct(rng, *, near=None):
    """(op, version-structure, wildcard?)  — only combinations the operator permits"""
    op = rng.choice(OPS)
    allow_local = op in ("==", "!=", "===")
    v = GV.neighbour(rng, near) if (near is not None and rng.random() < 0.7) else GV.struct(rng, allow_local=allow_local)
    if not allow_local:
        v = dict(v); v["local"] = None
    wildcard = False
    if op in ("==", "!=") and rng.random() < 0.35:
        wildcard = True
        v = dict(v); v["pre"] = v["post"] = v["dev"] = v["local"] = None
    if op == "~=" and len(v["release"]) < 2:
        v = dict(v); v["release"] = list(v["release"]) + [rng.choice(GV.SMALL)]
    return op, v, wildcard


def spell_clause(rng, c, *, plain=False, ws=True):
    op, v, wildcard = c
    s = ""
    if ws and rng.random() < 0.2:
        s += rng.choice([" ", "  ", "\t"])
    s += op
    if ws and rng.random() < 0.3:
        s += rng.choice([" ", "  ", "\t"])
    s += GV.spell(rng, v, ws=False, plain=plain)
    if wildcard:
        s += ".*"
    if ws and rng.random() < 0.2:
        s += rng.choice([" ", "  ", "\t"])
    return s


def clause(rng, *, near=None, plain=False, ws=True):
    c = clause_struct(rng, near=near)
    return spell_clause(rng, c, plain=plain, ws=ws)


def malformed_clause(rng):
    k = rng.randrange(6)
    c = clause_struct(rng)
    op, v, wc = c
    s = spell_clause(rng, c)
    if k == 0:     # form the operator does not permit
        op2 = rng.choice(["<", "<=", ">", ">=", "~="])
        v2 = dict(v); v2["local"] = ["x"]
        return op2 + GV.spell(rng, v2, ws=False) if rng.random() < 0.5 else op2 + GV.spell(rng, v, ws=False) + ".*"
    if k == 1:     # ~= with a single release component
        v2 = dict(v); v2["release"] = v["release"][:1]; v2["local"] = None
        return "~=" + GV.spell(rng, v2, ws=False)
    if k == 2:     # wildcard after a suffix
        v2 = dict(v); v2["local"] = None
        return rng.choice(["==", "!="]) + GV.spell(rng, v2, ws=False) + rng.choice([".*", "*", ".*.*", ".*+x"])
    if k == 3:     # operator damage
        return rng.choice(["=", "=>", "=<", "<>", "~", "~==", "====", "!", "", "=!", "<<", "~=~="]) + GV.spell(rng, v, ws=False)
    if k == 4:     # arbitrary equality with odd text
        return "===" + "".join(rng.choice(GV.ODD_CHARS + list("abc123.*+!")) for _ in range(rng.randrange(0, 6)))
    return GV.malformed(rng, s)
