"""integrator tool: recordfindings.py Cxx fixfile=commit ...  — copies findings_proposed/Cxx.json into known_findings.json
('fixed' entries get their commit; 'known' entries keep matcher/witness)."""
import json
import sys
from pathlib import Path

ROOT = Path(__file__).resolve().parent.parent
pid = sys.argv[1]
commits = dict(a.split("=") for a in sys.argv[2:])
kf = json.loads((ROOT / "known_findings.json").read_text())
n = max([int(f["id"][1:].split("-")[0]) for f in kf["findings"]] + [0])
for e in json.loads((ROOT / "findings_proposed" / f"{pid}.json").read_text()):
    if any(f["property"] == e.get("property", pid) and f.get("witness") == e.get("witness") for f in kf["findings"]):
        continue
    n += 1
    st = e.get("status", "known")
    rec = {"id": f"F{n:02d}", "property": e.get("property", pid), "status": st}
    if st == "fixed":
        c = commits.get(e.get("fix", ""), "?")
        rec["commit"] = c
        rec["what"] = f"fixed: property={rec['property']} {c} {e['what']}"
    else:
        rec["what"] = e["what"]
        rec["matcher"] = e.get("matcher", {"kind": "exact"})
        rec["why_not_fixed"] = e.get("why_no_fix") or e.get("why_known") or e.get("fix_tested") or ""
    rec["witness"] = e.get("witness")
    kf["findings"].append(rec)
(ROOT / "known_findings.json").write_text(json.dumps(kf, indent=1))
print("recorded up to", f"F{n:02d}")
