"""Regenerate MANIFEST.json from the property modules present under harness/props."""
import importlib
import json
import sys
from pathlib import Path

sys.path.insert(0, str(Path(__file__).resolve().parent))
import core

core.use_repo()
ROOT = core.ROOT
props = [json.loads(l) for l in (ROOT / "properties.jsonl").read_text().splitlines() if l.strip()]
NOT_YET = json.loads((ROOT / "harness" / "not_applicable.json").read_text())
checks, na = [], []
for p in props:
    pid = p["id"]
    P = importlib.import_module(f"props.{pid}").PROP if (ROOT / "harness" / "props" / f"{pid}.py").exists() else None
    if P is not None and getattr(P, "claim", True):
        checks.append({
            "property_id": pid,
            "quick_cmd": f"./check {pid} quick",
            "thorough_cmd": f"./check {pid} thorough",
            "evidence_file": f"evidence/{pid}.json",
            "replay_cmd_template": f"./check {pid} --replay {{path}}",
            "engine": "lean4-model+correspondence",
            "level_claimed": {
                "category": "proof",
                "text": (P.level_text if hasattr(P, "level_text") else (
                    "Lean 4 theorems about a model of the code (kernel-checked, axioms audited), tied to the working tree by "
                    "regenerated data and a model-vs-implementation correspondence run; laws from the statement are "
                    "searched on the real code for a replayable failing input")) + (
                    f" {len(P.theorems)} theorems audited, among them: " + ", ".join(P.theorems[:6]) + "."
                    + (" Regenerated from the source on every run: " + ", ".join(P.generated) + "." if P.generated else "")),
                "design_ref": f"DESIGN.md §7 {pid}",
            },
            "level_note": "; ".join(["trusted: Lean kernel, spec files, translator, correspondence harness", *P.trusted,
                                     *("not covered by a theorem: " + x for x in P.partial)]),
            "technique": getattr(P, "technique", "machine-checked proof in Lean 4 on a model + differential correspondence with the implementation"),
        })
    else:
        na.append({"property_id": pid, "reason": NOT_YET.get(pid, "machinery for this property is not built yet (see DESIGN.md §12)")})
m = {
    "version": 1,
    "setup_cmd": "./setup.sh",
    "hooks": {
        "guard": "PYPA_PACKAGING_VERIF",
        "enable": "no source hooks are needed; checks import /repo/src from the working tree with PYPA_PACKAGING_VERIF=1 set",
        "baseline_off_cmd": "cd /repo && /venv/bin/python -m pytest -ra -q -p no:cacheprovider --timeout=900 --continue-on-collection-errors",
        "source_commits": [],
        "add_only": True,
    },
    "engines": [{
        "name": "lean4-model+correspondence",
        "path": "lean/ (model, specs, theorems, driver) + harness/ (translator, correspondence, search)",
        "serves_properties": [c["property_id"] for c in checks],
        "kind_free_text": "Lean 4.33 kernel-checked theorems on a model that is partly hand-written and partly regenerated from the working tree on every run (regular expressions, tables, and the source of about 170 library functions translated statement by statement and proved equal to the hand-written model); compiled model driver compared with the Python implementation over a line protocol; laws from the property statements searched on the real code for replayable failing inputs",
    }],
    "checks": checks,
    "not_applicable": na,
    "notes": "See DESIGN.md (section 0 is the as-built record). ./check <id> <quick|thorough> [--replay FILE]; exit 0 / 1 (VIOLATION lines) / 2 (infrastructure). Known findings: known_findings.json (KNOWN-FINDING lines; fixed entries record the fix: commits made to /repo). Seeded property-breaking changes with the verdict each produces: seeded/; behaviour-preserving rewrites used to measure false alarms: harmless/. A proof or correspondence that no longer checks without a concrete failing input ends in VIOLATION ... no-failing-input-found.",
}
(ROOT / "MANIFEST.json").write_text(json.dumps(m, indent=1) + "\n")
print(len(checks), "checks;", len(na), "not claimed")
