"""Second battery for C20: every property's own correspondence cases, evaluated on the real code only.

usage: battery2.py <battery_seed> <order_seed>
For each property module that has correspondence cases, a fixed sample (depends on battery_seed only) is generated and the
implementation's protocol answer (``PROP.real``) is computed for each case twice, in an order shuffled by order_seed and
interleaved across properties.  The transcript (sorted by case) must be byte-identical across hash seeds and call orders.
"""
from __future__ import annotations

import hashlib
import importlib
import random
import sys
from pathlib import Path

sys.path.insert(0, str(Path(__file__).resolve().parent))
import core

core.use_repo()
import warnings
warnings.simplefilter("ignore")

PIDS = ["C01", "C02", "C03", "C04", "C05", "C06", "C07", "C08", "C09", "C12", "C13", "C14", "C15", "C16", "C17", "C18", "C19"]
N = 45


def main():
    bseed, oseed = int(sys.argv[1]), int(sys.argv[2])
    calls = []
    for pid in PIDS:
        try:
            P = importlib.import_module(f"props.{pid}").PROP
            rng = random.Random(bseed * 7919 + int(pid[1:]))
            k = 0
            for op, args in P.gen_cases(rng, N):
                # keyed by the case itself: a few generators embed the interpreter's own set iteration order in the
                # arguments (it is a parameter of the model), so the same index may hold another case under another seed
                h = hashlib.sha256("\t".join([op, *args]).encode()).hexdigest()[:16]
                calls.append((f"{pid}:{op}:{h}", P, op, list(args)))
                k += 1
                if k >= N:
                    break
        except Exception as e:  # noqa: BLE001
            calls.append((f"{pid}:generator", None, "harness-error " + type(e).__name__, []))
    order = list(range(len(calls))) * 2
    random.Random(oseed).shuffle(order)
    results = {}
    for i in order:
        key, P, op, args = calls[i]
        if P is None:
            out = op
        else:
            try:
                out = P.real(op, list(args))
            except BaseException as e:  # noqa: BLE001
                out = "harness-error " + type(e).__name__
        if key in results and results[key] != out:
            out = results[key] + " <<REPEAT-DIFFERS>> " + out
        results[key] = out
    for k in sorted(results):
        print(k + "\t" + results[k][:400])


if __name__ == "__main__":
    main()
