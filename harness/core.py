"""Shared machinery: protocol encoding, model driver, lake build, audit, verdict, evidence.

Everything is relative to the checkout (``ROOT``); the repository under study is
``$VERIF_REPO`` (default ``/repo``) and is always imported from its *current working tree*.
"""
from __future__ import annotations

import fcntl
import hashlib
import json
import os
import random
import re
import subprocess
import sys
import time
from pathlib import Path

ROOT = Path(__file__).resolve().parent.parent
LEAN = ROOT / "lean"
REPO = Path(os.environ.get("VERIF_REPO", "/repo"))
DRIVER = LEAN / ".lake" / "build" / "bin" / "pkgdriver"
REPLAYS = ROOT / "replays"
EVIDENCE = ROOT / "evidence"
ALLOWED_AXIOMS = {"propext", "Classical.choice", "Quot.sound"}
FORBIDDEN = re.compile(
    r"\b(sorry|admit|native_decide|bv_decide|implemented_by)\b|^\s*axiom\s|\bunsafe\s|maxHeartbeats\s+0\b"
)

# hooks are not needed (DESIGN §9) but the guard is exported so that a hooked tree would see it
os.environ.setdefault("PYPA_PACKAGING_VERIF", "1")


# an implementation answer that depends on the machine's resources (MemoryError, recursion budget): the case is
# counted but not compared
RESOURCE_LIMIT = "resource-limit"


def use_repo():
    """Make ``import packaging`` resolve to $VERIF_REPO/src (current working tree)."""
    src = str(REPO / "src")
    if sys.path[0] != src:
        sys.path.insert(0, src)
    for m in list(sys.modules):
        if m == "packaging" or m.startswith("packaging."):
            f = getattr(sys.modules[m], "__file__", "") or ""
            if not f.startswith(src):
                del sys.modules[m]
    import packaging  # noqa: F401

    assert packaging.__file__.startswith(src), (packaging.__file__, src)


# ---------------------------------------------------------------- protocol
def enc(s):
    """str | None -> protocol atom (hex code points joined by '.', '-' empty, '~' None)."""
    if s is None:
        return "~"
    if s == "":
        return "-"
    return ".".join(format(ord(c), "x") for c in s)


def dec(a):
    if a == "~":
        return None
    if a == "-":
        return ""
    return "".join(chr(int(p, 16)) for p in a.split("."))


def encb(b):
    return "1" if b else "0"


def exc_name(e: BaseException) -> str:
    return type(e).__name__


class Driver:
    """The compiled Lean model behind the line protocol (one process, line-interactive)."""

    def __init__(self):
        if not DRIVER.exists():
            raise RuntimeError(f"model driver not built: {DRIVER}")
        self.p = subprocess.Popen(
            [str(DRIVER)], stdin=subprocess.PIPE, stdout=subprocess.PIPE, text=True, bufsize=1 << 20
        )

    def ask(self, line: str) -> str:
        self.p.stdin.write(line + "\n")
        self.p.stdin.flush()
        out = self.p.stdout.readline()
        if not out:
            raise RuntimeError("model driver died on: " + line)
        return out.rstrip("\n")

    def batch(self, lines):
        """Send many lines, read as many answers (chunked to keep pipes from filling)."""
        outs = []
        CH = 2000
        for i in range(0, len(lines), CH):
            chunk = lines[i : i + CH]
            self.p.stdin.write("\n".join(chunk) + "\n")
            self.p.stdin.flush()
            for _ in chunk:
                o = self.p.stdout.readline()
                if not o:
                    raise RuntimeError("model driver died")
                outs.append(o.rstrip("\n"))
        return outs

    def close(self):
        try:
            self.p.stdin.close()
            self.p.wait(timeout=10)
        except Exception:
            self.p.kill()


def batch_oneshot(lines):
    """Run the driver once over all lines (fast path for large batches)."""
    r = subprocess.run([str(DRIVER)], input="\n".join(lines) + "\n", capture_output=True, text=True)
    if r.returncode != 0:
        raise RuntimeError("model driver failed: " + r.stderr[-500:])
    outs = r.stdout.split("\n")
    if outs and outs[-1] == "":
        outs.pop()
    if len(outs) != len(lines):
        raise RuntimeError(f"driver answered {len(outs)} lines for {len(lines)} requests")
    return outs


# ---------------------------------------------------------------- lake
class BuildResult:
    def __init__(self):
        self.ok = True
        self.failed_modules = []
        self.log = ""
        self.wall = 0.0


def lake_build(targets) -> BuildResult:
    """``lake build`` of the given targets under an exclusive lock (checks may run in parallel)."""
    res = BuildResult()
    t0 = time.time()
    lock = LEAN / ".build.lock"
    with open(lock, "w") as lf:
        fcntl.flock(lf, fcntl.LOCK_EX)
        p = subprocess.run(["lake", "build", *targets], cwd=LEAN, capture_output=True, text=True)
    res.wall = time.time() - t0
    res.log = p.stdout + p.stderr
    if p.returncode != 0:
        res.ok = False
        res.failed_modules = sorted(set(re.findall(r"^- (\S+)$", res.log, flags=re.M)))
        if not res.failed_modules:
            res.failed_modules = ["<lake>"]
    return res


def lean_run(source: str, timeout=600):
    """Elaborate a scratch Lean file against the built project; returns (rc, output)."""
    tmp = LEAN / ".lake" / f"scratch_{os.getpid()}_{random.randrange(1<<30)}.lean"
    tmp.write_text(source)
    try:
        p = subprocess.run(
            ["lake", "env", "lean", str(tmp)], cwd=LEAN, capture_output=True, text=True, timeout=timeout
        )
        return p.returncode, p.stdout + p.stderr
    finally:
        tmp.unlink(missing_ok=True)


def audit_axioms(modules, theorems):
    """``#print axioms`` for every property theorem.  Returns {theorem: [axioms]} and a list of problems."""
    src = "".join(f"import {m}\n" for m in modules) + "".join(f"#print axioms {t}\n" for t in theorems)
    rc, out = lean_run(src)
    axioms = {}
    problems = []
    # output: "'name' depends on axioms: [a, b]" or "'name' does not depend on any axioms"
    flat = re.sub(r"\s+", " ", out)
    for t in theorems:
        m = re.search(r"'" + re.escape(t) + r"' depends on axioms: \[([^\]]*)\]", flat)
        if m:
            ax = [a.strip() for a in m.group(1).split(",") if a.strip()]
            axioms[t] = ax
            bad = [a for a in ax if a not in ALLOWED_AXIOMS]
            if bad:
                problems.append(f"{t}: disallowed axioms {bad}")
        elif re.search(r"'" + re.escape(t) + r"' does not depend on any axioms", flat):
            axioms[t] = []
        else:
            problems.append(f"{t}: not found / not checked")
    if rc != 0 and not problems:
        problems.append("audit file failed: " + out[-300:])
    return axioms, problems


def audit_sources():
    """Grep every Lean source of the project for escape hatches (comments stripped)."""
    problems = []
    for f in sorted(LEAN.rglob("*.lean")):
        if ".lake" in f.parts:
            continue
        text = f.read_text()
        text = re.sub(r"/-.*?-/", lambda m: "\n" * m.group(0).count("\n"), text, flags=re.S)
        for i, line in enumerate(text.split("\n"), 1):
            line = line.split("--", 1)[0]
            m = FORBIDDEN.search(line)
            if m:
                problems.append(f"{f.relative_to(ROOT)}:{i}: {m.group(0).strip()}")
    return problems


# ---------------------------------------------------------------- findings
def load_findings():
    p = ROOT / "known_findings.json"
    if not p.exists():
        return []
    return json.loads(p.read_text())["findings"]


def file_hash(path: Path) -> str:
    return hashlib.sha256(path.read_bytes()).hexdigest()[:16]
