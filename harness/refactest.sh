#!/bin/sh
# refactest.sh <worktree-of-repo> <patches-dir> : false-alarm measurement.  Applies each behaviour-preserving patch to the
# scratch worktree of pypa/packaging, runs all quick checks from an isolated copy of /verif (default /root/work/w2,
# made with `rsync -a --exclude .git /verif/ /root/work/w2/`; override with VERIF_COPY) with VERIF_REPO=<worktree>, and
# reports every check that does not exit 0 (nf = ended in no-failing-input-found).
wt=$1; pd=$2
L=${REFAC_LOGDIR:-/root/work}; mkdir -p "$L"   # where the per-check logs go (override with REFAC_LOGDIR)
cd ${VERIF_COPY:-/root/work/w2}
export VERIF_REPO=$wt
for pf in $pd/*.diff; do
  n=$(basename $pf .diff)
  git -C $wt checkout -q -- src
  git -C $wt apply $pf || { echo "$n NOAPPLY"; continue; }
  # every generated input from this patch's source (a check regenerates only the inputs it lists itself; without this a
  # file generated under the previous patch can make an unrelated check fail: A08's NameTables broke C10/C11 under B02)
  /venv/bin/python harness/translate.py --all > /dev/null 2>&1
  res=""
  for p in C01 C02 C03 C04 C05 C06 C07 C08 C09 C10 C11 C12 C13 C14 C15 C16 C17 C18 C19 C20; do
    ./check $p quick > $L/refac_${n}_$p.log 2>&1; rc=$?
    [ $rc -ne 0 ] && res="$res $p:rc=$rc($(grep -c 'no-failing-input-found' $L/refac_${n}_$p.log)nf)"
  done
  echo "$n ->${res:- all green}"
done
git -C $wt checkout -q -- src
/venv/bin/python harness/translate.py --all > /dev/null 2>&1
