#!/bin/sh
# lanereseed.sh <lane> <name…> : re-run kept seeded changes without touching /repo — for each, a scratch worktree of /repo's HEAD
# gets seeded/<name>/patch.diff, the checks recorded for it (check_Cxx.txt) run from the lane copy of /verif with VERIF_REPO set.
# One line per change: <name> <prop>:rc=…,viol=…,nofail=… ; NOAPPLY when the patch no longer applies.  Evidence is discarded.
set -u
lane=$1; shift
here=$(cd "$(dirname "$0")/.." && pwd)
L=/root/work/lane$lane
mkdir -p "$L" /tmp/rs
rsync -a --delete --exclude .git --exclude seeded --exclude harmless --exclude replays "$here/" "$L/" 2>/dev/null
for n in "$@"; do
  d="$here/seeded/$n"
  wt=/tmp/rs/$n
  git -C /repo worktree add -q --detach "$wt" HEAD 2>/dev/null || { echo "$n WORKTREE-FAILED"; continue; }
  if ! git -C "$wt" apply "$d/patch.diff" 2>/dev/null; then
    if git -C "$wt" apply --3way "$d/patch.diff" >/dev/null 2>&1; then git -C "$wt" reset -q; else echo "$n NOAPPLY"; git -C /repo worktree remove --force "$wt"; continue; fi
  fi
  res=""
  for c in "$d"/check_C??.txt; do
    p=$(basename "$c" .txt | cut -d_ -f2)
    (cd "$L" && VERIF_REPO="$wt" ./check "$p" quick > "$L/reseed_${n}_${p}.log" 2>&1); rc=$?
    v=$(grep -c '^VIOLATION' "$L/reseed_${n}_${p}.log"); nf=$(grep -c 'no-failing-input-found' "$L/reseed_${n}_${p}.log")
    res="$res $p:rc=$rc,viol=$v,nofail=$nf"
  done
  echo "$n$res"
  git -C /repo worktree remove --force "$wt"
done
