"""A fixed battery of public-API calls on pypa/packaging, printed as a canonical transcript.

usage: battery.py <battery_seed> <order_seed>
The *set* of calls depends only on battery_seed; order_seed shuffles the order in which they are
made (and interleaves repeated calls), so that transcripts can be compared across hash seeds and
call histories.  Every line is `key<TAB>canonical result`; lines are sorted by key before printing.
"""
from __future__ import annotations

import copy
import json
import os
import random
import sys
from pathlib import Path

sys.path.insert(0, str(Path(__file__).resolve().parent))
import core

core.use_repo()
from gen import specifiers as GS
from gen import versions as GV


def canon(x):
    """canonical, hash-order independent rendering"""
    from packaging.tags import Tag
    if isinstance(x, (set, frozenset)):
        return "{" + ",".join(sorted(canon(y) for y in x)) + "}"
    if isinstance(x, dict):
        return "{" + ",".join(sorted(canon(k) + ":" + canon(v) for k, v in x.items())) + "}"
    if isinstance(x, (list, tuple)):
        return "[" + ",".join(canon(y) for y in x) + "]"
    if isinstance(x, Tag):
        return "Tag(" + str(x) + ")"
    if isinstance(x, BaseException):
        if hasattr(x, "exceptions"):
            # in the order raised: `.exceptions` is a tuple, its order is part of the outcome
            return "EG[" + ",".join(canon(e) for e in x.exceptions) + "]"
        f = getattr(x, "field", None)
        # the message is part of the outcome too (a set rendered into it would make it depend on the hash seed);
        # object addresses are masked
        import re as _re
        msg = _re.sub(r" at 0x[0-9a-fA-F]+", " at 0x…", str(x).splitlines()[0] if str(x) else "")
        return type(x).__name__ + (f"[{f}]" if f else "") + ":" + msg
    if isinstance(x, (str, int, bool, float)) or x is None:
        return repr(x)
    name = type(x).__name__
    if name in ("Specifier", "SpecifierSet"):
        return name + ":" + str(x) + "/pre=" + repr(x.prereleases)
    if name == "Requirement":
        return name + ":" + str(x) + "/" + canon([x.name, sorted(x.extras), x.specifier, x.url, None if x.marker is None else str(x.marker)])
    return name + ":" + str(x)


def scribble(x, depth=0):
    """change every mutable part of a result in place — what a caller is free to do with what it was handed.  A later
    call (with fresh, equal arguments) must not see any of it."""
    if depth > 5:
        return
    name = type(x).__name__
    if isinstance(x, list):
        for y in list(x):
            scribble(y, depth + 1)
        x.append("scribble")
        x.reverse()
    elif isinstance(x, set):
        for y in list(x):
            scribble(y, depth + 1)
        x.add("scribble")
    elif isinstance(x, dict):
        for y in list(x.values()):
            scribble(y, depth + 1)
        x["scribble"] = "scribble"
    elif isinstance(x, (tuple, frozenset)):
        for y in x:
            scribble(y, depth + 1)
    elif name == "Specifier":
        x.prereleases = not x.prereleases
    elif name == "SpecifierSet":
        # (the member Specifier objects are shared between a set and the sets derived from it by `&`, by design of the
        # library: they are not scribbled on)
        x.prereleases = not x.prereleases
    elif name == "Requirement":
        scribble(x.extras, depth + 1)
        scribble(x.specifier, depth + 1)
        x.marker = None
        x.url = "https://scribble.example/"
        x.name = "scribble"


def build(seed):
    """list of (key, thunk, argument objects to snapshot)"""
    from packaging import markers, metadata, requirements, specifiers, tags, utils, version
    rng = random.Random(seed)
    calls = []

    def add(key, fn, *args):
        calls.append((f"{len(calls):03d}:{key}", fn, args))

    for _ in range(6):
        near = GV.struct(rng)
        clauses = [GS.clause(rng, near=near, ws=False) for _ in range(rng.randrange(0, 5))]
        if rng.random() < 0.5 and clauses:
            clauses.append(clauses[0])
        cands = [GV.spell(rng, GV.neighbour(rng, near)) for _ in range(rng.randrange(1, 6))]
        s = ",".join(clauses)
        add("set.str", lambda s=s: str(specifiers.SpecifierSet(s)))
        add("set.filter", lambda s=s, c=cands: list(specifiers.SpecifierSet(s).filter(c)), cands)
        add("set.contains", lambda s=s, c=cands: [specifiers.SpecifierSet(s).contains(x, prereleases=True) for x in c], cands)
        add("set.and", lambda s=s: str(specifiers.SpecifierSet(s) & specifiers.SpecifierSet(">=0")))
        add("set.hash_eq", lambda s=s, cl=clauses: hash(specifiers.SpecifierSet(s)) == hash(specifiers.SpecifierSet(",".join(reversed(cl)))))
        vobjs = [version.Version(c) for c in cands]
        add("set.filter_objs", lambda s=s, v=vobjs: [str(x) for x in specifiers.SpecifierSet(s).filter(v)], vobjs)
        add("ver.sorted", lambda v=vobjs: [str(x) for x in sorted(v)], vobjs)
    # families of equal-but-differently-spelled inputs: anything cached or keyed by equality instead of by the
    # actual argument shows up as a history-dependent answer when the call order is shuffled
    fams = [["1", "1.0", "1.0.0", "01.00"], ["2.0", "2", "2.0.0.0"], ["1.0a1", "1.0.0-alpha.1", "1a1"], ["1!3.0+ab.1", "1!3+AB-1", "1!3.0.0+ab_01"]]
    for fam in fams:
        for x in fam:
            add("fam.canon", lambda x=x: [utils.canonicalize_version(x), utils.canonicalize_version(x, strip_trailing_zero=False),
                                          utils.canonicalize_version(version.Version(x), strip_trailing_zero=False)])
            add("fam.ver", lambda x=x: (lambda v: [str(v), v.public, v.base_version, v.release, v.local, hash(v) == hash(version.Version(x))])(version.Version(x)))
            for op in ("==", "!=", "~=", ">=", "<", "==="):
                if op == "~=" and "." not in x:
                    continue
                cl = op + x.split("+")[0] if op in ("~=", ">=", "<") else op + x
                add("fam.spec", lambda cl=cl, fam=fam: (lambda sp: [str(sp), sp.version, [sp.contains(c, prereleases=True) for c in fam + ["1.5", "2.1", "1.0.5"]],
                                                                     list(sp.filter(fam + ["1.5", "2.1"]))])(specifiers.Specifier(cl)))
            if "+" not in x and "a" not in x:
                add("fam.prefix", lambda x=x, fam=fam: (lambda sp: [str(sp), [sp.contains(c) for c in fam + ["1.5", "2.1", "1.0.5", "2.0.3"]],
                                                                   list(sp.filter(["2.1", "1.5"] + list(reversed(fam))))])(specifiers.SpecifierSet("==" + x + ".*")))
    for fam in [["Foo_Bar", "foo-bar", "FOO.BAR", "foo__bar"], ["a", "A"]]:
        for x in fam:
            add("fam.name", lambda x=x, fam=fam: [utils.canonicalize_name(x), utils.is_normalized_name(x), str(requirements.Requirement(x + "[E_x]>=1")),
                                         hash(requirements.Requirement(x)) == hash(requirements.Requirement(fam[0]))])
    for fam in [["os_name=='a'", "os.name == \"a\"", "(os_name == 'a')"], ["extra=='A_b'", "extra == 'a-b'", "'a.B' == extra"]]:
        for x in fam:
            add("fam.marker", lambda x=x: (lambda m: [str(m), m.evaluate({"os_name": "a", "extra": "A.b"}), hash(m) == hash(markers.Marker(x))])(markers.Marker(x)))
    for x in ["py3-none-any", "PY3-NONE-ANY", "Py3-None-Any"]:
        add("fam.tag", lambda x=x: [(str(t), t.interpreter, hash(t) == hash(tags.Tag("py3", "none", "any"))) for t in tags.parse_tag(x)])
    # set-like inputs whose members collide after normalisation: rendering must not fall back on set iteration order
    for r in ["pkg[my-extra,my_extra]>=1.0", "pkg[my_extra,my-extra]>=1.0", "pkg[Test,test,TEST]; python_version >= '3.8'",
              "pkg[a.b,a-b,a_b,c] @ https://example.com/pkg.whl", "pkg[x,X,x_y,x-y,X.Y]==1.0,==1.0.0"]:
        add("collide.req", lambda r=r: (lambda q: [str(q), sorted(q.extras), hash(q) == hash(requirements.Requirement(r))])(requirements.Requirement(r)))
    add("collide.tags", lambda: sorted(str(t) for t in tags.parse_tag("py3.PY3.Py3-none.NONE-any.ANY")))
    add("collide.meta", lambda: (lambda m: [m.provides_extra, m.dynamic, [str(r) for r in m.requires_dist]])(metadata.Metadata.from_raw(
        {"metadata_version": "2.3", "name": "n", "version": "1", "provides_extra": ["a-b", "a_b", "A.B"], "dynamic": ["Classifier", "classifier"],
         "requires_dist": ["x[e-f,e_f]>=1", "x[e_f,e-f]>=1"]}, validate=False)))
    add("collide.set", lambda: (lambda a: [str(a), len(a), sorted(str(x) for x in a)])(specifiers.SpecifierSet("==1.0,>=1.a0,>=1.0.0a0,>=1.ALPHA")))
    extras = ["b", "a", "C_d", "e.f"]
    for i in range(4):
        ex = rng.sample(extras, rng.randrange(0, 4))
        cl = [GS.clause(rng, ws=False) for _ in range(rng.randrange(0, 4))]
        r = "name" + (("[" + ",".join(ex) + "]") if ex else "") + ",".join(cl) + "; python_version >= '3.8' and (os_name == 'posix' or extra == 'A_b')"
        add("req.str", lambda r=r: str(requirements.Requirement(r)))
        add("req.parts", lambda r=r: (lambda q: [q.name, q.extras, str(q.specifier), q.url, str(q.marker)])(requirements.Requirement(r)))
    full = {"implementation_name": "cpython", "implementation_version": "3.13.0", "os_name": "posix", "platform_machine": "x86_64",
            "platform_release": "6.1", "platform_system": "Linux", "platform_version": "#1", "python_full_version": "3.13.0+",
            "platform_python_implementation": "CPython", "python_version": "3.13", "sys_platform": "linux"}
    envs = [{"os_name": "posix", "python_version": "3.9", "extra": "a-b"}, {"sys_platform": "win32", "extra": None},
            dict(full), dict(full, extra=None), dict(full, python_full_version="3.12.1", extra="A_b")]
    for m in ["os_name == 'posix' and python_version >= '3.8'", "extra == 'A_B' or sys_platform == 'win32'",
              "python_full_version < '3.10.0' or (os_name != 'nt' and 'linux' in sys_platform)"]:
        for e in envs:
            add("marker.eval", lambda m=m, e=e: markers.Marker(m).evaluate(e), e)
        add("marker.str", lambda m=m: str(markers.Marker(m)))
    for t in ["cp39.cp310-abi3.none-manylinux1_x86_64.linux_x86_64", "py3-none-any", "PY3-None-ANY"]:
        add("tag.parse", lambda t=t: tags.parse_tag(t))
    add("wheel", lambda: utils.parse_wheel_filename("Foo_Bar-1.0.0-1abc-py2.py3-none-any.whl"))
    add("sdist", lambda: utils.parse_sdist_filename("foo_bar-1!2.0.tar.gz"))
    add("tags.compat", lambda: [str(t) for t in tags.compatible_tags((3, 9), "cp39", ["plat_b", "plat_a"])])
    add("tags.cpython", lambda: [str(t) for t in tags.cpython_tags((3, 9), ["cp39", "abi3"], ["plat_b", "plat_a"])])
    add("tags.sys_twice", lambda: [str(t) for t in tags.sys_tags()] == [str(t) for t in tags.sys_tags()])
    add("tags.sys", lambda: [str(t) for t in tags.sys_tags()][:40])
    raw = {"metadata_version": "2.3", "name": "Foo", "version": "1.0", "requires_dist": ["a>=1", "b ; extra == 'x'"],
           "provides_extra": ["X_y", "z"], "keywords": ["k1", "k2"], "project_urls": {"B": "u2", "A": "u1"},
           "dynamic": ["Classifier", "requires-dist"], "requires_python": ">=3.8,!=3.9.*"}
    # (attributes of a Metadata built from the caller's dict may be the caller's own lists — by design of the library —, so
    # copies are taken here: the scribbling in run_one must not reach the argument through them)
    add("meta.ok", lambda raw=raw: (lambda m: [m.name, str(m.version), [str(r) for r in m.requires_dist], list(m.provides_extra), list(m.keywords),
                                                 dict(m.project_urls), list(m.dynamic), str(m.requires_python), m.summary, m.name, [str(r) for r in m.requires_dist]])(
        metadata.Metadata.from_raw(raw)), raw)
    bad = dict(raw, version="not a version", requires_python="??", name="-bad-", license_files=["../x"], unknown_key="1")
    add("meta.bad", lambda bad=bad: metadata.Metadata.from_raw(bad), bad)
    for ct in ("text/html", "text/markdown; variant=gh", "text/plain; charset=latin-1", "garbage"):
        bad_ct = dict(raw, description_content_type=ct)
        add("meta.bad.ctype", lambda b=bad_ct: metadata.Metadata.from_raw(b), bad_ct)
        add("meta.bad.ctype.lazy", lambda b=bad_ct: metadata.Metadata.from_raw(b, validate=False).description_content_type, bad_ct)
    doc = "Metadata-Version: 2.1\nName: x\nVersion: 1\nKeywords: a,b\nProject-URL: A, u1\nProject-URL: B, u2\nUnknown: 1\nName: y\n\nbody"
    add("email", lambda: metadata.parse_email(doc))
    add("email.keys", lambda: [list(d) for d in metadata.parse_email(doc)])
    add("email.bad", lambda: metadata.Metadata.from_email("Foo: 1\nBar: 2\nBaz: 3\nQux: 4\nName: a\nNAME: b\n"))
    add("email.bad2", lambda: metadata.Metadata.from_email("Metadata-Version: 2.1\nName: -x\nVersion: v?\nSummary: a\n b\nRequires-Python: >>1\n"
                                                          "Requires-Dist: ok\nRequires-Dist: not ok\nDynamic: name\n"))
    # live objects (not strings derived from them), so that the scribbling above reaches whatever they share
    for r in ["requests>=2.8.1", "packaging >= 21.3 ; python_version >= '3.8'", "name @ https://example.com/x.zip", "a[x]>=1,<2; extra == 'x'"]:
        add("live.req", lambda r=r: requirements.Requirement(r))
    add("live.email", lambda: metadata.parse_email(doc))
    add("live.email.bytes", lambda: metadata.parse_email(doc.encode()))
    raw2 = {"metadata_version": "2.3", "name": "Foo", "version": "1.0", "requires_dist": ["a>=1", "b ; extra == 'x'", "a>=1"],
            "provides_extra": ["x"], "keywords": ["k1", "k2"], "project_urls": {"B": "u2"}, "dynamic": ["classifier"],
            "requires_python": ">=3.8", "classifiers": ["c"], "platforms": ["any"]}
    for validate in (True, False):
        add("live.meta", lambda v=validate: (lambda m: [m.requires_dist, m.provides_extra, m.keywords, m.project_urls, m.dynamic,
                                                         m.requires_python, m.classifiers, m.platforms, m.requires_dist])(
            metadata.Metadata.from_raw(copy.deepcopy(raw2), validate=v)))
    add("live.meta.email", lambda: (lambda m: [m.requires_dist, m.keywords, m.project_urls])(metadata.Metadata.from_email(
        "Metadata-Version: 2.1\nName: x\nVersion: 1\nKeywords: a,b\nProject-URL: A, u1\nRequires-Dist: a>=1\nRequires-Dist: b; extra == 'x'\n")))
    shared = [specifiers.SpecifierSet(">=1.0", prereleases=True), specifiers.SpecifierSet(">=1.0,<3"), specifiers.SpecifierSet(""),
              specifiers.SpecifierSet("~=2.1")]
    for i, a in enumerate(shared):
        for j, b in enumerate(shared):
            add("live.and", lambda a=a, b=b: a & b, a, b)
        add("live.and.str", lambda a=a: a & "", a)
    add("live.tags", lambda: [list(tags.cpython_tags((3, 9), ["cp39"], ["p"])), tags.parse_tag("py2.py3-none-any"),
                              utils.parse_wheel_filename("foo-1.0-1-py2.py3-none-any.whl")])
    add("canon.name", lambda: [utils.canonicalize_name(n) for n in ["Foo__Bar", "a.-_b", "X"]])
    add("canon.ver", lambda: [utils.canonicalize_version(v) for v in ["1.0.0", "1!2.0rc1", "junk"]])
    from packaging import licenses
    add("license", lambda: licenses.canonicalize_license_expression("mit or (apache-2.0 with llvm-exception and LicenseRef-Foo)"))
    return calls


def run_one(fn, args):
    snap = copy.deepcopy(args)
    hashes = [_safe_hash(a) for a in args]
    try:
        res = fn()
        out = canon(res)
        scribble(res)            # results are the caller's to change; nothing of that may leak into later calls
    except BaseException as e:  # noqa: BLE001
        out = "EXC " + canon(e)
    same = (canon(snap) == canon(args)) and hashes == [_safe_hash(a) for a in args]
    return out + ("" if same else " ARGS-MODIFIED")


def _safe_hash(a):
    try:
        return hash(a)
    except TypeError:
        return None


def main():
    bseed, oseed = int(sys.argv[1]), int(sys.argv[2])
    calls = build(bseed)
    order = list(range(len(calls))) * 2          # every call is made twice, somewhere in the history
    random.Random(oseed).shuffle(order)
    results = {}
    for i in order:
        key, fn, args = calls[i]
        out = run_one(fn, args)
        if key in results and results[key] != out:
            out = results[key] + " <<REPEAT-DIFFERS>> " + out
        results[key] = out
    for k in sorted(results):
        print(k + "\t" + results[k])


if __name__ == "__main__":
    main()
