"""Regenerate the tables of DESIGN.md §0 (fix commits, known findings, seeded changes) between the GENERATED markers."""
import json
import re
import subprocess
from pathlib import Path

ROOT = Path(__file__).resolve().parent.parent
kf = json.loads((ROOT / "known_findings.json").read_text())["findings"]


def esc(s):
    return str(s).replace("|", "\\|").replace("\n", " ")


def wit(f):
    w = f.get("witness") or {}
    return esc(f"{w.get('law')}: {json.dumps(w.get('input'), ensure_ascii=True)[:110]}")


fixed = {}
for f in kf:
    if f["status"] == "fixed":
        fixed.setdefault(f.get("commit", "?"), []).append(f)
log = subprocess.run(["git", "-C", "/repo", "log", "--format=%h %s", "--reverse"], capture_output=True, text=True).stdout.splitlines()
rows = ["| commit | subject | properties | re-derived by (law: witness) |", "|---|---|---|---|"]
for line in log:
    h, subj = line.split(" ", 1)
    if not subj.startswith("fix:"):
        continue
    fs = fixed.get(h, [])
    props = sorted({f["property"] for f in fs} | {p for f in fs for p in f.get("also", [])})
    rows.append(f"| `{h}` | {esc(subj[5:])} | {', '.join(props)} | {'; '.join(wit(f) for f in fs[:2]) or '—'} |")
fix_table = "\n".join(rows)

rows = ["| id | property | what fails | matcher | why not fixed |", "|---|---|---|---|---|"]
for f in kf:
    if f["status"] == "known":
        m = f.get("matcher", {})
        rows.append(f"| {f['id']} | {f['property']} | {esc(f['what'])[:260]} | {m.get('name', 'exact input')} | {esc(f.get('why_not_fixed', ''))[:200]} |")
known_table = "\n".join(rows)

rows = ["| id | property | change | needs | check result | first replay |", "|---|---|---|---|---|---|"]
for d in sorted((ROOT / "seeded").iterdir()):
    meta = {}
    if (d / "meta.json").exists():
        try:
            meta = json.loads((d / "meta.json").read_text())
        except Exception:
            pass
    res = []
    for c in sorted(d.glob("check_*.txt")):
        t = c.read_text()
        rc = re.findall(r"rc=(\d+)", t)
        res.append(f"{c.stem[6:]}: " + ("caught" if rc and rc[-1] == "1" else "missed" if rc and rc[-1] == "0" else "n/a"))
    rep = ""
    for r in sorted(d.glob("C*-*.json"))[:1]:
        try:
            j = json.loads(r.read_text())
            rep = f"{j.get('law')}: {json.dumps(j.get('input'), ensure_ascii=True)[:90]}"
        except Exception:
            pass
    rows.append(f"| {d.name} | {meta.get('property', d.name[:3])} | {esc(meta.get('summary', ''))[:230]} | {esc(meta.get('needs', ''))[:160]} | {', '.join(res)} | {esc(rep)} |")
seed_table = "\n".join(rows)

p = ROOT / "DESIGN.md"
s = p.read_text()
for name, tab in (("fixes", fix_table), ("known", known_table), ("seeded", seed_table)):
    a, b = f"<!-- BEGIN GENERATED {name} -->", f"<!-- END GENERATED {name} -->"
    if a in s:
        s = s[: s.index(a) + len(a)] + "\n" + tab + "\n" + s[s.index(b):]
p.write_text(s)
print("tables written")
