#!/bin/sh
# seedtest.sh <name> <worktree> <prop> [more props…]
# Confirms a seeded change (suite passes, demo fails with / passes without), stores it under seeded/<name>,
# then applies it to /repo, runs the given checks, and undoes it straight afterwards.
set -u
name=$1; wt=$2; shift 2
R=${VERIF_REPO:-/repo}
here=$(cd "$(dirname "$0")/.." && pwd)
out="$here/seeded/$name"
mkdir -p "$out"
cd "$wt" || exit 2
git diff -- src > "$out/patch.diff"
[ -s "$out/patch.diff" ] || { echo "empty patch"; exit 2; }
cp demo.py "$out/demo.py" 2>/dev/null
cp meta.json "$out/meta.json" 2>/dev/null
echo "== suite with change"; PYTHONPATH="$wt/src" /venv/bin/python -m pytest -q -p no:cacheprovider --timeout=900 2>&1 | tail -1 | tee "$out/suite.txt"
echo "== demo with change"; /venv/bin/python demo.py > "$out/demo_with.txt" 2>&1; echo "exit $?" | tee -a "$out/demo_with.txt"
# (no `git stash`: the stash is shared by all worktrees of a repository, concurrent runs would swap changes)
git checkout -q -- src
echo "== demo without change"; /venv/bin/python demo.py > "$out/demo_without.txt" 2>&1; echo "exit $?" | tee -a "$out/demo_without.txt"
git apply "$out/patch.diff"
cd "$here"
if ! git -C $R diff --quiet; then echo "/repo is dirty, refusing"; exit 2; fi
git -C $R apply "$out/patch.diff" || { echo "patch does not apply to /repo"; exit 2; }
for p in "$@"; do
  echo "== check $p on the changed tree"
  cp "evidence/$p.json" "/tmp/evidence_$p.bak" 2>/dev/null      # evidence of a run on a changed tree is never kept
  ./check "$p" quick > "$out/check_$p.txt" 2>&1; rc=$?
  cp "evidence/$p.json" "$out/evidence_$p.json" 2>/dev/null
  cp "/tmp/evidence_$p.bak" "evidence/$p.json" 2>/dev/null
  echo "rc=$rc" >> "$out/check_$p.txt"; tail -4 "$out/check_$p.txt"
  for f in $(grep -o 'replay=[^ ]*' "$out/check_$p.txt" | head -3 | cut -d= -f2); do cp "$f" "$out/" 2>/dev/null; done
done
git -C $R checkout -- .
git -C $R status --short | head -3
/venv/bin/python "$here/harness/translate.py" --all > /dev/null 2>&1     # regenerate model data from the restored tree
