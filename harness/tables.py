"""Table generators (registered into translate.TABLES)."""
from __future__ import annotations

import translate
from translate import table
