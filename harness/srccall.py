"""`src.call`: the translated source of a selected function (Lean, `Gen.PySrc.*`, run by the driver) against the
real function on generated arguments.  This is differential testing of the *translation* (translator + the
run-time `PkgModel/PyRt.lean`); the equivalence of the translated function with the model is a theorem
(`lean/PkgProofs/Props/Src/`).  Owning properties mix these cases into their correspondence stream:

    from srccall import SRC
    ... in gen_cases:   yield from SRC.cases(rng, n_src, ["_pad_version", ...])
    ... in real:        if op == "src.call": return SRC.real(args)
    ... in branch:      if op == "src.call": return SRC.branch(args, out)

Arguments stay inside the domain the run-time mirrors (see the header of PyRt.lean: ASCII for isdigit/lower, …).
"""
from __future__ import annotations

import importlib
import types

import core

# ------------------------------------------------------------------------------------------------ wire format
class _ObjClasses(dict):
    """class name -> (class, [field names]) for values that travel as objects; filled on first use (needs the repo)"""
    _loaded = False

    def _load(self):
        if not self._loaded:
            self._loaded = True
            from packaging import version as V
            self["_Version"] = (V._Version, list(V._Version._fields))
            self["Version"] = (V.Version, ["_version", "_key"])
            self["_TrimmedRelease"] = (V._TrimmedRelease, ["_version", "_key"])
            from packaging import tags as T
            self["Tag"] = (T.Tag, ["_interpreter", "_abi", "_platform", "_hash"])
            from packaging import specifiers as SP
            self["Specifier"] = (SP.Specifier, ["_spec", "_prereleases"])
            # --- x3
            from packaging import _parser as PA, markers as MK
            for n in ("Variable", "Value", "Op"):
                self[n] = (getattr(PA, n), ["value"])
            self["Marker"] = (MK.Marker, ["_markers"])
            self["version_info"] = (version_info, ["major", "minor", "micro", "releaselevel", "serial"])
            self["raise"] = (Raise, ["cls"])
            from packaging import _tokenizer as TK
            self["Tokenizer"] = (TK.Tokenizer, ["source", "position", "next_token"])
            self["Token"] = (TK.Token, ["name", "text", "position"])
            self["ParsedRequirement"] = (PA.ParsedRequirement, list(PA.ParsedRequirement._fields))
            from packaging import metadata as MD
            self["_Validator"] = (MD._Validator, ["name", "raw_name", "added"])
            # --- x5
            self["SpecifierSet"] = (SP.SpecifierSet, ["_specs", "_prereleases"])
            from packaging import requirements as RQ
            self["Requirement"] = (RQ.Requirement, ["name", "url", "extras", "specifier", "marker"])
            # --- x6
            self["Metadata"] = (MD.Metadata, [])          # fields: the instance dict, see enc_val
            from packaging import _elffile as EF
            self["ELFFile"] = (EF.ELFFile, ["_f", "capacity", "encoding", "_p_fmt", "_p_idx", "machine", "_e_phoff", "flags",
                                            "_e_phentsize", "_e_phnum"])
            # --- x7: exception objects keep their class and the attributes their own `__init__` sets
            self["InvalidMetadata"] = (MD.InvalidMetadata, ["field"])
            self["ExceptionGroup"] = (MD.ExceptionGroup, ["exceptions"])

    def __contains__(self, k):
        self._load()
        return dict.__contains__(self, k)

    def __getitem__(self, k):
        self._load()
        return dict.__getitem__(self, k)


_OBJ_CLASSES = _ObjClasses()


def enc_val(v) -> str:
    if v is None:
        return "N"
    if v is NotImplemented:
        return "X"
    if v is True:
        return "T"
    if v is False:
        return "F"
    if isinstance(v, int):
        return "i" + str(v)
    if isinstance(v, str):
        return "s" + core.enc(v)
    if isinstance(v, bytes):                                                   # x6
        return "Obytes{v=L[" + ",".join("i" + str(b) for b in v) + "]}"
    if type(v).__name__ == "BytesIO":                                          # x6: contents and position
        return "OBytesIO{data=" + enc_val(v.getvalue()) + ",pos=i" + str(v.tell()) + "}"
    if type(v).__name__ == "Metadata" and type(v).__module__ == "packaging.metadata":   # x6: the instance dict, in order
        return "OMetadata{" + ",".join(f"{k}={enc_val(x)}" for k, x in vars(v).items()) + "}"
    if isinstance(v, types.MethodType):                                        # x7: a bound method, by name and receiver
        return "Omethod{name=" + enc_val(v.__func__.__name__) + ",self=" + enc_val(v.__self__) + "}"
    if isinstance(v, WireObj):                                                 # x6
        return "O" + v.cls + "{" + ",".join(f"{k}={enc_val(x)}" for k, x in v.fields.items()) + "}"
    if isinstance(v, Env):
        return "L[" + ",".join("U[" + enc_val(k) + "," + enc_val(x) + "]" for k, x in v) + "]"
    if isinstance(v, dict):                                                    # x3
        return "D[" + ",".join("U[" + enc_val(k) + "," + enc_val(x) + "]" for k, x in v.items()) + "]"
    if isinstance(v, list):
        return "L[" + ",".join(enc_val(x) for x in v) + "]"
    if isinstance(v, (set, frozenset)):        # x2: members sorted by wire form (hash-table order is not modelled)
        return "O" + ("frozenset" if isinstance(v, frozenset) else "set") + "{items=L[" + ",".join(sorted(enc_val(x) for x in v)) + "]}"
    tn = type(v).__name__
    if tn in OPAQUE_CLASSES and tn not in TRANSPARENT:   # x3: objects of other libraries / untracked classes, known by class and text
        return "Oopaque{cls=" + enc_val(tn) + ",str=" + enc_val(str(v)) + "}"
    if tn == "NegativeInfinityType":
        return "m"
    if tn == "InfinityType":
        return "p"
    if tn in _OBJ_CLASSES:
        cls, fields = _OBJ_CLASSES[tn]
        # hash values are the interpreter's (and randomised for str): the run-time's stand-in is 0
        return "O" + tn + "{" + ",".join(f"{k}={'i0' if k == '_hash' else enc_val(getattr(v, k))}" for k in fields if hasattr(v, k)) + "}"
    if isinstance(v, tuple):
        return "U[" + ",".join(enc_val(x) for x in v) + "]"
    if isinstance(v, types.GeneratorType) or (hasattr(v, "__next__") and hasattr(v, "__iter__")):
        return "I[" + ",".join(enc_val(x) for x in v) + "]"
    raise TypeError(f"no wire form for {type(v).__name__}")


OPAQUE_CLASSES = {"SpecifierSet", "Requirement", "PurePosixPath", "PureWindowsPath"}
# x5: classes that travel as objects (fields) while a function of X5_FUNCS is generated / run, although they are opaque for
# the functions of other modules
TRANSPARENT: set = set()


class _P:
    def __init__(self, s):
        self.s, self.i = s, 0

    def val(self):
        s = self.s
        c = s[self.i]
        self.i += 1
        if c == "N":
            return None
        if c == "T":
            return True
        if c == "F":
            return False
        if c in "is":
            j = self.i
            while j < len(s) and s[j] in "0123456789abcdef.-":
                j += 1
            tok = s[self.i:j]
            self.i = j
            return int(tok) if c == "i" else core.dec(tok)
        if c in "LUID":
            assert s[self.i] == "["
            self.i += 1
            out = []
            while s[self.i] != "]":
                if s[self.i] == ",":
                    self.i += 1
                    continue
                out.append(self.val())
            self.i += 1
            if c == "D":
                return {k: v for k, v in out}
            return out if c == "L" else tuple(out) if c == "U" else iter(out)
        if c in "mp":
            from packaging import _structures
            return _structures.NegativeInfinity if c == "m" else _structures.Infinity
        if c == "O":
            j = self.i
            while s[j] != "{":
                j += 1
            name = s[self.i:j]
            self.i = j + 1
            fields = {}
            while s[self.i] != "}":
                if s[self.i] == ",":
                    self.i += 1
                    continue
                k = self.i
                while s[k] != "=":
                    k += 1
                key = s[self.i:k]
                self.i = k + 1
                fields[key] = self.val()
            self.i += 1
            if name in ("set", "frozenset"):
                return (set if name == "set" else frozenset)(fields["items"])
            if name == "bytes":                                          # x6
                return bytes(fields["v"])
            if name == "BytesIO":
                import io
                o = io.BytesIO(fields["data"])
                o.seek(fields["pos"])
                return o
            if name in ("Header", "HeaderErr", "other", "raised"):      # x7: known by class name and fields only
                return WireObj(name, fields)
            if name in ("module", "callable"):                          # x6: known by class name and fields only
                return WireObj(name, fields)
            if name == "Message":                                        # x7: the real message is re-parsed from its source
                m_ = _x7_parse(fields["source"])
                m_.__dict__["_x9_source"] = fields["source"]             # x9: kept for the answer of `_get_payload__io`
                return m_
            cls, _ = _OBJ_CLASSES[name]
            if issubclass(cls, tuple):
                return cls(**fields)
            if issubclass(cls, BaseException):            # x7: `object.__new__` refuses exception classes
                o = cls.__new__(cls)
                for k, v in fields.items():
                    setattr(o, k, v)
                return o
            if name == "Tokenizer":                       # x3: a real tokenizer (compiled rules) moved to the position
                from packaging import _tokenizer as TK
                o = TK.Tokenizer(fields["source"], rules=TK.DEFAULT_RULES)
                o.position, o.next_token = fields["position"], fields["next_token"]
                return o
            o = object.__new__(cls)
            for k, v in fields.items():
                object.__setattr__(o, k, v)
            return o
        raise ValueError("bad wire value at " + str(self.i - 1))


def dec_val(s: str):
    p = _P(s)
    v = p.val()
    assert p.i == len(s), s
    return v


# ------------------------------------------------------------------------------------------------ registry
def _resolve(mod, path):
    import inspect
    obj = importlib.import_module(mod)
    for part in path.split("."):
        if part.startswith("registry["):
            obj = obj.registry[{"str": str, "object": object}[part[9:-1]]]
            continue
        obj = inspect.getattr_static(obj, part) if inspect.isclass(obj) else getattr(obj, part)
    if isinstance(obj, property):
        obj = obj.fget
    if isinstance(obj, (staticmethod, classmethod)):
        obj = obj.__func__
    return obj


def _case(s, rng):
    return "".join(c.upper() if rng.random() < 0.3 else c for c in s)


LETTERS = ["alpha", "a", "beta", "b", "c", "pre", "preview", "rc", "rev", "r", "post", "dev", "x", "al", "previe", "rcx"]
SEGMENTS = ["dev", "dev1", "a", "a1", "b2", "rc1", "post", "post3", "1", "0", "", "de", "xdev", "Dev1", "pos", "r", "c1",
            "rc", "rca", "b", "ab", "posT1", "10", "deV"]
PAD_TOKENS = ["0", "1", "00", "10", "2", "a1", "b2", "rc1", "post1", "dev0", "", "1a", "-1", "x", "0 ", "3"]


def _g_parse_letter_version(rng):
    letter = rng.choice([None, None, None, None, "", ""] * 2 + LETTERS * 2)
    if letter:
        letter = _case(letter, rng)
    number = rng.choice([None, None, "", "0", "00", "1", "7", "12", "007", str(rng.randrange(10 ** rng.randrange(1, 25))),
                         0, 1, 5, "x", "1x", " 3", "4 ", "1_0", "-2", "+3", "_1", "1__0", True, False])
    return [letter, number]


def _g_is_not_suffix(rng):
    s = rng.choice(SEGMENTS)
    if rng.random() < 0.3:
        s += rng.choice(["", "0", "1", "x", ".", "dev"])
    return [s]


def _toks(rng):
    n = rng.choice([0, 1, 1, 2, 3, 4, 5])
    t = [str(rng.choice([0, 0, 1, 2, 10, 33])) for _ in range(n)]
    if rng.random() < 0.5:
        t.append(rng.choice(["a1", "b2", "rc1", "post1", "dev0"]))
    if rng.random() < 0.3:
        t.append(rng.choice(["post1", "dev0"]))
    if rng.random() < 0.25:
        i = rng.randrange(len(t) + 1)
        t = t[:i] + [rng.choice(PAD_TOKENS)] + t[i:]
    return t


def _g_version_join(rng):
    return [_toks(rng)]


def _g_pad_version(rng):
    return [_toks(rng), _toks(rng)]


def _version_obj(rng, trimmed=0.0):
    from packaging import version as V
    from gen import versions as GV
    st = GV.struct(rng)
    if rng.random() < 0.35:                       # zeros at the end of / all over the release (trimming, public split)
        st["release"] = rng.choice([[0], [0, 0], [1, 0], [1, 0, 0], [0, 1, 0], [0, 0, 0, 0], st["release"] + [0, 0]])
    s = GV.spell(rng, st) if rng.random() < 0.5 else GV.normal(st)
    cls = V._TrimmedRelease if rng.random() < trimmed else V.Version
    return cls(s)


def _g_version_method(trimmed):
    def g(rng):
        return [_version_obj(rng, trimmed)]
    return g


def _g_cmpkey(rng):
    v = _version_obj(rng)._version
    return [v.epoch, v.release, v.pre, v.post, v.dev, v.local]


# ------------------------------------------------------------------------------------------------ environment
class Env(list):
    """the first argument of a translated function that reads the world outside: [(key, value), …] as in PyRt.Env"""


def _apply_env(env):
    """patch packaging.tags so that the real function sees the environment `env`; returns an undo function"""
    import sys as real_sys
    from packaging import tags as T
    d = dict(env)
    saved = {k: getattr(T, k) for k in ("sys", "sysconfig", "platform_tags", "EXTENSION_SUFFIXES")}

    class FakeSys:
        def __getattr__(self, name):
            if name == "gettotalrefcount":
                if d.get("hasattr(sys,gettotalrefcount)"):
                    return lambda: 0
                raise AttributeError(name)
            return getattr(real_sys, name)
    fs = FakeSys()
    if "sys.version_info" in d:
        fs.version_info = d["sys.version_info"]
    if "sys.maxunicode" in d:
        fs.maxunicode = d["sys.maxunicode"]
    if "sys.implementation.name" in d:                  # x2
        fs.implementation = types.SimpleNamespace(name=d["sys.implementation.name"])
    T.sys = fs
    if "sysconfig.get_config_var" in d:
        table = {k[0]: v for k, v in d["sysconfig.get_config_var"]}

        class FakeSysconfig:
            @staticmethod
            def get_config_var(name):
                return table[name]
        T.sysconfig = FakeSysconfig
    if "platform_tags" in d:
        plats = list(d["platform_tags"][0][1])
        T.platform_tags = lambda: iter(plats)
    if "EXTENSION_SUFFIXES" in d:
        T.EXTENSION_SUFFIXES = d["EXTENSION_SUFFIXES"]

    from packaging import _manylinux as ML                      # x2: glibc probes
    saved_ml = {}
    for key in ("_glibc_version_string_confstr", "_glibc_version_string_ctypes"):
        if key in d:
            saved_ml[key] = getattr(ML, key)
            setattr(ML, key, (lambda v: (lambda: v))(d[key][0][1]))

    def undo():
        for k, v in saved.items():
            setattr(T, k, v)
        for k, v in saved_ml.items():
            setattr(ML, k, v)
    return undo


PLATS = ["linux_x86_64", "manylinux2014_x86_64", "any", "win_amd64", "macosx_11_0_arm64", "Linux_X86", "a-b", ""]
ABIS = ["cp313", "cp313t", "cp39", "cp312d", "abi3", "none", "cp3", "cpx", "cp", "cp31\nt", "CP313T", "pypy39_pp73", "cp313td", ""]


EXT_SUFFIXES = [".cpython-313-x86_64-linux-gnu.so", ".cpython-310-darwin.so", ".cp310-win_amd64.pyd", ".pyd", ".so",
                ".pypy38-pp73-x86_64-linux-gnu.so", ".graalpy-38-native-x86_64-darwin.dylib", ".pyston-23-x86_64.so",
                "", None, 3, "x.so", "cpython-313.so", ".cpython.so", "..so", ".pypy39.so", ".graalpy-38.so", ".cp3 9.x-y.so",
                ".CPYTHON-39.so", ".cpython-3.9 x.so"]


def _g_env(rng):
    cfgval = lambda: rng.choice([None, None, 0, 1, 4, 2, "", "1", "yes"])
    return Env([
        ("sys.version_info", tuple(rng.choice([[3, 12], [3, 13], [3, 7], [3, 2], [2, 7], [3, 0], [3], [4, 1]]))),
        ("platform_tags", [((), iter(rng.sample(PLATS, rng.choice([0, 1, 2, 3]))))]),
        ("sysconfig.get_config_var", [((n,), cfgval()) for n in ("Py_DEBUG", "Py_GIL_DISABLED", "WITH_PYMALLOC", "Py_UNICODE_SIZE")]
         + [(("py_version_nodot",), rng.choice([None, None, "313", 313, 0, "", "39", 27])),               # x2
            (("EXT_SUFFIX",), rng.choice(EXT_SUFFIXES))]),
        ("hasattr(sys,gettotalrefcount)", rng.random() < 0.3),
        ("EXTENSION_SUFFIXES", rng.choice([[], ["_d.pyd"], [".so", "_d.pyd"], [".pyd"]])),
        ("sys.maxunicode", rng.choice([1114111, 65535])),
        ("sys.implementation.name", rng.choice(["cpython", "cpython", "pypy", "python", "ironpython", "jython", "graalpy", "", "CPython"])),
    ])


def _g_pyversion(rng, allow_none=True):
    opts = [[3, 13], [3, 12], [3, 8], [3, 7], [3, 3], [3, 2], [3, 1], [3, 0], [2, 7], [3], [2], [3, 13, 1], [4, 0], [0, 0], [3, 20]]
    if allow_none:
        opts += [None, None, []]
    v = rng.choice(opts)
    return None if v is None else (tuple(v) if rng.random() < 0.7 else list(v))


def _g_plats(rng):
    return rng.choice([None, None, [], rng.sample(PLATS, rng.choice([1, 2, 3]))])


def _g_abis(rng):
    if rng.random() < 0.3:
        return None
    return rng.sample(ABIS, rng.choice([0, 1, 2, 3, 4]))


def _g_py_interpreter_range(rng):
    return [_g_pyversion(rng, allow_none=False)]


def _g_abi3_applies(rng):
    return [_g_pyversion(rng, allow_none=False), rng.random() < 0.4]


def _g_is_threaded(rng):
    return [rng.sample(ABIS, rng.choice([0, 1, 1, 2, 3]))]


def _g_compatible_tags(rng):
    return [_g_env(rng), _g_pyversion(rng), rng.choice([None, None, "", "cp313", "pp39", "CP3"]), _g_plats(rng)]


def _g_cpython_tags(rng):
    return [_g_env(rng), _g_pyversion(rng), _g_abis(rng), _g_plats(rng), rng.random() < 0.3]


def _g_cpython_abis(rng):
    return [_g_env(rng), _g_pyversion(rng, allow_none=False), rng.random() < 0.3]


def _g_get_config_var(rng):
    return [_g_env(rng), rng.choice(["Py_DEBUG", "Py_GIL_DISABLED", "WITH_PYMALLOC", "Py_UNICODE_SIZE", "py_version_nodot", "EXT_SUFFIX"]),
            rng.random() < 0.5]


def _g_version_nodot(rng):
    return [_g_pyversion(rng, allow_none=False)]


def _g_tag_init(rng):
    from packaging import tags as T
    return [object.__new__(T.Tag), rng.choice(["cp313", "CP39", "py3"]), rng.choice(ABIS), rng.choice(PLATS)]


def _g_compare(ops, wild=False):
    """(self, prospective, spec) for Specifier._compare_*: a spec version, a candidate near it, every spelling"""
    def g(rng):
        from packaging import specifiers as SP
        from packaging import version as V
        from gen import versions as GV
        from gen import specrel as R
        op = rng.choice(ops)
        _, v, w = R.clause_struct(rng)
        c = R.candidate_near(rng, v)
        if op == "~=" and len(v["release"]) < 2:
            v = dict(v, release=list(v["release"]) + [0])
        k = rng.random()
        if op == "===":
            text = R.arbitrary_text(rng, c)
        elif k < 0.6:
            text = GV.normal(v)
        elif k < 0.9:
            text = GV.spell(rng, v, ws=False)
        else:
            text = GV.malformed(rng, GV.normal(v))              # the method is called directly: any text can arrive
        if wild and rng.random() < 0.6:
            bare = dict(v, pre=None, post=None, dev=None, local=None)
            text = (GV.normal(bare) if rng.random() < 0.7 else GV.spell(rng, bare, ws=False)) + ".*"
        elif op not in ("==", "!=", "===") and rng.random() < 0.9:
            text = text.split("+")[0]
        self_ = SP.Specifier(">=1")
        return [self_, V.Version(GV.spell(rng, c)), text]
    return g


def _g_version_split(rng):
    from gen import versions as GV
    v = GV.struct(rng, maxrel=5)
    k = rng.random()
    if k < 0.5:
        s = GV.normal(v)
    elif k < 0.75:
        s = GV.spell(rng, v, ws=False)
    elif k < 0.85:
        s = GV.normal(v) + rng.choice(["\n", ".*", ".", "!", "!1", ".rc1\n", "a", ".1a1", ".1c2", ".1rc", "rc", ".b", ".1b2x"])
    else:
        s = GV.malformed(rng, GV.normal(v))
    return [s]


def _g_canon_str(rng):
    return [_g_version_split(rng)[0], rng.random() < 0.5]


def _g_canon_obj(rng):
    return [_version_obj(rng), rng.random() < 0.5]


def _g_two_versions(rng):
    from packaging import version as V
    from gen import versions as GV
    a = GV.struct(rng)
    b = GV.neighbour(rng, a) if rng.random() < 0.7 else GV.struct(rng)
    other = V.Version(GV.spell(rng, b))
    if rng.random() < 0.05:
        other = rng.choice([None, 1, "1.0"])
    return [V.Version(GV.spell(rng, a)), other]


def _spec_obj(rng):
    """a Specifier (every operator, wildcard, arbitrary text, an explicit prereleases override) and its spec version"""
    from packaging import specifiers as SP
    from gen import versions as GV
    from gen import specrel as R
    op, v, wild = R.clause_struct(rng)
    raw = R.arbitrary_text(rng, R.candidate_near(rng, v)) if op == "===" else None
    text = R.spell_clause(rng, op, v, wild, raw)
    ov = rng.choice([None, None, None, True, False])
    return SP.Specifier(text, prereleases=ov), v


def _g_spec_prereleases(rng):
    return [_spec_obj(rng)[0]]


def _cand(rng, v):
    from packaging import version as V
    from gen import versions as GV
    from gen import specrel as R
    return V.Version(GV.spell(rng, R.candidate_near(rng, v)))


def _g_spec_contains(rng):
    sp, v = _spec_obj(rng)
    item = _cand(rng, v)
    if rng.random() < 0.2:
        item = str(item)                       # _coerce_version on a string
    return [sp, item, rng.choice([None, None, True, True, False])]


def _g_spec_filter(rng):
    sp, v = _spec_obj(rng)
    items = [_cand(rng, v) for _ in range(rng.choice([0, 1, 2, 3, 4, 6]))]
    if rng.random() < 0.2:
        items = [str(x) if rng.random() < 0.5 else x for x in items]
    return [sp, items, rng.choice([None, None, None, True, False])]


# ------------------------------------------------------------------------------------------------ x3: markers
class version_info:
    """stand-in for `sys.implementation.version` (attribute access only)"""


class Raise:
    """result of an oracle call that raised: travels as `Oraise{cls=s…}`"""
    def __init__(self, cls):
        self.cls = cls


Raise.__name__ = "raise"


class Oracle(list):
    """first argument of a translated function that calls functions modelled elsewhere: [(name, args, result), …]"""


def _record(module_name, names, fn, args):
    """run the real `fn(*args)` with the oracle functions of the module wrapped so that every call is recorded"""
    import copy
    import inspect
    mod = importlib.import_module(module_name)
    rec = Oracle()
    saved = {}

    def wrap_function(name, real):
        sig = inspect.signature(real)

        def w(*a, **k):
            b = sig.bind(*a, **k)
            b.apply_defaults()
            key = tuple(copy.deepcopy(list(b.arguments.values())))
            try:
                r = real(*a, **k)
            except Exception as e:
                rec.append((name, key, Raise(type(e).__name__)))
                raise
            rec.append((name, key, copy.deepcopy(r)))
            return r
        return w

    def wrap_class(name, real, methods):
        ns = {}
        isig = inspect.signature(real.__init__)

        def __init__(self, *a, **k):
            b = isig.bind(self, *a, **k)
            b.apply_defaults()
            key = tuple(list(b.arguments.values())[1:])
            try:
                real.__init__(self, *a, **k)
            except Exception as e:
                rec.append((name, key, Raise(type(e).__name__)))
                raise
            rec.append((name, key, copy.copy(self)))
        ns["__init__"] = __init__
        for m in methods:
            rm = getattr(real, m)
            msig = inspect.signature(rm)

            def meth(self, *a, _rm=rm, _msig=msig, _m=m, **k):
                b = _msig.bind(self, *a, **k)
                b.apply_defaults()
                key = tuple([copy.copy(self)] + list(b.arguments.values())[1:])
                try:
                    r = _rm(self, *a, **k)
                except Exception as e:
                    rec.append((f"{name}.{_m}", key, Raise(type(e).__name__)))
                    raise
                rec.append((f"{name}.{_m}", key, r))
                return r
            ns[m] = meth
        return type(name, (real,), ns)

    classes = {}
    for n in names:
        if "." in n:
            classes.setdefault(n.split(".")[0], []).append(n.split(".")[1])
    for n in names:
        if "." in n:
            continue
        real = getattr(mod, n)
        saved[n] = real
        setattr(mod, n, wrap_class(n, real, classes.get(n, [])) if isinstance(real, type) else wrap_function(n, real))
    try:
        try:
            fn(*copy.deepcopy(args))
        except Exception:
            pass
    finally:
        for n, v in saved.items():
            setattr(mod, n, v)
    out = Oracle()
    seen = set()
    for e in rec:
        k = enc_val(e[0]) + enc_val(e[1])
        if k not in seen:
            seen.add(k)
            out.append(e)
    return out


def _record_dotted(module_name, names, fn, args):
    """like `_record`, for oracle names reached through a module attribute (`utils.canonicalize_name`,
    `pathlib.PurePosixPath`) and for methods of the objects those constructors return (`PurePosixPath.is_absolute`):
    the function is replaced in its home module, methods are shadowed on their class, for the duration of the call"""
    import copy
    import inspect
    mod = importlib.import_module(module_name)
    rec = Oracle()
    undo = []

    def wrap(name, real, drop_self=False):
        def w(*a, **k):
            try:
                sig = inspect.signature(real)
                if any(p_.kind in (p_.VAR_POSITIONAL, p_.VAR_KEYWORD) for p_ in sig.parameters.values()):
                    raise TypeError
                b = sig.bind(*a, **k)
                b.apply_defaults()
                key = tuple(copy.copy(x) for x in b.arguments.values())
            except (TypeError, ValueError):
                key = tuple(a)
            try:
                r = real(*a, **k)
            except Exception as e:
                rec.append((name, key, Raise(type(e).__name__)))
                raise
            rec.append((name, key, r))
            return r
        return w

    classes = {}
    for n in names:
        if "." not in n or n == "str.lower":
            continue
        head, attr = n.split(".", 1)
        holder = getattr(mod, head, None)
        if holder is not None and inspect.ismodule(holder):
            real = getattr(holder, attr)
            if isinstance(real, type):
                classes[real.__name__] = real
                ctor = wrap(n, real)
                setattr(holder, attr, ctor)
            else:
                setattr(holder, attr, wrap(n, real))
            undo.append((holder, attr, real, True))
    for n in names:
        if "." in n and n.split(".", 1)[0] in classes:
            cls = classes[n.split(".", 1)[0]]
            attr = n.split(".", 1)[1]
            real = getattr(cls, attr)
            had = attr in cls.__dict__
            setattr(cls, attr, wrap(n, real))
            undo.append((cls, attr, real, had))
    try:
        try:
            fn(*copy.deepcopy(args))
        except Exception:
            pass
    finally:
        for holder, attr, real, had in reversed(undo):
            if had:
                setattr(holder, attr, real)
            else:
                delattr(holder, attr)
    if "str.lower" in names:                    # `str.lower` cannot be intercepted: tabulate it for every string in sight
        def strings(v):
            if isinstance(v, str):
                yield v
            elif isinstance(v, (list, tuple)):
                for x in v:
                    yield from strings(x)
        for x in strings(list(args)):
            rec.append(("str.lower", (x,), x.lower()))
    out = Oracle()
    seen = set()
    for e in rec:
        k = enc_val(e[0]) + enc_val(e[1])
        if k not in seen:
            seen.add(k)
            out.append(e)
    return out


METADATA_ORACLES = ["utils.canonicalize_name", "version_module.parse", "specifiers.SpecifierSet", "requirements.Requirement",
                    "licenses.canonicalize_license_expression", "pathlib.PurePosixPath", "pathlib.PureWindowsPath",
                    "PurePosixPath.is_absolute", "PureWindowsPath.is_absolute", "PureWindowsPath.as_posix", "str.lower"]


def _g_validator(field, wrong=("", None, [], ["x"], "x")):
    def g(rng):
        from packaging import metadata as MD
        from gen import metadata as GM
        good, bad, esc = GM.POOLS[field]
        r = rng.random()
        if r < 0.5 and good:
            v = rng.choice(good)
        elif r < 0.85 and bad:
            v = rng.choice(bad)
        elif r < 0.93 and esc:
            v = rng.choice(esc)
        else:
            v = rng.choice(good or bad)
        if isinstance(v, str) and any(0xD800 <= ord(c) <= 0xDFFF for c in v):
            v = "x"
        self_ = MD.Metadata.__dict__[field]
        name = "_Validator._process_" + field
        f = _resolve(*FUNCS[name][:2])
        if name not in EXT_FUNCS:
            return [self_, v]
        return [_record_dotted("packaging.metadata", METADATA_ORACLES, f, [self_, v]), self_, v]
    return g


def _g_parse_keywords(rng):
    from gen import metadata as GM
    return [rng.choice(["a,b", "", ",", " a , b ,c", "one", "a,,b", "\u2003x\u2003,\xa0y", "x\x1f, y\x85", ",a", "a b,c d"] + GM.TEXTS)]


def _g_parse_project_urls(rng):
    pool = ["Home, https://example.com", "Docs,https://d", "Home,other", "nocomma", "", ",", " , ", "a,b,c", " Home ,  u ",
            "\u2003L\u2003,\xa0u", "x", "x,", ",y"]
    return [[rng.choice(pool) for _ in range(rng.choice([0, 1, 2, 2, 3, 4]))]]


MARKER_ORACLES = ["canonicalize_name", "Specifier", "Specifier.contains", "default_environment"]


def _with_oracle(name, args, call=None):
    mod, path, _ = FUNCS[name]
    f = _resolve(mod, path)
    return [_record(mod, MARKER_ORACLES, call or f, args)] + args


def _marker_text(rng, depth=None):
    from gen import markers as G
    while True:
        try:
            pool = G.make_pool(rng)
            tree = G.formula(rng, pool, depth=depth if depth is not None else rng.choice([0, 0, 1, 1, 2, 3, 4]), p_odd=0.08)
            return pool, tree, G.render(tree, rng, extra_paren=rng.choice([0.1, 0.3, 0.6]), respell_extra=rng.random() < 0.5)
        except G.OutOfDomain:
            continue


def _parsed(rng):
    from packaging import _parser as PA
    while True:
        pool, tree, s = _marker_text(rng)
        try:
            return pool, tree, PA.parse_marker(s)
        except Exception:
            continue


def _g_normalize_extra_values(rng):
    return _with_oracle("_normalize_extra_values", [_parsed(rng)[2]])


def _g_format_marker(rng):
    from packaging import markers as MK
    m = _parsed(rng)[2]
    if rng.random() < 0.5:
        m = MK._normalize_extra_values(m)
    r = rng.random()
    if r < 0.15:
        m = rng.choice(m)                       # a tuple, a str or a nested list
    elif r < 0.25:
        m = [m]
    elif r < 0.3:
        m = rng.choice([[], [[]], ["and"], [[["or"]]]])
    return [m, rng.choice([True, True, False, None])]


def _g_eval_op(rng):
    from packaging import _parser as PA
    from gen import markers as G
    pool = G.make_pool(rng)
    op = rng.choice(G.OPS + ["~=", "===", "<", ">=", "foo", ""])
    lhs, rhs = G.literal(rng, pool), G.literal(rng, pool)
    if rng.random() < 0.3:
        rhs = lhs
    return _with_oracle("_eval_op", [lhs, PA.Op(op), rhs])


def _g_normalize(rng):
    from gen import markers as G
    pool = G.make_pool(rng) + ["Foo_Bar", "foo-bar", "FOO.BAR", "a__b"]
    vals = tuple(rng.choice(pool) for _ in range(rng.choice([2, 2, 2, 0, 1, 3])))
    f = _resolve(*FUNCS["_normalize"][:2])
    key = rng.choice(["extra", "extra", "os_name", "Extra", ""])
    return _with_oracle("_normalize", [vals, key], call=lambda v, k: f(*v, key=k))


def _g_get_env(rng):
    from gen import markers as G
    env = G.environment(rng, G.make_pool(rng)) or {}
    return [env, rng.choice(G.VARS + ["foo", "", "Extra"])]


def _full_env(rng, pool):
    from gen import markers as G
    from gen import marker_real as R
    env = dict(R.default_env())
    env["extra"] = ""
    sup = G.environment(rng, pool) or {}
    env.update({k: v for k, v in sup.items() if v is not None})
    if rng.random() < 0.1:
        env.pop(rng.choice(sorted(env)))
    return env


def _g_evaluate_markers(rng):
    from packaging import markers as MK
    pool, tree, m = _parsed(rng)
    m = MK._normalize_extra_values(m)
    if rng.random() < 0.04:
        m = rng.choice([[], ["and"], m + ["xor"], [m, "or", []]])
    return _with_oracle("_evaluate_markers", [m, _full_env(rng, pool)])


def _g_format_full_version(rng):
    v = version_info()
    v.major, v.minor, v.micro = rng.choice([3, 7, 0, 12]), rng.choice([0, 9, 13, 100]), rng.choice([0, 1, 17])
    v.releaselevel = rng.choice(["final", "final", "alpha", "beta", "candidate", "", "f"])
    v.serial = rng.choice([0, 1, 2, 15])
    return [v]


def _g_repair(rng):
    from gen import markers as G
    env = _full_env(rng, G.make_pool(rng))
    if rng.random() < 0.4:
        env["python_full_version"] = rng.choice(["3.12.0+", "+", "3.9.1", "", "3.13.0a1+", "++"])
    return [env]


def _marker_obj(rng):
    from packaging import markers as MK
    while True:
        pool, tree, s = _marker_text(rng)
        try:
            return pool, MK.Marker(s)
        except Exception:
            continue


def _g_marker_self(rng):
    return [_marker_obj(rng)[1]]


def _g_marker_eq(rng):
    from packaging import markers as MK
    from gen import markers as G
    pool, tree, s = _marker_text(rng)
    try:
        a = MK.Marker(s)
    except Exception:
        return _g_marker_eq(rng)
    r = rng.random()
    if r < 0.5:
        try:
            b = MK.Marker(G.render(tree, rng, respell_extra=True))
        except Exception:
            b = a
    elif r < 0.9:
        b = _marker_obj(rng)[1]
    else:
        b = rng.choice([None, 1, str(a), [str(a)]])
    return [a, b]


def _g_marker_init(rng):
    from packaging import markers as MK
    from gen import markers as G
    text = _marker_text(rng)[2]
    if rng.random() < 0.25:
        text = G.damage(rng, text)
    return _with_oracle("Marker.__init__", [object.__new__(MK.Marker), text])


def _g_marker_evaluate(rng):
    from gen import markers as G
    pool, m = _marker_obj(rng)
    env = G.environment(rng, pool)
    return _with_oracle("Marker.evaluate", [m, env])


# ------------------------------------------------------------------------------------------------ x3: the parser
PARSER_FUNCS = ["_parse_marker_var", "_parse_marker_op", "_parse_marker_item", "_parse_marker_atom", "_parse_marker",
                "_parse_full_marker", "_parse_version_many", "_parse_specifier", "_parse_extras_list", "_parse_extras",
                "_parse_requirement_marker", "_parse_requirement_details", "_parse_requirement"]


def _parser_text(rng):
    """a marker or a requirement, as written or damaged"""
    from gen import markers as G
    r = rng.random()
    if r < 0.45:
        s = _marker_text(rng)[2]
        if rng.random() < 0.25:
            s = G.damage(rng, s)
        return s, "marker"
    from props import C08
    if r < 0.55:
        return rng.choice(C08.WITNESS_TEXTS), "req"
    s = C08.render(rng, C08.req_struct(rng), loose=rng.random() < 0.2)
    if rng.random() < 0.3:
        s = C08.damage_req(rng, s)
    return s, "req"


def _entries(text, kind):
    """(function, position, extra arguments) at every entry into a parser function while the real parser runs on text"""
    from packaging import _parser as PA
    seen = []
    saved = {}
    for n in PARSER_FUNCS:
        real = getattr(PA, n)
        saved[n] = real

        def w(tokenizer, *a, _n=n, _real=real, **k):
            if tokenizer.next_token is None:
                seen.append((_n, tokenizer.position, dict(k)))
            return _real(tokenizer, *a, **k)
        setattr(PA, n, w)
    try:
        try:
            (PA.parse_marker if kind == "marker" else PA.parse_requirement)(text)
        except Exception:
            pass
    finally:
        for n, v in saved.items():
            setattr(PA, n, v)
    return seen


def _g_parser_fn(name):
    def g(rng):
        from packaging import _tokenizer as TK
        for _ in range(200):
            text, kind = _parser_text(rng)
            if rng.random() < 0.1:
                text, kind = text, ("req" if kind == "marker" else "marker")      # the other grammar's text
            hits = [e for e in _entries(text, kind) if e[0] == name]
            if hits:
                _, pos, kw = rng.choice(hits)
                t = TK.Tokenizer(text, rules=TK.DEFAULT_RULES)
                t.position = pos
                return [t] + [kw[k] for k in kw]
        t = TK.Tokenizer(_parser_text(rng)[0], rules=TK.DEFAULT_RULES)
        return [t] + ([0, "x"] if name == "_parse_requirement_marker" else [])
    return g


def _g_parse_source(rng):
    text, kind = _parser_text(rng)
    return [text]


def _g_process_env_var(rng):
    from gen import markers as G
    return [rng.choice(list(G.CANON_OF) + ["python_implementation", "platform.python_implementation", "x", ""]).replace(".", "_")]


def _g_process_python_str(rng):
    from props import C09
    return [C09._lit_token(rng)]


def _g_license(rng):
    from gen import licenses as GL
    r = rng.random()
    if r < 0.12:
        return [GL.arbitrary(rng)]
    toks = GL.expr(rng)
    if r < 0.45:
        toks = GL.damage(rng, toks)[1]
    return [GL.spell(rng, toks, recase=rng.random() < 0.7)]


# lean name -> (module, attribute path, argument generator)
FUNCS = {
    "_parse_letter_version": ("packaging.version", "_parse_letter_version", _g_parse_letter_version),
    "_is_not_suffix": ("packaging.specifiers", "_is_not_suffix", _g_is_not_suffix),
    "_version_join": ("packaging.specifiers", "_version_join", _g_version_join),
    "_pad_version": ("packaging.specifiers", "_pad_version", _g_pad_version),
    "_cmpkey": ("packaging.version", "_cmpkey", _g_cmpkey),
    "Version.__str__": ("packaging.version", "Version.__str__", _g_version_method(0.4)),
    "Version.public": ("packaging.version", "Version.public", _g_version_method(0.2)),
    "Version.base_version": ("packaging.version", "Version.base_version", _g_version_method(0.3)),
    "Version.is_prerelease": ("packaging.version", "Version.is_prerelease", _g_version_method(0.1)),
    "_TrimmedRelease.release": ("packaging.version", "_TrimmedRelease.release", _g_version_method(0.7)),
    "Version.epoch": ("packaging.version", "Version.epoch", _g_version_method(0.1)),
    "Version.release": ("packaging.version", "Version.release", _g_version_method(0.1)),
    "Version.pre": ("packaging.version", "Version.pre", _g_version_method(0.1)),
    "Version.post": ("packaging.version", "Version.post", _g_version_method(0.1)),
    "Version.dev": ("packaging.version", "Version.dev", _g_version_method(0.1)),
    "Version.local": ("packaging.version", "Version.local", _g_version_method(0.1)),
    "_version_nodot": ("packaging.tags", "_version_nodot", _g_version_nodot),
    "_py_interpreter_range": ("packaging.tags", "_py_interpreter_range", _g_py_interpreter_range),
    "_abi3_applies": ("packaging.tags", "_abi3_applies", _g_abi3_applies),
    "_is_threaded_cpython": ("packaging.tags", "_is_threaded_cpython", _g_is_threaded),
    "compatible_tags": ("packaging.tags", "compatible_tags", _g_compatible_tags),
    "cpython_tags": ("packaging.tags", "cpython_tags", _g_cpython_tags),
    "_cpython_abis": ("packaging.tags", "_cpython_abis", _g_cpython_abis),
    "_get_config_var": ("packaging.tags", "_get_config_var", _g_get_config_var),
    "Specifier._compare_less_than": ("packaging.specifiers", "Specifier._compare_less_than", _g_compare(["<"])),
    "Specifier._compare_greater_than": ("packaging.specifiers", "Specifier._compare_greater_than", _g_compare([">"])),
    "Specifier._compare_less_than_equal": ("packaging.specifiers", "Specifier._compare_less_than_equal", _g_compare(["<="])),
    "Specifier._compare_greater_than_equal": ("packaging.specifiers", "Specifier._compare_greater_than_equal", _g_compare([">="])),
    "Specifier._compare_arbitrary": ("packaging.specifiers", "Specifier._compare_arbitrary", _g_compare(["==="])),
    "Specifier._compare_equal": ("packaging.specifiers", "Specifier._compare_equal", _g_compare(["=="], wild=True)),
    "Specifier._compare_not_equal": ("packaging.specifiers", "Specifier._compare_not_equal", _g_compare(["!="], wild=True)),
    "Specifier._compare_compatible": ("packaging.specifiers", "Specifier._compare_compatible", _g_compare(["~="])),
    "_version_split": ("packaging.specifiers", "_version_split", _g_version_split),
    "canonicalize_version__str": ("packaging.utils", "canonicalize_version.registry[str]", _g_canon_str),
    "canonicalize_version__object": ("packaging.utils", "canonicalize_version.registry[object]", _g_canon_obj),
    "_BaseVersion.__lt__": ("packaging.version", "_BaseVersion.__lt__", _g_two_versions),
    "_BaseVersion.__le__": ("packaging.version", "_BaseVersion.__le__", _g_two_versions),
    "_BaseVersion.__gt__": ("packaging.version", "_BaseVersion.__gt__", _g_two_versions),
    "_BaseVersion.__ge__": ("packaging.version", "_BaseVersion.__ge__", _g_two_versions),
    "_BaseVersion.__eq__": ("packaging.version", "_BaseVersion.__eq__", _g_two_versions),
    "Version.is_postrelease": ("packaging.version", "Version.is_postrelease", _g_version_method(0.1)),
    "Specifier.prereleases": ("packaging.specifiers", "Specifier.prereleases", _g_spec_prereleases),
    "Specifier.contains": ("packaging.specifiers", "Specifier.contains", _g_spec_contains),
    "Specifier.filter": ("packaging.specifiers", "Specifier.filter", _g_spec_filter),
}
# --- x3
FUNCS.update({
    "_normalize_extra_values": ("packaging.markers", "_normalize_extra_values", _g_normalize_extra_values),
    "_format_marker": ("packaging.markers", "_format_marker", _g_format_marker),
    "_eval_op": ("packaging.markers", "_eval_op", _g_eval_op),
    "_normalize": ("packaging.markers", "_normalize", _g_normalize),
    "_get_env": ("packaging.markers", "_get_env", _g_get_env),
    "_evaluate_markers": ("packaging.markers", "_evaluate_markers", _g_evaluate_markers),
    "format_full_version": ("packaging.markers", "format_full_version", _g_format_full_version),
    "_repair_python_full_version": ("packaging.markers", "_repair_python_full_version", _g_repair),
    "Marker.__str__": ("packaging.markers", "Marker.__str__", _g_marker_self),
    "Marker.__eq__": ("packaging.markers", "Marker.__eq__", _g_marker_eq),
    "Marker.__hash__": ("packaging.markers", "Marker.__hash__", _g_marker_self),
    "Marker.evaluate": ("packaging.markers", "Marker.evaluate", _g_marker_evaluate),
    "Marker.__init__": ("packaging.markers", "Marker.__init__", _g_marker_init),
})
FUNCS.update({n: ("packaging._parser", n, _g_parser_fn(n)) for n in PARSER_FUNCS})
FUNCS.update({
    "parse_marker": ("packaging._parser", "parse_marker", _g_parse_source),
    "parse_requirement": ("packaging._parser", "parse_requirement", _g_parse_source),
    "process_env_var": ("packaging._parser", "process_env_var", _g_process_env_var),
    "process_python_str": ("packaging._parser", "process_python_str", _g_process_python_str),
})
FUNCS["_parse_keywords"] = ("packaging.metadata", "_parse_keywords", _g_parse_keywords)
FUNCS["_parse_project_urls"] = ("packaging.metadata", "_parse_project_urls", _g_parse_project_urls)
VALIDATOR_FIELDS = ["metadata_version", "name", "version", "summary", "dynamic", "provides_extra", "requires_python",
                    "requires_dist", "license_expression", "license_files"]
for _fld in VALIDATOR_FIELDS:
    FUNCS["_Validator._process_" + _fld] = ("packaging.metadata", "_Validator._process_" + _fld, _g_validator(_fld))
FUNCS["canonicalize_license_expression"] = ("packaging.licenses", "canonicalize_license_expression", _g_license)
# functions over a shared tokenizer: the answer is the result together with the tokenizer afterwards
STATE_FUNCS = set(PARSER_FUNCS)
# functions whose first wire argument is the oracle table (the real function runs against the real callees)
EXT_FUNCS = {"_normalize_extra_values", "_eval_op", "_normalize", "_evaluate_markers", "Marker.evaluate", "Marker.__init__"}
EXT_FUNCS |= {"_Validator._process_" + f for f in VALIDATOR_FIELDS if f not in ("metadata_version", "summary")}
# functions run with `hash` replaced by a symbolic stand-in in their module (see PyRt.hash_sym)
SYM_HASH_FUNCS = {"Marker.__hash__": "packaging.markers"}


ENV_FUNCS = {"compatible_tags", "cpython_tags", "_cpython_abis", "_get_config_var"}


# ------------------------------------------------------------------------------------------------ x2: second round
def _tag_obj(rng):
    from packaging import tags as T
    return T.Tag(rng.choice(["cp313", "CP39", "py3", "pp310", ""]), rng.choice(ABIS), rng.choice(PLATS))


def _g_tag_method(rng):
    return [_tag_obj(rng)]


def _g_two_tags(rng):
    from packaging import tags as T
    a = _tag_obj(rng)
    k = rng.random()
    if k < 0.35:
        b = T.Tag(_case(a.interpreter, rng), _case(a.abi, rng), _case(a.platform, rng))     # equal, other spelling
    elif k < 0.7:                                                                            # one component differs
        parts = [a.interpreter, a.abi, a.platform]
        i = rng.randrange(3)
        parts[i] = rng.choice([parts[i] + "x", parts[i][:-1], rng.choice(PLATS)])
        b = T.Tag(*parts)
    elif k < 0.9:
        b = _tag_obj(rng)
    else:
        b = rng.choice([None, 1, "cp313-cp313-any", (a.interpreter, a.abi, a.platform)])
    return [a, b]


def _g_canonicalize_name(rng):
    from props import C13 as P13
    while True:
        s = P13.random_name(rng)
        if "Σ" not in s:
            return [s, rng.random() < 0.5]


def _g_is_normalized_name(rng):
    return [_g_canonicalize_name(rng)[0]]


def _g_parse_tag(rng):
    from props import C14 as P14
    while True:
        t = P14.rand_tag_string(rng)
        if t.isascii():                        # Tag.__init__ lower-cases with the ASCII run-time function
            return [t]


def _g_parse_sdist(rng):
    from props import C14 as P14
    from gen import versions as GV
    while True:
        sd = P14.sdist_struct(rng)
        q = rng.random()
        if q < 0.5:
            f = P14.assemble_sdist(sd)
        elif q < 0.65:
            f = P14.assemble_sdist(sd, version_text=rng.choice(P14.BAD_VERSIONS + [GV.spell(rng, sd["ver"])]))
        elif q < 0.85:
            f = GV.malformed(rng, P14.assemble_sdist(sd))
        else:
            f = P14.assemble_sdist(sd)[: -len(sd["ext"])] + rng.choice([".tgz", ".tar", ".ZIP", ".tar.gz\n", "", ".whl", ".zip.zip"])
        if "Σ" not in f:
            return [f]


def _g_parse_wheel(rng):
    from props import C14 as P14
    from gen import versions as GV
    while True:
        w = P14.wheel_struct(rng)
        r = rng.random()
        if r < 0.35:
            f = P14.assemble_wheel(w)
        elif r < 0.55:
            f = P14.spelled_wheel(rng, w)
        elif r < 0.85:
            kind = rng.choice(["extension", "parts", "name", "name_trailing_newline", "build", "build_unicode_digit", "version"])
            f = P14.damage_wheel(rng, w, kind)[0]
        else:
            f = GV.malformed(rng, P14.assemble_wheel(w))
        # the tag part must be ASCII (run-time restriction of Tag.__init__); the name part may be anything
        if "Σ" not in f and "-".join(f.split("-")[1:]).isascii():
            return [f]


def _g_normalize_string(rng):
    return [rng.choice(["linux-x86_64", "macosx-10.9-universal2", "win amd64", "a.b-c d", "", "_", "É.x", "a\tb", "manylinux_2_17"])]


def _g_env_only(rng):
    return [_g_env(rng)]


def _g_interpreter_version(rng):
    return [_g_env(rng), rng.random() < 0.5]


def _g_generic_tags(rng):
    return [_g_env(rng), rng.choice([None, None, "", "cp313", "PP39", "ip2"]), _g_abis(rng), _g_plats(rng), rng.random() < 0.3]


GLIBC_TEXTS = ["2.17", "2.5", "2.31-0ubuntu9", "2", "2.", ".5", "x2.4", "12.345", "2.17\n", "", " 2.17", "2.17.1", "02.017", "2_17"]


def _g_parse_glibc(rng):
    return [rng.choice(GLIBC_TEXTS)]


def _g_glibc_string(rng):
    val = lambda: rng.choice([None, None, "", "2.17", "2.31"])
    return [Env([("_glibc_version_string_confstr", [((), val())]), ("_glibc_version_string_ctypes", [((), val())])])]


def _g_mac_arch(rng):
    return [rng.choice(["x86_64", "arm64", "ppc64", "ppc", "i386", "Power", "", "PPC"]), rng.random() < 0.5]


def _g_mac_formats(rng):
    ver = rng.choice([(10, 3), (10, 4), (10, 5), (10, 6), (10, 7), (10, 15), (11, 0), (12, 3), (9, 9), (10,), (10, 4, 1), ()])
    return [ver, rng.choice(["x86_64", "i386", "ppc64", "ppc", "arm64", "intel", "universal2", "", "X86_64"])]


FUNCS.update({
    "_mac_arch": ("packaging.tags", "_mac_arch", _g_mac_arch),
    "_mac_binary_formats": ("packaging.tags", "_mac_binary_formats", _g_mac_formats),
    "_parse_glibc_version": ("packaging._manylinux", "_parse_glibc_version", _g_parse_glibc),
    "_glibc_version_string": ("packaging._manylinux", "_glibc_version_string", _g_glibc_string),
})
ENV_FUNCS |= {"_glibc_version_string"}
ENV_FUNCS |= {"interpreter_name", "interpreter_version", "_generic_abi", "generic_tags", "sys_tags"}

FUNCS.update({
    "_normalize_string": ("packaging.tags", "_normalize_string", _g_normalize_string),
    "interpreter_name": ("packaging.tags", "interpreter_name", _g_env_only),
    "interpreter_version": ("packaging.tags", "interpreter_version", _g_interpreter_version),
    "_generic_abi": ("packaging.tags", "_generic_abi", _g_env_only),
    "generic_tags": ("packaging.tags", "generic_tags", _g_generic_tags),
    "sys_tags": ("packaging.tags", "sys_tags", _g_interpreter_version),
    "canonicalize_name": ("packaging.utils", "canonicalize_name", _g_canonicalize_name),
    "is_normalized_name": ("packaging.utils", "is_normalized_name", _g_is_normalized_name),
    "parse_tag": ("packaging.tags", "parse_tag", _g_parse_tag),
    "parse_sdist_filename": ("packaging.utils", "parse_sdist_filename", _g_parse_sdist),
    "parse_wheel_filename": ("packaging.utils", "parse_wheel_filename", _g_parse_wheel),
    "_BaseVersion.__ne__": ("packaging.version", "_BaseVersion.__ne__", _g_two_versions),
    "Tag.__str__": ("packaging.tags", "Tag.__str__", _g_tag_method),
    "Tag.__eq__": ("packaging.tags", "Tag.__eq__", _g_two_tags),
    "Tag.__hash__": ("packaging.tags", "Tag.__hash__", _g_tag_method),
})


# ------------------------------------------------------------------------------------------------ x5: SpecifierSet
import contextlib


@contextlib.contextmanager
def _transparent(name):
    """while a function of X5_FUNCS is generated / answered, SpecifierSet objects travel with their fields"""
    if name in X5_FUNCS:
        TRANSPARENT.update({"SpecifierSet", "Requirement"})
        try:
            yield
        finally:
            TRANSPARENT.difference_update({"SpecifierSet", "Requirement"})
    else:
        yield


class _OrderedFS(frozenset):
    """a frozenset that iterates in a given order (what `PySet.order env` computes on the Lean side)"""
    def __new__(cls, items, order):
        o = frozenset.__new__(cls, items)
        o._order = list(order)
        return o

    def __iter__(self):
        return iter(self._order)


def _order_by(prio, members):
    """PySet.orderBy: members of prio that are in the set (in the order of prio), then the others in insertion order; the
    insertion order of a set that travelled is the order of the wire forms; equality is that of the wire forms"""
    ms = sorted(members, key=enc_val)
    wire = {enc_val(m): m for m in ms}
    pw = [enc_val(p) for p in prio]
    return [wire[w] for w in pw if w in wire] + [m for m in ms if enc_val(m) not in pw]


def _apply_order(env, vals):
    prio = dict(env).get("frozenset.order")
    out = []
    for v in vals:
        for o in (v, getattr(v, "specifier", None)):          # a SpecifierSet, or the one a Requirement holds
            if type(o).__name__ == "SpecifierSet" and isinstance(getattr(o, "_specs", None), frozenset):
                order = _order_by(prio, o._specs) if prio is not None else sorted(o._specs, key=enc_val)
                o._specs = _OrderedFS(o._specs, order)
        out.append(v)
    return out


def _sset_members(rng):
    """0–4 Specifier objects around one version, some equal under `_canonical_spec` but spelled differently"""
    from packaging import specifiers as SP
    from gen import versions as GV
    from gen import specrel as R
    n = rng.choice([0, 1, 1, 2, 2, 3, 4])
    ms, base = [], None
    for _ in range(n):
        sp, v = _spec_obj(rng)
        base = base or v
        ms.append(sp)
        if rng.random() < 0.3:                    # the same clause again: other spelling / other override
            op, ver = sp._spec
            alt = rng.choice([ver + ".0" if op not in ("===", "~=") and not ver.endswith(".*") else ver, ver.upper(), " " + ver])
            try:
                ms.append(SP.Specifier(op + alt, prereleases=rng.choice([None, True, False])))
            except Exception:
                pass
    rng.shuffle(ms)
    return ms, base


def _sset_obj(rng):
    from packaging import specifiers as SP
    from gen import versions as GV
    ms, base = _sset_members(rng)
    s = SP.SpecifierSet(ms, prereleases=rng.choice([None, None, None, True, False]))
    return s, (base if base is not None else GV.struct(rng))


def _order_env(rng, s):
    members = list(s._specs)
    rng.shuffle(members)
    r = rng.random()
    if r < 0.1:
        members = members[: len(members) // 2]       # a partial priority list: the rest follows in insertion order
    return Env([("frozenset.order", members)]) if r < 0.95 else Env([])


def _g_sset_self(rng):
    return [_sset_obj(rng)[0]]


def _g_sset_self_env(rng):
    s = _sset_obj(rng)[0]
    return [_order_env(rng, s), s]


def _g_sset_init(rng):
    from packaging import specifiers as SP
    ms, _ = _sset_members(rng)
    r = rng.random()
    if r < 0.55:
        parts = [str(m) for m in ms]
        parts = [rng.choice(["", " ", "\t"]) + p + rng.choice(["", " ", "\u2003"]) for p in parts]
        if rng.random() < 0.3:
            parts.insert(rng.randrange(len(parts) + 1), rng.choice(["", " ", "\u00a0"]))
        if rng.random() < 0.2:
            parts.insert(rng.randrange(len(parts) + 1), rng.choice(["1.0", "=>1", "==1.*.0", "~=1", "<1.0+local", "===", "== 1;", "!1"]))
        spec = ",".join(parts)
    elif r < 0.9:
        spec = rng.choice([list(ms), tuple(ms), iter(list(ms))])
    else:
        spec = rng.choice([None, 3, []])          # members other than Specifier are outside the annotation (trusted)
    return [object.__new__(SP.SpecifierSet), spec, rng.choice([None, None, True, False])]


def _g_sset_setter(rng):
    return [_sset_obj(rng)[0], rng.choice([None, True, False])]


def _sset_other(rng, s):
    from packaging import specifiers as SP
    r = rng.random()
    if r < 0.3:                                   # the same members, re-spelled through the string form
        try:
            return SP.SpecifierSet(",".join(str(m) for m in s._specs), prereleases=rng.choice([None, True, False]))
        except Exception:
            return _sset_obj(rng)[0]
    if r < 0.65:
        return _sset_obj(rng)[0]
    if r < 0.8:
        return str(rng.choice([s, _sset_obj(rng)[0]]))
    if r < 0.9 and s._specs:
        return rng.choice(sorted(s._specs, key=str))
    return rng.choice([None, 1, "junk", "", ["==1"]])


def _g_sset_two(rng):
    s = _sset_obj(rng)[0]
    return [s, _sset_other(rng, s)]


def _g_sset_contains(rng):
    s, v = _sset_obj(rng)
    item = _cand(rng, v)
    r = rng.random()
    if r < 0.2:
        item = str(item)
    elif r < 0.25:
        item = rng.choice(["junk", "", "1.0.x"])
    return [_order_env(rng, s), s, item, rng.choice([None, None, True, False]), rng.choice([None, None, True, False])]


def _g_sset_dunder_contains(rng):
    return _g_sset_contains(rng)[:3]


def _g_sset_filter(rng):
    s, v = _sset_obj(rng)
    items = [_cand(rng, v) for _ in range(rng.choice([0, 1, 2, 3, 4, 6]))]
    if rng.random() < 0.25:
        items = [str(x) if rng.random() < 0.5 else x for x in items]
    if rng.random() < 0.05:
        items.insert(rng.randrange(len(items) + 1), "junk")
    return [_order_env(rng, s), s, items, rng.choice([None, None, None, True, False])]


def _g_spec_self(rng):
    return [_spec_obj(rng)[0]]


def _g_spec_two(rng):
    from packaging import specifiers as SP
    a, _ = _spec_obj(rng)
    op, ver = a._spec
    r = rng.random()
    if r < 0.35:
        alt = rng.choice([ver + ".0" if op not in ("===", "~=") and not ver.endswith(".*") else ver, ver.upper(), " " + ver, ver])
        try:
            b = SP.Specifier(op + alt, prereleases=rng.choice([None, True, False]))
        except Exception:
            b = a
    elif r < 0.6:
        b = _spec_obj(rng)[0]
    elif r < 0.85:
        b = rng.choice([str(a), op + " " + ver, ver, "junk", "", "==1.0"])
    else:
        b = rng.choice([None, 1, (op, ver)])
    return [a, b]


_SP = "packaging.specifiers"
FUNCS.update({
    "Specifier.__str__": (_SP, "Specifier.__str__", _g_spec_self),
    "Specifier._canonical_spec": (_SP, "Specifier._canonical_spec", _g_spec_self),
    "Specifier.__hash__": (_SP, "Specifier.__hash__", _g_spec_self),
    "Specifier.__eq__": (_SP, "Specifier.__eq__", _g_spec_two),
    "SpecifierSet.__init__": (_SP, "SpecifierSet.__init__", _g_sset_init),
    "SpecifierSet.prereleases": (_SP, "SpecifierSet.prereleases", _g_sset_self_env),
    "SpecifierSet.prereleases__set": (_SP, "SpecifierSet.prereleases.fset", _g_sset_setter),
    "SpecifierSet.__str__": (_SP, "SpecifierSet.__str__", _g_sset_self_env),
    "SpecifierSet.__hash__": (_SP, "SpecifierSet.__hash__", _g_sset_self),
    "SpecifierSet.__and__": (_SP, "SpecifierSet.__and__", _g_sset_two),
    "SpecifierSet.__eq__": (_SP, "SpecifierSet.__eq__", _g_sset_two),
    "SpecifierSet.__len__": (_SP, "SpecifierSet.__len__", _g_sset_self),
    "SpecifierSet.__iter__": (_SP, "SpecifierSet.__iter__", _g_sset_self_env),
    "SpecifierSet.__contains__": (_SP, "SpecifierSet.__contains__", _g_sset_dunder_contains),
    "SpecifierSet.contains": (_SP, "SpecifierSet.contains", _g_sset_contains),
    "SpecifierSet.filter": (_SP, "SpecifierSet.filter", _g_sset_filter),
})


# ---- Requirement
def _req_text(rng):
    from props import C08
    r = rng.random()
    if r < 0.1:
        return rng.choice(C08.WITNESS_TEXTS)
    s = C08.render(rng, C08.req_struct(rng), loose=rng.random() < 0.2)
    if rng.random() < 0.15:
        s = C08.damage_req(rng, s)
    return s


def _req_obj(rng):
    from packaging import requirements as RQ
    for _ in range(200):
        try:
            return RQ.Requirement(_req_text(rng))
        except Exception:
            continue
    return RQ.Requirement("a")


def _g_req_init(rng):
    from packaging import requirements as RQ
    args = [object.__new__(RQ.Requirement), _req_text(rng)]
    return [_record("packaging.markers", MARKER_ORACLES, RQ.Requirement.__init__, args)] + args


def _g_req_self(rng):
    return [_req_obj(rng)]


def _g_req_self_env(rng):
    r = _req_obj(rng)
    return [_order_env(rng, r.specifier), r]


def _g_req_parts(rng):
    r = _req_obj(rng)
    return [_order_env(rng, r.specifier), r, rng.choice([r.name, r.name, "other-name", ""])]


def _g_req_two(rng):
    from packaging import requirements as RQ
    from props import C08
    a = _req_obj(rng)
    k = rng.random()
    if k < 0.35:                                  # the same requirement, written again (other spelling / order)
        try:
            b = RQ.Requirement(str(a))
        except Exception:
            b = a
    elif k < 0.55:                                # one part differs
        st = str(a)
        b = None
        for cand in (st.replace(a.name, a.name.upper(), 1), st + " ; os_name == 'x'", st.split(";")[0], a.name):
            try:
                b = RQ.Requirement(cand)
                break
            except Exception:
                continue
        b = b or a
    elif k < 0.9:
        b = _req_obj(rng)
    else:
        b = rng.choice([None, 1, str(a)])
    return [a, b]


_RQ = "packaging.requirements"
FUNCS.update({
    "Requirement.__init__": (_RQ, "Requirement.__init__", _g_req_init),
    "Requirement._iter_parts": (_RQ, "Requirement._iter_parts", _g_req_parts),
    "Requirement.__str__": (_RQ, "Requirement.__str__", _g_req_self_env),
    "Requirement.__hash__": (_RQ, "Requirement.__hash__", _g_req_self),
    "Requirement.__eq__": (_RQ, "Requirement.__eq__", _g_req_two),
})
EXT_FUNCS |= {"Requirement.__init__"}
X5_FUNCS = {n for n in FUNCS if n.startswith("SpecifierSet.") or n.startswith("Requirement.")}
ORDER_FUNCS = {"Requirement._iter_parts", "Requirement.__str__", "SpecifierSet.prereleases", "SpecifierSet.__str__", "SpecifierSet.__iter__", "SpecifierSet.__contains__",
               "SpecifierSet.contains", "SpecifierSet.filter"}
SETTER_FUNCS = {"SpecifierSet.prereleases__set"}
SYM_HASH_FUNCS.update({"Specifier.__hash__": _SP, "SpecifierSet.__hash__": _SP, "Requirement.__hash__": _RQ})



# ------------------------------------------------------------------------------------------------ x6: platform remainder
# The environment table of these functions is *derived from a probe description* (the JSON dicts of `tagsglue.probes`,
# as in C16): the generator runs the real probes under `probes(d)` once to fill the table the translated function reads
# (`_get_musl_version(exe)`, `_parse_elf(exe)`, the glibc strings, `import _manylinux`, `platform.*`, `sysconfig.get_platform`)
# and ships `d` itself under the key `__probes__`; `real` re-enters `probes(d)` around the real call.
class WireObj:
    """an object known only by class name and fields (`module`, `callable`): `O<cls>{k=v,…}`"""
    def __init__(self, cls, fields):
        self.cls, self.fields = cls, fields


X6_EXE = "/x6/python"
X6_ARCH_LISTS = [["x86_64"], ["x86_64"], ["i686"], ["aarch64"], ["armv8l", "armv7l"], ["armv7l"], ["ppc64le"], ["s390x"], ["riscv64"],
                 ["mips"], [], ["x86_64", "aarch64"], ["i686", "x86_64"], ["X86_64"], ["x86_64", "x86_64"]]
X6_GLIBC = [(2, 4), (2, 5), (2, 6), (2, 12), (2, 16), (2, 17), (2, 18), (2, 31), (2, 50), (2, 51), (3, 0), (3, 2), (4, 1), (2, 0), (1, 5)]
X6_MUSL_OUT = ["musl libc (x86_64)\nVersion 1.2.2\nDynamic Program Loader\nUsage: /lib/ld-musl-x86_64.so.1 [options] [--] pathname",
               "musl libc (aarch64)\nVersion 1.1.24\nDynamic Program Loader", "musl libc\nVersion 1.2.5-git-3\n",
               "\n\n  musl libc (i386)  \r\n\tVersion 2.0.10\r\n", "musl\x0bVersion 1.0", "musl\nVersion 1.", "musl\nversion 1.2.2",
               "musl libc\n\nDynamic\nVersion 1.2.2", "glibc\nVersion 1.2.2", "musl libc (x86_64)", "", "mus\nVersion 1.2",
               "musl libc\nVersion 1.2.2.3", "musl libc\n Version 10.200", "musl\x1cVersion 3.4\x1d", "musl\x1fVersion 3.4",
               "musllibc\nVersion 01.02", "musl\nVersion 1.x", "musl\nVersion  1.2", "xmusl\nVersion 1.2", "musl\nVersion 1.2\nVersion 9.9",
               "musl\r\nVersion 1.5\r\n", "musl\rVersion 1.6", "\r\n\r\nmusl\n\n\nVersion 7.8", "musl\n\x1eVersion 1.9", "   \nmusl\nVersion 2.3  ",
               "musl\x0cVersion 0.0", "musl", "musl\n", "Version 1.2\nmusl"]


def _x6_policy(rng):
    r = rng.random()
    if r < 0.35:
        return None
    tri = lambda: rng.choice([None, True, False, False])
    if r < 0.7:
        rules = []
        for _ in range(rng.choice([0, 1, 2, 4])):
            M, m = rng.choice(X6_GLIBC + [(2, 5), (2, 12), (2, 17), (2, 17)])
            rules.append([M, m, rng.choice(["x86_64", "i686", "aarch64", "armv7l"]), tri()])
        pol = {"kind": "func", "default": rng.choice([None, None, True, False]), "rules": rules}
        if rng.random() < 0.4:
            pol.update({"m1": tri(), "m2010": tri(), "m2014": tri()})
        return pol
    return {"kind": "legacy", "m1": tri(), "m2010": tri(), "m2014": tri()}


def _x6_lcfg(rng, archs=None):
    from gen import elfgen as E
    G = rng.choice(X6_GLIBC)
    r = rng.random()
    if r < 0.06:
        exe = None
    elif archs and r < 0.7:
        want = ("armhf" if "armv7l" in archs else "i686" if "i686" in archs else "x86_64")
        exe = E.build(E.exe_for(want))
    elif r < 0.9:
        exe = E.build(E.exe_for(rng.choice(["x86_64", "i686", "armhf", "armhf2", "armel", "arm-eabi4", "arm-eabi7", "arm-eabiff", "arm-be", "aarch64", "i386-be"])))
    else:
        exe = E.build(E.gen_desc(rng, huge=False))
    ld = rng.choice(X6_MUSL_OUT)
    if rng.random() < 0.4:
        base = E.exe_for(rng.choice(["x86_64", "aarch64", "i686", "armhf"]))
        interp = rng.choice(E.INTERPS).encode()
        if rng.random() < 0.6:
            interp = rng.choice(E.INTERPS[:2]).encode()
            ld = f"musl libc (x86_64)\nVersion {rng.choice([0, 1, 1, 2])}.{rng.randrange(0, 12)}" + rng.choice(["", ".2", "-git"]) + "\nLoader\n"
        exe = E.build(E.with_interp(base, interp))
    k = rng.random()
    confstr = (f"glibc {G[0]}.{G[1]}" if k < 0.75 else
               rng.choice([None, "raise:OSError", f"glibc{G[0]}.{G[1]}", f"glibc {G[0]}.{G[1]} extra", f"  glibc   {G[0]}.{G[1]}  ", "glibc junk",
                           f"glibc {G[0]}.{G[1]}-2014.11", "", f"glibc {G[0]}"]))
    return {"exe_hex": None if exe is None else exe.hex(), "confstr": confstr,
            "ctypes_version": rng.choice([None, None, None, "2.28", "2.17", "", "junk"]), "policy": _x6_policy(rng), "ld_stderr": ld}


def _x6_module_value(pol):
    if pol is None:
        return Raise("ImportError")
    fields = {}
    if pol["kind"] == "func":
        rows = [((r[0], r[1], r[2]), r[3]) for r in pol["rules"]]
        fields["manylinux_compatible"] = WireObj("callable", {"table": rows, "default": pol["default"]})
    for k, attr in (("m1", "manylinux1_compatible"), ("m2010", "manylinux2010_compatible"), ("m2014", "manylinux2014_compatible")):
        if pol.get(k) is not None:
            fields[attr] = pol[k]
    return WireObj("module", fields)


def _x6_stdout_key():
    """the environment key of `subprocess.run(…).stdout` in `mac_platforms`: the source text of that expression"""
    import ast, inspect, textwrap
    from packaging import tags as T
    tree = ast.parse(textwrap.dedent(inspect.getsource(T.mac_platforms)))
    for n in ast.walk(tree):
        if isinstance(n, ast.Attribute) and n.attr == "stdout" and isinstance(n.value, ast.Call) \
                and ast.unparse(n.value.func) == "subprocess.run":
            return ast.unparse(n)
    return "subprocess.run().stdout"


def _x6_env(d, is32=False):
    """the environment table for probe description `d`: the answers of the real probes under `probes(d)`"""
    import json
    import sys as real_sys
    import tagsglue
    from packaging import _manylinux as ML, _musllinux as MU
    rows = []
    with tagsglue.probes(d):
        exe = real_sys.executable
        if "exe_hex" in d:
            rows.append(("sys.executable", X6_EXE))
            rows.append(("_get_musl_version", [((X6_EXE,), MU._get_musl_version(exe))]))
            with ML._parse_elf(exe) as f:
                elf = None if f is None else WireObj("ELFFile", {k: int(getattr(f, k)) for k in ("capacity", "encoding", "machine", "flags")})
            rows.append(("_parse_elf", [((X6_EXE,), elf)]))
        if "confstr" in d:
            # (x10) the two probe wrappers are translated / compared on their own (`_glibc_version_string_confstr`: src.call and
            # Src/PlatConfstr.lean; both: the `plat.glibc` correspondence of C16); a wrapper that lets an exception escape must
            # not stop the generator of *other* functions' cases, so it is tabulated as "no answer" here
            def _quiet(fn):
                try:
                    return fn()
                except Exception:  # noqa: BLE001
                    return None
            rows.append(("_glibc_version_string_confstr", [((), _quiet(ML._glibc_version_string_confstr))]))
            rows.append(("_glibc_version_string_ctypes", [((), _quiet(ML._glibc_version_string_ctypes))]))
        if "policy" in d:
            rows.append(("import _manylinux", _x6_module_value(d["policy"])))
        import platform, sysconfig
        if "system" in d:
            rows.append(("platform.system", [((), platform.system())]))
        if "get_platform" in d:
            rows.append(("sysconfig.get_platform", [((), sysconfig.get_platform())]))
        if "mac_ver" in d:
            rows.append(("platform.mac_ver", [((), tuple(platform.mac_ver()))]))
            rows.append((_x6_stdout_key(), d.get("mac_ver_compat0", "")))
        if "ios" in d:
            rows.append(("platform.ios_ver", [((), tuple(platform.ios_ver()))]))
            rows.append(("sys.implementation._multiarch", real_sys.implementation._multiarch))
    rows.append(("_32_BIT_INTERPRETER", is32))
    rows.append(("__probes__", json.dumps(d, sort_keys=True)))
    return Env(rows)


def _x6_apply(env):
    """enter `probes(d)` for the description shipped in the table (and the 32-bit flag, which the library froze into default
    arguments); returns the undo function"""
    import json
    import tagsglue
    from packaging import tags as T
    d = dict(env)
    cm = tagsglue.probes(json.loads(d["__probes__"]))
    cm.__enter__()
    saved = (T._mac_arch.__defaults__, T._linux_platforms.__defaults__)
    T._mac_arch.__defaults__ = (bool(d["_32_BIT_INTERPRETER"]),)
    T._linux_platforms.__defaults__ = (bool(d["_32_BIT_INTERPRETER"]),)

    def undo():
        T._mac_arch.__defaults__, T._linux_platforms.__defaults__ = saved
        cm.__exit__(None, None, None)
    return undo


def _g_parse_musl(rng):
    s = rng.choice(X6_MUSL_OUT)
    if rng.random() < 0.25:
        i = rng.randrange(len(s) + 1)
        s = s[:i] + rng.choice(["\n", "\r\n", "\r", " ", "\x1c", "\x0b", "Version 3.1", "musl", ".", "9"]) + s[i:]
    return [s]


def _g_musl_tags(rng):
    archs = rng.choice(X6_ARCH_LISTS)
    return [_x6_env(_x6_lcfg(rng, archs)), list(archs)]


def _g_is_compatible(rng):
    d = _x6_lcfg(rng)
    pol = d["policy"]
    v = rng.choice(X6_GLIBC + [(2, 5), (2, 12), (2, 17)] * 3)
    arch = rng.choice(["x86_64", "i686", "aarch64", "armv7l"])
    if pol and pol.get("rules") and rng.random() < 0.6:
        r = rng.choice(pol["rules"])
        v, arch = (r[0], r[1]), r[2]
    return [_x6_env(d), arch, tuple(v)]


def _g_many_tags(rng):
    archs = rng.choice(X6_ARCH_LISTS)
    return [_x6_env(_x6_lcfg(rng, archs)), list(archs)]


X6_GET_PLATFORMS = ["linux-x86_64", "linux-aarch64", "linux-armv7l", "linux-i686", "linux-ppc64le", "linux-mips", "linux-armv8l",
                    "macosx-10.9-x86_64", "win-amd64", "linux_x86_64", "linux", "linux-", "linux-s390x", "Linux-x86_64", "linux-x86.64"]


def _g_linux_platforms(rng):
    d = _x6_lcfg(rng)
    d["get_platform"] = rng.choice(X6_GET_PLATFORMS)
    return [_x6_env(d), rng.random() < 0.4]


X6_MAC_VERSIONS = [(10, 0), (10, 3), (10, 4), (10, 5), (10, 6), (10, 9), (10, 15), (10, 16), (10, 17), (11, 0), (11, 3), (12, 0), (13, 1),
                   (14, 5), (20, 1), (9, 5), (0, 0)]
X6_MAC_ARCHS = ["x86_64", "arm64", "i386", "ppc64", "ppc", "intel", "universal2", "riscv", ""]


def _x6_mac_d(rng):
    v = rng.choice(X6_MAC_VERSIONS)
    vs = rng.choice([f"{v[0]}.{v[1]}", f"{v[0]}.{v[1]}.3", f"{v[0]}.{v[1]}", "10.16", "10.16.1", f"{v[0]}", "", "x.y", "11.x"])
    c = rng.choice(X6_MAC_VERSIONS)
    return {"mac_ver": [vs, rng.choice(X6_MAC_ARCHS)], "mac_ver_compat0": rng.choice([f"{c[0]}.{c[1]}\n", f"{c[0]}.{c[1]}.1\n", "11.6\n", "", "junk"])}


def _g_mac_platforms(rng):
    version = rng.choice([None, None] + X6_MAC_VERSIONS + [(10,), (11,), (10, 5, 1)])
    return [_x6_env(_x6_mac_d(rng), is32=rng.random() < 0.3), version, rng.choice([None, None] + X6_MAC_ARCHS)]


X6_IOS_VERSIONS = [(11, 4), (12, 0), (12, 1), (12, 9), (13, 0), (13, 4), (14, 8), (15, 0), (17, 10), (0, 0), (12,), (13, 2, 1), ()]
X6_MULTIARCH = ["arm64-iphoneos", "arm64-iphonesimulator", "x86_64-iphonesimulator", "arm64_iphoneos", "a-b-c", ""]


def _x6_ios_d(rng):
    return {"ios": [rng.choice(["12.0", "13.4", "17.10.1", "11.4", "15", "", "x", "12.x"]), rng.choice(X6_MULTIARCH)]}


def _g_ios_platforms(rng):
    return [_x6_env(_x6_ios_d(rng)), rng.choice([None, None] + X6_IOS_VERSIONS), rng.choice([None, None] + X6_MULTIARCH)]


def _g_platform_tags(rng):
    system = rng.choice(["Darwin", "iOS", "Linux", "Linux", "Windows", "FreeBSD", "", "linux"])
    d = _x6_lcfg(rng)
    d.update(_x6_mac_d(rng))
    d.update(_x6_ios_d(rng))
    d["system"] = system
    d["get_platform"] = rng.choice(X6_GET_PLATFORMS)
    return [_x6_env(d, is32=rng.random() < 0.3)]


def _g_have_abi(rng):
    archs = rng.choice(X6_ARCH_LISTS)
    return [_x6_env(_x6_lcfg(rng, archs)), X6_EXE, list(archs)]


def _g_env_lcfg(rng):
    return [_x6_env(_x6_lcfg(rng))]


def _x6_elf_bytes(rng):
    from gen import elfgen as E
    r = rng.random()
    if r < 0.45:
        d = E.exe_for(rng.choice(["x86_64", "i686", "armhf", "aarch64", "s390x", "i386-be", "arm-be"]))
        if rng.random() < 0.8:
            d = E.with_interp(d, (rng.choice(E.INTERPS) + rng.choice(["", "\0", "\0\0"])).encode())
    else:
        d = E.gen_desc(rng, huge=rng.random() < 0.3)
    b = E.build(d, limit=2048)
    k = rng.random()
    if k < 0.12:
        b = b[:rng.randrange(0, min(len(b), 70) + 1)]                     # truncated headers
    elif k < 0.2 and b:
        i = rng.randrange(min(len(b), 8))
        b = b[:i] + bytes([rng.choice([0, 1, 2, 3, 127, 255])]) + b[i + 1:]   # damaged identification
    return b


def _g_elf_init(rng):
    import io
    from packaging import _elffile as EF
    return [object.__new__(EF.ELFFile), io.BytesIO(_x6_elf_bytes(rng))]


def _g_elf_interpreter(rng):
    import io
    from packaging import _elffile as EF
    for _ in range(50):
        b = _x6_elf_bytes(rng)
        try:
            o = EF.ELFFile(io.BytesIO(b))
        except ValueError:
            continue
        try:
            r = o.interpreter
        except ValueError:
            r = None
        if r is None or r.isascii():                 # the run-time decodes ASCII paths only
            return [EF.ELFFile(io.BytesIO(b))]
    from gen import elfgen as E
    return [EF.ELFFile(io.BytesIO(E.build(E.exe_for("x86_64"))))]


def _g_validator_ctype(rng):
    """`_process_description_content_type`: the `EmailMessage` answers are tabulated from the standard library itself"""
    import email.message
    from packaging import metadata as MD
    from gen import metadata as GM
    good, bad, esc = GM.POOLS["description_content_type"]
    extra = ["text/plain", "TEXT/Markdown; variant=CommonMark", "text/markdown; variant=Other", "text/x-rst; charset=latin-1",
             "text/plain; charset=UTF-8", "text/html", "", "a\nb", "text/plain; a*", "text/markdown; charset=UTF-8; variant=GFM",
             "text/plain; variant=x", "text/markdown;variant=gfm", "Text/Plain", "text/plain; charset=utf-8"]
    v = rng.choice((good or []) + (bad or []) + extra * 2)
    if not isinstance(v, str) or any(0xD800 <= ord(c) <= 0xDFFF for c in v):
        v = "text/plain"
    m = email.message.EmailMessage()
    try:
        m["content-type"] = v
        ans = (m.get_content_type().lower(), {k: x for k, x in dict(m["content-type"].params).items() if k in ("charset", "variant")})
    except Exception as e:
        ans = Raise(type(e).__name__)
    oracle = Oracle([("EmailMessage.set_content_type", (v,), ans), ("str.lower", (v,), v.lower())])
    return [oracle, MD.Metadata.__dict__["description_content_type"], v]


def _g_validator_get(rng):
    """`_Validator.__get__(self, instance, owner)`: a `Metadata` instance with a raw dict (and sometimes cached attributes), a
    validator of the class; the oracle table is recorded while the real descriptor runs on a copy"""
    import copy
    import email.message
    from packaging import metadata as MD
    from gen import metadata as GM
    validators = [k for k, v in vars(MD.Metadata).items() if isinstance(v, MD._Validator)]
    raw = {k: v for k, v in GM.raw_dict(rng)[0].items() if isinstance(k, str)}
    def clean(v):
        if isinstance(v, str):
            return "".join(c for c in v if not 0xD800 <= ord(c) <= 0xDFFF)
        if isinstance(v, list):
            return [clean(x) for x in v]
        if isinstance(v, dict):
            return {clean(a): clean(b) for a, b in v.items()}
        return v
    raw = {k: clean(v) for k, v in raw.items()}
    present = [k for k in raw if k in validators]
    key = rng.choice(present) if present and rng.random() < 0.75 else rng.choice(validators)
    ins = object.__new__(MD.Metadata)
    ins._raw = raw
    if rng.random() < 0.2:                       # attributes read earlier sit in the instance dict
        for k in rng.sample(validators, 2):
            if k != key and k in raw and isinstance(raw[k], str):
                ins.__dict__[k] = raw.pop(k)
    self_ = vars(MD.Metadata)[key]
    f = _resolve("packaging.metadata", "_Validator.__get__")
    oracle = _record_dotted("packaging.metadata", METADATA_ORACLES, f, [self_, copy.deepcopy(ins), None])
    v = raw.get(key)
    if key == "description_content_type" and isinstance(v, str):
        m = email.message.EmailMessage()
        try:
            m["content-type"] = v
            ans = (m.get_content_type().lower(), {k: x for k, x in dict(m["content-type"].params).items() if k in ("charset", "variant")})
        except Exception as e:
            ans = Raise(type(e).__name__)
        oracle.append(("EmailMessage.set_content_type", (v,), ans))
    for x in ([v] if isinstance(v, str) else v if isinstance(v, list) else []):       # `str.lower` cannot be intercepted
        if isinstance(x, str):
            oracle.append(("str.lower", (x,), x.lower()))
    return [oracle, self_, ins, None]


_ML, _MU = "packaging._manylinux", "packaging._musllinux"
FUNCS.update({
    "_parse_musl_version": (_MU, "_parse_musl_version", _g_parse_musl),
    "_musllinux.platform_tags": (_MU, "platform_tags", _g_musl_tags),
    "_is_compatible": (_ML, "_is_compatible", _g_is_compatible),
    "_manylinux.platform_tags": (_ML, "platform_tags", _g_many_tags),
    "_have_compatible_abi": (_ML, "_have_compatible_abi", _g_have_abi),
    "_get_glibc_version": (_ML, "_get_glibc_version.__wrapped__", _g_env_lcfg),
    "_linux_platforms": ("packaging.tags", "_linux_platforms", _g_linux_platforms),
    "mac_platforms": ("packaging.tags", "mac_platforms", _g_mac_platforms),
    "ios_platforms": ("packaging.tags", "ios_platforms", _g_ios_platforms),
    "tags.platform_tags": ("packaging.tags", "platform_tags", _g_platform_tags),
    "ELFFile.__init__": ("packaging._elffile", "ELFFile.__init__", _g_elf_init),
    "ELFFile.interpreter": ("packaging._elffile", "ELFFile.interpreter", _g_elf_interpreter),
})
FUNCS["_Validator._process_description_content_type"] = ("packaging.metadata", "_Validator._process_description_content_type",
                                                           _g_validator_ctype)
EXT_FUNCS |= {"_Validator._process_description_content_type"}
FUNCS["_Validator.__get__"] = ("packaging.metadata", "_Validator.__get__", _g_validator_get)
EXT_FUNCS |= {"_Validator.__get__"}
# functions that update one argument in place: the answer is the result together with that argument afterwards
X6_INOUT = {"_Validator.__get__": 1}
X6_ENV_FUNCS = {"_musllinux.platform_tags", "_is_compatible", "_manylinux.platform_tags", "_have_compatible_abi", "_get_glibc_version",
                "_linux_platforms", "mac_platforms", "ios_platforms", "tags.platform_tags"}


# ------------------------------------------------------------------------------------------------ x7: seventh round
def _g_parse_version(rng):
    from gen import versions as GV
    r = rng.random()
    st = GV.struct(rng)
    if r < 0.6:
        return [GV.spell(rng, st)]
    if r < 0.8:
        s = GV.spell(rng, st)
        i = rng.randrange(len(s) + 1)
        return [s[:i] + rng.choice(["", "x", ".", "+", "!", " ", "-", "1"]) + s[i + (rng.random() < 0.5):]]
    return [rng.choice(["", "1", "v1", " 1.0 ", "1.0+", "1.0+a.b", "1!", "a", "1.0.dev", "1.0-1", None, 1, ["1"]])]


LOCAL_PARTS = ["abc", "1", "01", "Ubuntu", "7", "x86", "000", "A", "b2", "", "12", "deadBEEF", "0"]


def _g_parse_local_version(rng):
    if rng.random() < 0.15:
        return [None]
    n = rng.choice([1, 1, 2, 3, 4])
    out = rng.choice(LOCAL_PARTS)
    for _ in range(n - 1):
        out += rng.choice(".-_") + rng.choice(LOCAL_PARTS)
    if rng.random() < 0.1:
        out = rng.choice(["", ".", "a..b", "-a", "a_", "1.-2"])
    return [out]


def _g_spec_get_operator(rng):
    sp = _spec_obj(rng)[0]
    op = rng.choice(["~=", "==", "!=", "<=", ">=", "<", ">", "==="] * 3 + ["", "=", "=>", "====", " ==", "~", "equal"])
    return [sp, op]


def _g_spec_dunder_contains(rng):
    return _g_spec_contains(rng)[:2]


FUNCS.update({
    "Version.major": ("packaging.version", "Version.major", _g_version_method(0.3)),
    "Version.minor": ("packaging.version", "Version.minor", _g_version_method(0.3)),
    "Version.micro": ("packaging.version", "Version.micro", _g_version_method(0.3)),
    "Version.is_devrelease": ("packaging.version", "Version.is_devrelease", _g_version_method(0.1)),
    "Version.__repr__": ("packaging.version", "Version.__repr__", _g_version_method(0.3)),
    "parse": ("packaging.version", "parse", _g_parse_version),
    "_parse_local_version": ("packaging.version", "_parse_local_version", _g_parse_local_version),
    "Specifier.__repr__": (_SP, "Specifier.__repr__", _g_spec_self),
    "Specifier.__contains__": (_SP, "Specifier.__contains__", _g_spec_dunder_contains),
    "Specifier._get_operator": (_SP, "Specifier._get_operator", _g_spec_get_operator),
    "SpecifierSet.__repr__": (_SP, "SpecifierSet.__repr__", _g_sset_self_env),
})
X5_FUNCS |= {"SpecifierSet.__repr__"}
ORDER_FUNCS |= {"SpecifierSet.__repr__"}


# ---- x7: metadata entry points
def _x7_clean(v):
    if isinstance(v, str):
        return "".join(c for c in v if not 0xD800 <= ord(c) <= 0xDFFF)
    if isinstance(v, list):
        return [_x7_clean(x) for x in v]
    if isinstance(v, dict):
        return {_x7_clean(a): _x7_clean(b) for a, b in v.items()}
    return v


def _x7_strings(v):
    if isinstance(v, str):
        yield v
    elif isinstance(v, (list, tuple)):
        for x in v:
            yield from _x7_strings(x)
    elif isinstance(v, dict):
        for a, b in v.items():
            yield from _x7_strings(a)
            yield from _x7_strings(b)


def _x7_ctype_entry(v):
    import email.message
    m = email.message.EmailMessage()
    try:
        m["content-type"] = v
        ans = (m.get_content_type().lower(), {k: x for k, x in dict(m["content-type"].params).items() if k in ("charset", "variant")})
    except Exception as e:
        ans = Raise(type(e).__name__)
    return ("EmailMessage.set_content_type", (v,), ans)


def _x7_raw_oracle(fn, args, raw):
    """the answers of the component parsers and of the standard library while the real `fn(*args)` runs, plus the two that
    cannot be intercepted (`str.lower`, the `EmailMessage` of the content-type converter) for every string of `raw`"""
    oracle = _record_dotted("packaging.metadata", [n for n in METADATA_ORACLES if n != "str.lower"], fn, args)
    v = raw.get("description_content_type") if isinstance(raw, dict) else None
    if isinstance(v, str):
        oracle.append(_x7_ctype_entry(v))
    seen = set()
    for x in _x7_strings(raw):
        if x not in seen:
            seen.add(x)
            oracle.append(("str.lower", (x,), x.lower()))
    return oracle


def _x7_raw_data(rng):
    from gen import metadata as GM
    raw = {k: v for k, v in GM.raw_dict(rng)[0].items() if isinstance(k, str)}
    raw = _x7_clean(raw)
    r = rng.random()
    if r < 0.08:
        raw.pop("metadata_version", None)
    elif r < 0.16:
        raw[rng.choice(["nmae", "Name", "_raw", "from_raw", "x-y", "metadata-version", ""])] = rng.choice(["x", ["y"], None])
    return raw


def _x7_wrap_from(f):
    from packaging import metadata as MD

    def w(data, validate):
        try:
            return f(MD.Metadata, data, validate=validate)
        except (MD.ExceptionGroup, MD.InvalidMetadata) as e:
            return WireObj("raised", {"exc": e})
    return w


def _g_from_raw(rng):
    from packaging import metadata as MD
    raw = _x7_raw_data(rng)
    validate = rng.random() < 0.9
    f = lambda d, v: MD.Metadata.from_raw(d, validate=v)
    return [_x7_raw_oracle(f, [raw, validate], raw), raw, validate]


def _g_from_email(rng):
    """`Metadata.from_email`: `parse_email` answers through the oracle table (its own translation is proved separately)"""
    from packaging import metadata as MD
    from props import C18
    r = rng.random()
    try:
        data = C18.gen_document(rng) if hasattr(C18, "gen_document") else None
    except Exception:
        data = None
    if data is None:
        raw0 = _x7_raw_data(rng)
        lines = []
        for k, v in raw0.items():
            name = MD._RAW_TO_EMAIL_MAPPING.get(k, k)
            for x in (v if isinstance(v, list) else [v]):
                if isinstance(x, str) and "\n" not in x and "\r" not in x:
                    lines.append(f"{name}: {x}")
        if r < 0.2:
            lines.append(rng.choice(["Unknown-Field: 1", "Name: twice", "Project-URL: a, b", "Project-URL: a, c", "Keywords: a,b"]))
        data = "\n".join(lines) + rng.choice(["", "\n\nbody text", "\n\n"])
        if rng.random() < 0.3:
            data = data.encode("utf8", "surrogatepass") if rng.random() < 0.9 else data.encode("latin1", "replace") + b"\n\xff"
    validate = rng.random() < 0.85
    try:
        raw, unparsed = MD.parse_email(data)
        ans = (_x7_clean(raw), _x7_clean(unparsed))
        bad = any(isinstance(x, str) and any(0xD800 <= ord(c) <= 0xDFFF for c in x) for x in _x7_strings([raw, unparsed]))
        if bad:
            return _g_from_email(rng)
    except Exception as e:
        raw, ans = {}, Raise(type(e).__name__)
    f = lambda d, v: MD.Metadata.from_email(d, validate=v)
    oracle = _x7_raw_oracle(f, [data, validate], raw)
    oracle.append(("parse_email", (data,), ans))
    return [oracle, data, validate]


def _g_invalid_metadata_init(rng):
    from packaging import metadata as MD
    o = MD.InvalidMetadata.__new__(MD.InvalidMetadata)
    return [o, rng.choice(["name", "version", "x", "", "requires-dist", "Ünï"]), rng.choice(["msg", "", "'name' is invalid"])]


def _g_invalid_metadata(rng):
    from packaging import metadata as MD
    key = rng.choice([k for k, v in vars(MD.Metadata).items() if isinstance(v, MD._Validator)])
    cause = rng.choice([None, None, MD.InvalidMetadata("x", "y")])
    return [vars(MD.Metadata)[key], rng.choice(["{field} is bad", "no placeholder", "{field} and {field}", "{x}", ""]), cause]


def _x7_parse(data):
    import email.parser
    import email.policy
    if isinstance(data, str):
        return email.parser.Parser(policy=email.policy.compat32).parsestr(data, headersonly=True)
    return email.parser.BytesParser(policy=email.policy.compat32).parsebytes(data, headersonly=True)


def _x7_message(data):
    """the wire form of what `email.parser` makes of `data` (see the `Message` section of PkgModel/PyX7.lean); `source` lets the
    real side re-parse the same document"""
    import email.header
    parsed = _x7_parse(data)
    hdrs = []
    for k, v in parsed.items():
        if isinstance(v, email.header.Header):
            try:
                hv = WireObj("Header", {"chunks": [b for b, _ in email.header.decode_header(v)]})
            except Exception as e:
                hv = WireObj("HeaderErr", {"cls": type(e).__name__})
        else:
            hv = v
        hdrs.append((k, hv))
    other = WireObj("other", {})
    def pl(m, **kw):
        try:
            p = m.get_payload(**kw)
        except Exception as e:
            return Raise(type(e).__name__)
        return p if isinstance(p, (str, bytes)) else other
    fields = {"headers": hdrs, "payload": pl(parsed), "decoded_cte": pl(parsed, decode=True)}
    stripped = _x7_parse(data)
    del stripped["content-transfer-encoding"]
    fields["decoded"] = pl(stripped, decode=True)
    fields["source"] = data
    return WireObj("Message", fields)


def _g_get_payload(rng):
    from gen import metadata as GM
    doc = GM.document(rng, wellformed=rng.random() < 0.3)
    if rng.random() < 0.35:                     # a Content-Transfer-Encoding header and a body it would rewrite
        doc["headers"].append([rng.choice(["Content-Transfer-Encoding", "content-transfer-encoding", "CONTENT-TRANSFER-ENCODING"]),
                               ["t", rng.choice(["base64", "quoted-printable", "8bit", "x-uuencode", "BASE64"])]])
        if rng.random() < 0.7:
            doc["body"] = ["t", rng.choice(["aGVsbG8=\n", "=41=42 c\n", "plain", "aGVsbG8", "=FF\n", "/w==\n"])]
    data = GM.build_doc(doc)
    source = data if rng.random() < 0.9 else (b"x" if isinstance(data, str) else "x")     # the `isinstance(source, str)` switch
    return [_x7_message(data), source]


_MDM = "packaging.metadata"
FUNCS["_get_payload"] = (_MDM, "_get_payload", _g_get_payload)
FUNCS.update({
    "InvalidMetadata.__init__": (_MDM, "InvalidMetadata.__init__", _g_invalid_metadata_init),
    "_Validator._invalid_metadata": (_MDM, "_Validator._invalid_metadata", _g_invalid_metadata),
    "Metadata.from_raw": (_MDM, "Metadata.from_raw", _g_from_raw),
    "Metadata.from_email": (_MDM, "Metadata.from_email", _g_from_email),
})
EXT_FUNCS |= {"Metadata.from_raw", "Metadata.from_email"}
X7_WRAP = {"Metadata.from_raw": _x7_wrap_from, "Metadata.from_email": _x7_wrap_from}
# ------------------------------------------------------------------------------------------------ x7 end


# ------------------------------------------------------------------------------------------------ x9: ninth round
# ---- x9: the methods of the tokenizer (C07, C08, C09): the receiver travels like the tokenizer of the parser functions and comes
# back with the result (STATE_FUNCS)
_X9_RULE_EXTRA = ["NOPE", "", "ws", None, 3]


def _x9_rule_names():
    from packaging import _tokenizer as TK
    return list(TK.DEFAULT_RULES)


def _x9_tok(rng, loaded=False):
    """a tokenizer some tokens into a marker / requirement text (or at a random offset); `loaded`: with a token checked but not read"""
    from packaging import _tokenizer as TK
    text, _ = _parser_text(rng)
    t = TK.Tokenizer(text, rules=TK.DEFAULT_RULES)
    names = _x9_rule_names()
    if rng.random() < 0.2:
        t.position = rng.randrange(len(text) + 1)
    else:
        for _ in range(rng.randrange(0, 9)):
            order = rng.sample(names, len(names))
            hit = next((n for n in order if n != "END" and t.check(n, peek=True)), None)
            if hit is None:
                break
            t.check(hit)
            t.read()
    if loaded:
        order = rng.sample(names, len(names))
        hit = next((n for n in order if t.check(n, peek=True)), None)
        if hit is not None:
            t.check(hit)
    return t


def _x9_name(rng, t):
    """a rule name: one that matches at the position of `t` half of the time"""
    names = _x9_rule_names()
    if rng.random() < 0.5 and t.next_token is None:
        order = rng.sample(names, len(names))
        hit = next((n for n in order if t.check(n, peek=True)), None)
        if hit is not None:
            return hit
    if rng.random() < 0.08:
        return rng.choice(_X9_RULE_EXTRA)
    return rng.choice(names)


def _g_tok_check(rng):
    t = _x9_tok(rng, loaded=rng.random() < 0.12)
    return [t, _x9_name(rng, t), rng.choice([False, False, True])]


def _g_tok_read(rng):
    return [_x9_tok(rng, loaded=rng.random() < 0.85)]


def _g_tok_expect(rng):
    t = _x9_tok(rng, loaded=rng.random() < 0.06)
    return [t, _x9_name(rng, t), rng.choice(["a name", "comma", ""])]


def _g_tok_consume(rng):
    t = _x9_tok(rng, loaded=rng.random() < 0.06)
    return [t, _x9_name(rng, t)]


def _g_tok_raise(rng):
    t = _x9_tok(rng, loaded=rng.random() < 0.2)
    return [t, rng.choice(["Expected x", ""]), rng.choice([None, None, 0, 3]), rng.choice([None, None, 5])]


def _x9_pair(rng, t):
    r = rng.random()
    if r < 0.7:
        return rng.choice([("LEFT_PARENTHESIS", "RIGHT_PARENTHESIS"), ("LEFT_BRACKET", "RIGHT_BRACKET")])
    return (_x9_name(rng, t), _x9_name(rng, t))


def _g_tok_enter(rng):
    t = _x9_tok(rng, loaded=rng.random() < 0.05)
    o, c = _x9_pair(rng, t)
    return [t, o, c, rng.choice(["name", "marker expression"])]


def _g_tok_with(rng):
    from packaging import _tokenizer as TK
    if rng.random() < 0.6:                                   # an opening token, something inside, (maybe) the closing one
        o, c, oc, cc = rng.choice([("LEFT_PARENTHESIS", "RIGHT_PARENTHESIS", "(", ")"), ("LEFT_BRACKET", "RIGHT_BRACKET", "[", "]")])
        inner, body = rng.choice([("abc", "IDENTIFIER"), ("  ", "WS"), ("", "WS"), ("os_name", "VARIABLE"), ("'x'", "QUOTED_STRING"), ("x", "WS")])
        text = rng.choice(["", "  ", "name"]) + oc + inner + rng.choice([cc, cc, "", " " + cc, "]"]) + rng.choice(["", " tail"])
        t = TK.Tokenizer(text, rules=TK.DEFAULT_RULES)
        t.position = text.index(oc) if rng.random() < 0.85 else rng.randrange(len(text) + 1)
        return [t, o, c, "x", body]
    t = _x9_tok(rng, loaded=rng.random() < 0.05)
    o, c = _x9_pair(rng, t)
    return [t, o, c, "x", _x9_name(rng, t)]


def _x9_live_locals():
    """the locals of `Tokenizer.enclosing_tokens` that live across its `yield`, as the translator computes them"""
    import ast as _ast
    import inspect as _inspect
    import textwrap as _tw
    from packaging import _tokenizer as TK
    from translators import pysrc as _PS
    f = _inspect.unwrap(TK.Tokenizer.enclosing_tokens)
    node = _ast.parse(_tw.dedent(_inspect.getsource(f))).body[0]
    n0 = len(node.args.args)
    ex, _ = _PS._x9_split_generator(node, "exit")
    return [a.arg for a in ex.args.args[1:1 + len(ex.args.args) - n0]]


def _x9_wrap_enter(f):
    def w(tok, open_token, close_token, around):
        cm = f(tok, open_token, close_token, around=around)
        cm.__enter__()
        live = _x9_live_locals()
        loc = cm.gen.gi_frame.f_locals
        return loc[live[0]] if len(live) == 1 else tuple(loc[v] for v in live)
    return w


def _x9_wrap_with(f):
    def w(tok, open_token, close_token, around, body):
        with f(tok, open_token, close_token, around=around):
            tok.consume(body)
        return None
    return w


_TKM = "packaging._tokenizer"
FUNCS.update({
    "Tokenizer.check": (_TKM, "Tokenizer.check", _g_tok_check),
    "Tokenizer.read": (_TKM, "Tokenizer.read", _g_tok_read),
    "Tokenizer.expect": (_TKM, "Tokenizer.expect", _g_tok_expect),
    "Tokenizer.consume": (_TKM, "Tokenizer.consume", _g_tok_consume),
    "Tokenizer.raise_syntax_error": (_TKM, "Tokenizer.raise_syntax_error", _g_tok_raise),
    "Tokenizer.enclosing_tokens__enter": (_TKM, "Tokenizer.enclosing_tokens", _g_tok_enter),
    "Tokenizer.enclosing_tokens__with": (_TKM, "Tokenizer.enclosing_tokens", _g_tok_with),
})
X9_TOK_FUNCS = ["Tokenizer.check", "Tokenizer.read", "Tokenizer.expect", "Tokenizer.consume", "Tokenizer.raise_syntax_error",
                "Tokenizer.enclosing_tokens__enter", "Tokenizer.enclosing_tokens__with"]
STATE_FUNCS |= set(X9_TOK_FUNCS)
X7_WRAP.update({"Tokenizer.enclosing_tokens__enter": _x9_wrap_enter, "Tokenizer.enclosing_tokens__with": _x9_wrap_with})
X9_TOK_THEOREMS = ["Src.Tokenizer.check_translated", "Src.Tokenizer.check_eq_model",
                   "Src.Tokenizer.read_translated", "Src.Tokenizer.read_eq_model",
                   "Src.Tokenizer.expect_translated", "Src.Tokenizer.expect_eq_model",
                   "Src.Tokenizer.consume_translated", "Src.Tokenizer.consume_eq_model",
                   "Src.Tokenizer.raise_syntax_error_translated", "Src.Tokenizer.raise_syntax_error_eq_model",
                   "Src.Tokenizer.enclosing_tokens__enter_translated", "Src.Tokenizer.enclosing_tokens__enter_eq_model",
                   "Src.Tokenizer.enclosing_tokens__exit_translated", "Src.Tokenizer.enclosing_tokens__exit_eq_model",
                   "Src.Tokenizer.wf_new", "Src.Tokenizer.wf_preserved"]
X9_TOK_MODULE = "PkgProofs.Props.Src.Tokenizer"

# ---- x9: `parse_email` (C18).  The standard-library parser answers through the oracle table under the key the translator derives
# from the source text of the call (`pysrc._X9MailRewrite.parser_call`); the answer is the wire form of the message the *real*
# call returned (captured while the real function runs), `str.lower` answers for every header name.
def _x9_wire_message(parsed, data):
    """like `_x7_message`, from a message object (which is left alone)"""
    import copy
    import email.header
    hdrs = []
    for k, v in parsed.items():
        if isinstance(v, email.header.Header):
            try:
                hv = WireObj("Header", {"chunks": [b for b, _ in email.header.decode_header(v)]})
            except Exception as e:
                hv = WireObj("HeaderErr", {"cls": type(e).__name__})
        else:
            hv = v
        hdrs.append((k, hv))
    other = WireObj("other", {})

    def pl(m, **kw):
        try:
            p = m.get_payload(**kw)
        except Exception as e:
            return Raise(type(e).__name__)
        return p if isinstance(p, (str, bytes)) else other
    fields = {"headers": hdrs, "payload": pl(parsed), "decoded_cte": pl(copy.deepcopy(parsed), decode=True)}
    stripped = copy.deepcopy(parsed)
    del stripped["content-transfer-encoding"]
    fields["decoded"] = pl(stripped, decode=True)
    fields["source"] = data
    return WireObj("Message", fields)


def _x9_parser_keys():
    """oracle keys of the parser calls in the current source of `parse_email`: {method name: key}"""
    import ast as _ast
    import inspect as _inspect
    import textwrap as _tw
    from packaging import metadata as MD
    from translators import pysrc as _PS

    class _Stub:
        globals = vars(MD)
        x9_msgs = set()
    rw = _PS._X9MailRewrite(_Stub())
    rw.fn_locals = set()
    out = {}
    node = _ast.parse(_tw.dedent(_inspect.getsource(MD.parse_email)))
    for n in _ast.walk(node):
        pc = rw.parser_call(n)
        if pc is not None:
            out.setdefault(n.func.attr, []).append(pc[0])
    return out


def _x9_parse_email_oracle(data):
    import copy
    import email.parser
    from packaging import metadata as MD
    seen = []
    saved = (email.parser.Parser.parsestr, email.parser.BytesParser.parsebytes)

    def wrap(orig, meth):
        def w(self, text, *a, **kw):
            m = orig(self, text, *a, **kw)
            if text is data or (type(text) is type(data) and text == data):
                seen.append((meth, _x9_wire_message(copy.deepcopy(m), data), [k for k in m.keys()]))
            return m
        return w
    email.parser.Parser.parsestr = wrap(saved[0], "parsestr")
    email.parser.BytesParser.parsebytes = wrap(saved[1], "parsebytes")
    try:
        try:
            MD.parse_email(data)
        except Exception:
            pass
    finally:
        email.parser.Parser.parsestr, email.parser.BytesParser.parsebytes = saved
    oracle = []
    keys = _x9_parser_keys()
    names = []
    for meth, wire, ks in seen[:1]:          # the outermost call (BytesParser.parsebytes goes through Parser.parsestr-like paths)
        for key in keys.get(meth, []):
            oracle.append((key, (data,), wire))
        names = ks
    done = set()
    for k in names:
        if k not in done:
            done.add(k)
            oracle.append(("str.lower", (k,), k.lower()))
    return oracle


def _x9_mail_data(rng):
    from gen import metadata as GM
    doc = GM.document(rng, wellformed=rng.random() < 0.4)
    if rng.random() < 0.3:                      # a Content-Transfer-Encoding header and a body it would rewrite
        doc["headers"].append([rng.choice(["Content-Transfer-Encoding", "content-transfer-encoding", "CONTENT-TRANSFER-ENCODING"]),
                               ["t", rng.choice(["base64", "quoted-printable", "8bit", "x-uuencode", "BASE64"])]])
        r = rng.random()
        if r < 0.55:
            doc["body"] = ["t", rng.choice(["aGVsbG8=\n", "=41=42 c\n", "plain", "aGVsbG8", "=FF\n", "/w==\n"])]
        elif r < 0.8:                           # an undecodable body next to the header: the `except ValueError` branch reads the
            doc["body"] = ["x", rng.choice(["ff0a", "61ff62", "c3", "2f773d3dff"])]     # payload of the message *after* the deletion
            doc["bytes"] = doc["bytes"] or rng.random() < 0.8
    return GM.build_doc(doc)


def _g_parse_email(rng):
    data = _x9_mail_data(rng)
    return [_x9_parse_email_oracle(data), data]


def _g_get_payload_io(rng):
    return _g_get_payload(rng)


def _x9_wrap_io(f):
    """`_get_payload(msg, source)`: what it returned or raised, and the message afterwards"""
    def w(msg, source):
        src = msg.__dict__.get("_x9_source")
        before = _x9_wire_message(msg, src)          # the payload fields belong to the value; only the header list changes
        try:
            r = f(msg, source)
        except Exception as e:
            r = WireObj("raised", {"exc": WireObj(type(e).__name__, {})})
        fields = dict(before.fields)
        fields["headers"] = _x9_wire_message(msg, src).fields["headers"]
        return (r, WireObj("Message", fields))
    return w


FUNCS["parse_email"] = (_MDM, "parse_email", _g_parse_email)
EXT_FUNCS |= {"parse_email"}
FUNCS["_get_payload__io"] = (_MDM, "_get_payload", _g_get_payload_io)
X7_WRAP["_get_payload__io"] = _x9_wrap_io
# ------------------------------------------------------------------------------------------------ x9 end


# ------------------------------------------------------------------------------------------------ x10: default_environment
X10_ENV_FUNCS = {"default_environment", "_glibc_version_string_confstr"}
X10_WORDS = ["", "posix", "nt", "Linux", "x86_64", "6.1.0-13", "#1 SMP", "CPython", "PyPy", "cpython", "linux", "win32", "a b", "3.12.1", "é"]


def _g_default_environment(rng):
    v = version_info()
    v.major, v.minor, v.micro = rng.choice([3, 7, 0, 12]), rng.choice([0, 9, 13, 100]), rng.choice([0, 1, 17])
    v.releaselevel = rng.choice(["final", "final", "alpha", "beta", "candidate", "", "f"])
    v.serial = rng.choice([0, 1, 2, 15])
    w = lambda: rng.choice(X10_WORDS)
    tup = rng.choice([("3", "12", "1"), ("3", "9", "0"), ("2", "7", "18"), ("3", "13", "0a1+"), ("3", "10"), ("3",), (), ("3", "12", "1", "x")])
    return [Env([("sys.implementation.version", v), ("sys.implementation.name", w()), ("os.name", w()), ("sys.platform", w()),
                 ("platform.machine", [((), w())]), ("platform.release", [((), w())]), ("platform.system", [((), w())]),
                 ("platform.version", [((), w())]), ("platform.python_version", [((), w())]),
                 ("platform.python_implementation", [((), w())]), ("platform.python_version_tuple", [((), tup)])])]


def _g_confstr(rng):
    ans = rng.choice([None, "glibc 2.17", "glibc 2.31", "glibc", "", " ", "glibc 2.17 extra", "  glibc   2.5  ", "musl\t1.2.3",
                      "glibc\n2.28", "2.17", "glibc 2.17\n", "a b c d"])
    return [Env([("os.confstr", [(("CS_GNU_LIBC_VERSION",), ans)])])]


def _x10_apply(env):
    """patch the names `sys`, `os`, `platform` of packaging.markers so that default_environment sees the table
    (or `os` of packaging._manylinux for the confstr probe)"""
    d = dict(env)
    if "os.confstr" in d:
        from packaging import _manylinux as ML
        saved_os = ML.os
        table = dict((tuple(a), r) for a, r in d["os.confstr"])
        ML.os = types.SimpleNamespace(confstr=lambda name: table[(name,)])

        def undo_ml():
            ML.os = saved_os
        return undo_ml
    from packaging import markers as MK
    saved = {k: getattr(MK, k) for k in ("sys", "os", "platform")}
    call = lambda key: (lambda: dict((tuple(a), r) for a, r in d[key])[()])
    MK.sys = types.SimpleNamespace(implementation=types.SimpleNamespace(version=d["sys.implementation.version"],
                                                                          name=d["sys.implementation.name"]),
                                   platform=d["sys.platform"])
    MK.os = types.SimpleNamespace(name=d["os.name"])
    MK.platform = types.SimpleNamespace(**{k.split(".", 1)[1]: call(k) for k in d if k.startswith("platform.")})

    def undo():
        for k, v in saved.items():
            setattr(MK, k, v)
    return undo


FUNCS.update({"default_environment": ("packaging.markers", "default_environment", _g_default_environment),
              "_glibc_version_string_confstr": ("packaging._manylinux", "_glibc_version_string_confstr", _g_confstr)})

class _Src:
    def cases(self, rng, n, names):
        """n `src.call` cases spread over the named functions"""
        names = [x for x in names if x in FUNCS]
        for i in range(n):
            name = names[i % len(names)]
            args = FUNCS[name][2](rng)
            with _transparent(name):                                     # x5
                case = ("src.call", [name] + [enc_val(a) for a in args])
            yield case

    def real(self, args):
        name = args[0]
        mod, path, _ = FUNCS[name]
        try:
            f = _resolve(mod, path)
        except Exception as e:
            return "gone " + type(e).__name__
        if name in X7_WRAP:                                               # x7: classmethods, escaping exception objects
            f = X7_WRAP[name](f)
        vals = [dec_val(a) for a in (args[2:] if name in EXT_FUNCS else args[1:])]     # the oracle table is not decoded
        undo = None
        if name in ORDER_FUNCS:                                           # x5: the iteration order of frozenset fields
            vals = _apply_order(vals.pop(0), vals)
        if name in X6_ENV_FUNCS:                                          # x6: probes of the platform code
            undo = _x6_apply(vals.pop(0))
            import sys as _sys
            vals = [_sys.executable if isinstance(v, str) and v == X6_EXE else v for v in vals]   # the scratch file of `probes`
        if name in X10_ENV_FUNCS:                                         # x10
            undo = _x10_apply(vals.pop(0))
        if name in ENV_FUNCS:
            env = vals.pop(0)
            undo = _apply_env([(k, (list(v) if k == "platform_tags" else v)) for k, v in env])
        if name in SYM_HASH_FUNCS:
            m_ = importlib.import_module(SYM_HASH_FUNCS[name])
            m_.hash = lambda v: ("__hash__", v)

            def undo(m_=m_):
                del m_.hash
        try:
            import inspect
            params = list(inspect.signature(f).parameters.values())
            pos = []
            for p_, v in zip(params, vals):
                if p_.kind == p_.VAR_POSITIONAL:
                    pos.extend(v)               # x3: `*values` travels as one tuple
                elif p_.kind != p_.KEYWORD_ONLY:
                    pos.append(v)
            kw = {p_.name: v for p_, v in zip(params, vals) if p_.kind == p_.KEYWORD_ONLY}
            import warnings
            with warnings.catch_warnings():
                warnings.simplefilter("ignore")                  # x2: warnings.warn(...) of the library is not an answer
                r = f(*pos, **kw)
                if name in STATE_FUNCS:
                    return "ok " + enc_val((r, pos[0]))
                if name in X6_INOUT:                         # x6
                    return "ok " + enc_val((r, pos[X6_INOUT[name]]))
                if name.endswith(".__init__") or name in SETTER_FUNCS:
                    r = pos[0]                     # x3: the translated `__init__` hands back the initialised object
                with _transparent(name):           # x5
                    return "ok " + enc_val(r)      # a generator's body runs here, inside the try
        except RecursionError:
            return core.RESOURCE_LIMIT
        except Exception as e:
            return "raise " + type(e).__name__
        finally:
            if undo is not None:
                undo()

    def branch(self, args, out):
        head = out.split(" ", 1)
        kind = head[0]
        detail = ""
        if kind == "ok" and len(head) > 1:
            detail = head[1][:1]
            if head[1].startswith("Oraised{"):             # x7: an escaping exception object
                detail = "raised"
        elif kind == "raise":
            detail = head[1]
        return f"src:{args[0]}:{kind}{':' + detail if detail else ''}"


SRC = _Src()


def with_src(prop, functions, module, theorems, share=12):
    """Make `prop` own the translated functions `functions`: their equivalence theorems (in Lean module `module`)
    become proof obligations of the property, the translator output `PySrc` is regenerated before its build, and
    1/`share` of its correspondence budget runs the translated source against the real functions (`src.call`)."""
    cls = type(prop)
    prop.lean_modules = list(prop.lean_modules) + [m for m in ([module] if isinstance(module, str) else module)
                                                   if m not in prop.lean_modules]       # x5: repeated application adds up
    prop.theorems = list(prop.theorems) + [t for t in theorems if t not in prop.theorems]
    prop.generated = list(prop.generated) + (["PySrc"] if "PySrc" not in prop.generated else [])
    prop.src_functions = list(getattr(prop, "src_functions", [])) + list(functions)
    prop.trusted = list(prop.trusted) + [
        "translated source (" + ", ".join(functions) + "): the translator harness/translators/pysrc.py and the fidelity of "
        "the shallow Python run-time lean/PkgModel/PyRt.lean to CPython on the values reaching it; both are sampled by "
        "the src.call correspondence (translated function vs real function)"]
    if getattr(prop, "_src_wrapped", False):
        return prop
    prop._src_wrapped = True
    gen0, real0, branch0, nontrivial0, judge0 = prop.gen_cases, prop.real, prop.branch, prop.nontrivial, prop.judge

    def gen_cases(rng, n):
        k = max(1, n // share)
        yield from SRC.cases(rng, k, prop.src_functions)
        yield from gen0(rng, n - k)

    def real(op, args):
        return SRC.real(args) if op == "src.call" else real0(op, args)

    def branch(op, args, out):
        return SRC.branch(args, out) if op == "src.call" else branch0(op, args, out)

    def nontrivial(op, args, out):
        return out.startswith("ok") if op == "src.call" else nontrivial0(op, args, out)

    def judge(op, args, real_, model, driver):
        return None if op == "src.call" else judge0(op, args, real_, model, driver)

    prop.gen_cases, prop.real, prop.branch, prop.nontrivial, prop.judge = gen_cases, real, branch, nontrivial, judge
    return prop
