import Driver
/-!
Line protocol driver: `op<TAB>arg…` per line in, one line out.
Each model area contributes an `ops` table; unknown operations answer `bad-op`.
-/
def allOps : List (String × (List String → String)) :=
  DriverVer.ops ++ DriverRx.ops ++ DriverMk.ops

def dispatch (line : String) : String :=
  match line.splitOn "\t" with
  | [] => "bad-op"
  | op :: args =>
    match allOps.lookup op with
    | some f => f args
    | none => "bad-op"

partial def loop (h : IO.FS.Stream) (out : IO.FS.Stream) : IO Unit := do
  let line ← h.getLine
  if line.isEmpty then return ()
  let line := if line.endsWith "\n" then (line.dropEnd 1).toString else line
  out.putStrLn (dispatch line)
  out.flush
  loop h out

def main : IO Unit := do
  let out ← IO.getStdout
  loop (← IO.getStdin) out
  out.flush
