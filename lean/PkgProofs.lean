import PkgProofs.Lemmas.Ord
import PkgProofs.Lemmas.Pad
import PkgProofs.Lemmas.VerOrd
import PkgProofs.Lemmas.RxSound
import PkgProofs.Lemmas.Dec
import PkgProofs.Lemmas.Assoc
import PkgProofs.Lemmas.Utf8
