import PkgModel.Marker
import PkgModel.Spec.Pep508
/-!
driver operations for the marker model

External answers (`Mk.Ext`) arrive as finite tables computed by the harness on the real code:
* `canon`  = `k,v;k,v;…`            (`canonicalize_name(k) = v`)
* `spec`   = `op,rhs,lhs,a;…`       (`a` ∈ `n` not a specifier | `v` InvalidVersion | `1` | `0`)
Every lookup the model makes is checked to be covered by the tables; otherwise the answer is
`oracle-miss` (a harness bug, reported as a disagreement — never silently defaulted).
Environments: `k,v;k,v` (value `~` = None); the optional mapping itself may be `~` (None).
-/
namespace DriverMk
open Py Mk

/-- an empty list is sent as `_` (or the empty string) -/
def splitNE (s : String) (sep : String) : List String := if s.isEmpty || s == "_" then [] else s.splitOn sep

def allSome {α} : List (Option α) → Option (List α)
  | [] => some []
  | none :: _ => none
  | some a :: r => (allSome r).map (a :: ·)

def decPairs (s : String) : Option (List (Str × Str)) :=
  allSome <| (splitNE s ";").map fun e => match e.splitOn "," with
    | [a, b] => match decS a, decS b with
      | some x, some y => some (x, y)
      | _, _ => none
    | _ => none

def decEnvL (s : String) : Option Env :=
  allSome <| (splitNE s ";").map fun e => match e.splitOn "," with
    | [a, b] => match decS a, decOS b with
      | some x, some y => some (x, y)
      | _, _ => none
    | _ => none

def decEnv (s : String) : Option (Option Env) :=
  if s == "~" then some none else (decEnvL s).map some

/-- `n` (InvalidSpecifier) and `v` (InvalidVersion) are both "no specifier answer" -/
def decAns (s : String) : Option (Option Bool) :=
  if s == "n" then some none else if s == "v" then some none
  else if s == "1" then some (some true) else if s == "0" then some (some false) else none

def decSpecTab (s : String) : Option (List ((Str × Str × Str) × Option Bool)) :=
  allSome <| (splitNE s ";").map fun e => match e.splitOn "," with
    | [a, b, c, d] => match decS a, decS b, decS c, decAns d with
      | some o, some r, some l, some x => some ((o, r, l), x)
      | _, _, _, _ => none
    | _ => none

def missChar : Nat := 0x110000

def extOf (canon : List (Str × Str)) (spec : List ((Str × Str × Str) × Option Bool)) : Ext where
  canonName s := (canon.lookup s).getD [missChar]
  specMatch op r l := (spec.lookup (op, r, l)).getD none

def rawName : RawExc → String
  | .syntaxError => "SyntaxError" | .unicodeEncodeError => "UnicodeEncodeError" | .keyError => "KeyError"
  | .attributeError => "AttributeError" | .typeError => "TypeError"
  | .assertionError => "AssertionError"

def encErr : Err → String
  | .invalidMarker => "err InvalidMarker"
  | .undefinedComparison => "err UndefinedComparison"
  | .undefinedEnvironmentName => "err UndefinedEnvironmentName"
  | .raw e => "raw " ++ rawName e
  | .fuel => "raw Fuel"

mutual
def valuesM : M → List Str
  | .atom a => [a.lhs.value, a.rhs.value]
  | .bool _ => []
  | .list l => valuesL l
def valuesL : List M → List Str
  | [] => []
  | m :: ms => valuesM m ++ valuesL ms
end

mutual
def atomsM : M → List Atom
  | .atom a => [a]
  | .bool _ => []
  | .list l => atomsL l
def atomsL : List M → List Atom
  | [] => []
  | m :: ms => atomsM m ++ atomsL ms
end

def covered (canon : List (Str × Str)) (m : List M) : Bool :=
  (valuesL m).all fun v => (canon.lookup v).isSome

/-- `str(Marker(src))` -/
def strOf (X : Ext) (canon : List (Str × Str)) (src : Str) : Except String Str :=
  match parse src with
  | .error e => .error (encErr e)
  | .ok m => if covered canon m then .ok (str (normalizeExtra X m)) else .error "oracle-miss"

def opStr : List String → String
  | [a, c] => match decS a, decPairs c with
    | some src, some canon =>
      (match strOf (extOf canon []) canon src with
       | .ok s => "ok " ++ encS s
       | .error e => e)
    | _, _ => "bad-arg"
  | _ => "bad-op"

/-- `s1 = str(Marker(src))`, then `Marker(s1)`: its str or exception, and `Marker(src) == Marker(s1)` -/
def opRt : List String → String
  | [a, c] => match decS a, decPairs c with
    | some src, some canon =>
      let X := extOf canon []
      (match strOf X canon src with
       | .error e => e
       | .ok s1 =>
         match strOf X canon s1 with
         | .ok s2 => s!"ok {encS s1} ok {encS s2} {encB (s1 == s2)}"
         | .error e => s!"ok {encS s1} {e} -")
    | _, _ => "bad-arg"
  | _ => "bad-op"

/-- `Marker(a) == Marker(b)`, `hash(Marker(a)) == hash(Marker(b))` -/
def opEq : List String → String
  | [a, b, c] => match decS a, decS b, decPairs c with
    | some s, some t, some canon =>
      let X := extOf canon []
      (match parse s, parse t with
       | .error e, _ => encErr e
       | _, .error e => encErr e
       | .ok m, .ok n =>
         if covered canon m && covered canon n then
           let m := normalizeExtra X m; let n := normalizeExtra X n
           encB (eq m n) ++ encB (hashKey m == hashKey n)
         else "oracle-miss")
    | _, _, _ => "bad-arg"
  | _ => "bad-op"

def rawOperands (env : Env) (a : Atom) : Option (Str × Str × Str) :=
  match a.lhs with
  | .var k => match lookupEnv env k with
    | .ok v => some (v, a.rhs.value, k)
    | .error _ => none
  | .val l => match lookupEnv env a.rhs.value with
    | .ok v => some (l, v, a.rhs.value)
    | .error _ => none

def evalCovered (X : Ext) (canon : List (Str × Str)) (spec : List ((Str × Str × Str) × Option Bool))
    (env : Env) (m : List M) : Bool :=
  (atomsL m).all fun a =>
    match rawOperands env a with
    | none => true
    | some (l0, r0, k) =>
      (k != s_extra || ((canon.lookup l0).isSome && (canon.lookup r0).isSome)) &&
      (let (l, r) := normalize X l0 r0 k
       (spec.lookup (a.op, r, l)).isSome)

/-- `Marker(src).evaluate(env)` with `default_environment()` given as data -/
def opEval : List String → String
  | [a, d, e, c, s] => match decS a, decPairs d, decEnv e, decPairs c, decSpecTab s with
    | some src, some dflt, some env, some canon, some spec =>
      let X := extOf canon spec
      (match parse src with
       | .error e => "ctor " ++ encErr e
       | .ok m =>
         if !covered canon m then "oracle-miss" else
         let m := normalizeExtra X m
         match buildEnv dflt env with
         | .error e => encErr e
         | .ok en =>
           if !evalCovered X canon spec en m then "oracle-miss" else
           match evalMarkers (evalAtom X en) m with
           | .ok b => "ok " ++ encB b
           | .error e => encErr e)
    | _, _, _, _, _ => "bad-arg"
  | _ => "bad-op"

/-- the statement's reading: formula of the parsed text, `Pep508.atomSem` on `Pep508.effEnv` -/
def opSpecEval : List String → String
  | [a, d, e, c, s] => match decS a, decPairs d, decEnv e, decPairs c, decSpecTab s with
    | some src, some dflt, some env, some canon, some spec =>
      let X := extOf canon spec
      (match parse src with
       | .error e => "ctor " ++ encErr e
       | .ok m =>
         match Pep508.formulaOf m with
         | none => "unspecified"
         | some f =>
           if (atomsL m).any (fun a => (Pep508.atomSem X (Pep508.effEnv dflt env) a).isNone) then "unspecified" else
           match f.eval (fun a => (Pep508.atomSem X (Pep508.effEnv dflt env) a).getD (.error .fuel)) with
           | .ok b => "ok " ++ encB b
           | .error e => encErr e)
    | _, _, _, _, _ => "bad-arg"
  | _ => "bad-op"

/-- `process_python_str(token)` -/
def opLit : List String → String
  | [a] => match decS a with
    | some t =>
      if !(t.length ≥ 2 && (t.head? == some 39 || t.head? == some 34) && t.getLast? == t.head? &&
           !((t.drop 1).dropLast.contains (t.headD 0))) then "bad-token" else
      (match pyStrLit t with
      | .ok v => "ok " ++ encS v
      | .error e => encErr e)
    | none => "bad-arg"
  | _ => "bad-op"

def ruleOf (s : String) : Option Rule :=
  [("LEFT_PARENTHESIS", Rule.lparen), ("RIGHT_PARENTHESIS", .rparen), ("QUOTED_STRING", .quoted), ("OP", .op),
   ("BOOLOP", .boolop), ("IN", .kwIn), ("NOT", .kwNot), ("VARIABLE", .variable), ("WS", .ws), ("END", .end_)].lookup s

/-- `rules[name].match(source, position)`: length of the match or `~` -/
def opMatch : List String → String
  | [r, a, p] => match ruleOf r, decS a, p.toNat? with
    | some rule, some src, some pos =>
      if pos > src.length then "bad-arg" else
      (match matchRule rule (lastOr (src.take pos) none) (src.drop pos) with
       | some n => toString n
       | none => "~")
    | _, _, _ => "bad-arg"
  | _ => "bad-op"

def ops : List (String × (List String → String)) :=
  [ ("mk.str", opStr), ("mk.rt", opRt), ("mk.eq", opEq), ("mk.eval", opEval), ("s.mk.eval", opSpecEval),
    ("mk.lit", opLit), ("mk.match", opMatch) ]

end DriverMk
