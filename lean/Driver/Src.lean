import PkgModel.Generated.PySrc
/-!
driver operation `src.call <function> <arg>…`: run the *translated* source of a selected function
(`Gen.PySrc.table`) on Python values sent in the wire format below; answers `ok <value>` or `raise <Class>`.
This validates translator + run-time against the real function, independently of the equivalence proofs.

wire format of a `PyVal` (no white space): `N` | `T` | `F` | `i<decimal>` | `s<hex code points joined by '.', '-' = empty>`
| `L[v,v,…]` list | `U[…]` tuple | `I[…]` materialised iterator | `D[U[k,v],…]` dict | `m` NegativeInfinity | `p` Infinity
| `O<Class>{field=v,…}` object (`Oset{items=L[…]}` / `Ofrozenset{…}`: members sorted by wire form)
-/
namespace DriverSrc
open PyRt Py

def sortStrs (l : List String) : List String := (l.toArray.qsort (· < ·)).toList

mutual
def encVal : PyVal → String
  | .none => "N"
  | .bool true => "T"
  | .bool false => "F"
  | .int i => "i" ++ toString i
  | .str s => "s" ++ encS s
  | .list l => "L[" ++ encVals l ++ "]"
  | .tuple l => "U[" ++ encVals l ++ "]"
  | .iter l => "I[" ++ encVals l ++ "]"
  | .negInf => "m"
  | .posInf => "p"
  -- x2: sets travel with their members sorted by wire form (CPython's hash-table order is not modelled)
  | .obj "set" [("items", .list l)] => "Oset{items=L[" ++ ",".intercalate (sortStrs (encValList l)) ++ "]}"
  | .obj "frozenset" [("items", .list l)] => "Ofrozenset{items=L[" ++ ",".intercalate (sortStrs (encValList l)) ++ "]}"
  | .obj c fs => "O" ++ c ++ "{" ++ encFields fs ++ "}"
  | .unbound => "?"
  | .notImpl => "X"
  | .dict kvs => "D[" ++ encItems kvs ++ "]"
def encItems : List (PyVal × PyVal) → String
  | [] => ""
  | [(k, v)] => "U[" ++ encVal k ++ "," ++ encVal v ++ "]"
  | (k, v) :: r => "U[" ++ encVal k ++ "," ++ encVal v ++ "]," ++ encItems r
def encValList : List PyVal → List String
  | [] => []
  | v :: vs => encVal v :: encValList vs
def encVals : List PyVal → String
  | [] => ""
  | [v] => encVal v
  | v :: vs => encVal v ++ "," ++ encVals vs
def encFields : List (String × PyVal) → String
  | [] => ""
  | [(k, v)] => k ++ "=" ++ encVal v
  | (k, v) :: fs => k ++ "=" ++ encVal v ++ "," ++ encFields fs
end

def isPayload (c : Char) : Bool := c.isDigit || ('a' ≤ c && c ≤ 'f') || c == '.' || c == '-'
def isIdent (c : Char) : Bool := c.isAlphanum || c == '_'

def decInt (cs : List Char) : Option Int :=
  match cs with
  | '-' :: d => if d.isEmpty || !d.all Char.isDigit then none else some (-((String.ofList d).toNat! : Int))
  | d => if d.isEmpty || !d.all Char.isDigit then none else some ((String.ofList d).toNat! : Int)

mutual
def parseVal : Nat → List Char → Option (PyVal × List Char)
  | 0, _ => none
  | fuel+1, cs =>
    match cs with
    | 'N' :: r => some (.none, r)
    | 'T' :: r => some (.bool true, r)
    | 'F' :: r => some (.bool false, r)
    | 'm' :: r => some (.negInf, r)
    | 'p' :: r => some (.posInf, r)
    | 'X' :: r => some (.notImpl, r)
    | 'i' :: r =>
      let d := r.takeWhile isPayload
      (decInt d).map fun i => (.int i, r.dropWhile isPayload)
    | 's' :: r =>
      let d := r.takeWhile isPayload
      (decS (String.ofList d)).map fun s => (.str s, r.dropWhile isPayload)
    | 'L' :: '[' :: r => (parseVals fuel r).map fun (l, r') => (.list l, r')
    | 'U' :: '[' :: r => (parseVals fuel r).map fun (l, r') => (.tuple l, r')
    | 'I' :: '[' :: r => (parseVals fuel r).map fun (l, r') => (.iter l, r')
    | 'D' :: '[' :: r => (parseVals fuel r).map fun (l, r') =>
        (.dict (l.filterMap fun p => match p with | .tuple [k, v] => some (k, v) | _ => none), r')
    | 'O' :: r =>
      let c := r.takeWhile isIdent
      match r.dropWhile isIdent with
      | '{' :: r' => (parseFields fuel r').map fun (fs, r'') => (.obj (String.ofList c) fs, r'')
      | _ => none
    | _ => none
/-- after `[`: values separated by `,` up to `]` -/
def parseVals : Nat → List Char → Option (List PyVal × List Char)
  | 0, _ => none
  | fuel+1, cs =>
    match cs with
    | ']' :: r => some ([], r)
    | ',' :: r => parseVals fuel r
    | _ =>
      match parseVal fuel cs with
      | none => none
      | some (v, r) => (parseVals fuel r).map fun (vs, r') => (v :: vs, r')
def parseFields : Nat → List Char → Option (List (String × PyVal) × List Char)
  | 0, _ => none
  | fuel+1, cs =>
    match cs with
    | '}' :: r => some ([], r)
    | ',' :: r => parseFields fuel r
    | _ =>
      let k := cs.takeWhile isIdent
      match cs.dropWhile isIdent with
      | '=' :: r =>
        (match parseVal fuel r with
         | none => none
         | some (v, r') => (parseFields fuel r').map fun (fs, r'') => ((String.ofList k, v) :: fs, r''))
      | _ => none
end

def decVal (s : String) : Option PyVal :=
  let cs := s.toList
  match parseVal (2 * cs.length + 2) cs with
  | some (v, []) => some v
  | _ => none

def encResult : M PyVal → String
  | .ok v => "ok " ++ encVal v
  | .error e => "raise " ++ e

def lookup (name : String) : List (String × Nat × (List PyVal → M PyVal)) → Option (List PyVal → M PyVal)
  | [] => none
  | (n, _, f) :: rest => if n == name then some f else lookup name rest

def opCall : List String → String
  | name :: args =>
    match lookup name Gen.PySrc.table, args.mapM decVal with
    | some f, some vs => encResult (f vs)
    | none, _ => "bad-function"
    | _, none => "bad-arg"
  | _ => "bad-op"

def ops : List (String × (List String → String)) := [("src.call", opCall)]

end DriverSrc
