import PkgModel.Tags
import PkgModel.Spec.Tags
/-! driver operations for the interpreter-tag model (C15)

argument forms (besides the string atoms of `Py.encS`):
* version  `~` (None) | `v` + comma-joined naturals (`v` alone is the empty tuple)
* str list `~` (None) | `l` + comma-joined atoms (`l` alone is the empty list)
* config   `c` + thirteen `;`-separated fields, see `decCfg` (the last one describes how the harness
  realises the probes and is ignored here)
* config value `~` | `i<nat>` | `s<atom>`
-/
namespace DriverTags
open Py Tags

def tail1 (s : String) : String := String.ofList (s.toList.drop 1)
def head1 (s : String) : Option Char := s.toList.head?

def decNats (s : String) : Option (List Nat) :=
  if s.isEmpty then some [] else (s.splitOn ",").mapM String.toNat?

def decVer (s : String) : Option (Option (List Nat)) :=
  if s == "~" then some none
  else if head1 s == some 'v' then (decNats (tail1 s)).map some else none

def decStrs (s : String) : Option (List Str) :=
  if s.isEmpty then some [] else (s.splitOn ",").mapM decS

def decOStrs (s : String) : Option (Option (List Str)) :=
  if s == "~" then some none
  else if head1 s == some 'l' then (decStrs (tail1 s)).map some else none

def decCV (s : String) : Option CV :=
  if s == "~" then some .none
  else match head1 s with
    | some 'i' => (tail1 s).toNat?.map CV.int
    | some 's' => (decS (tail1 s)).map CV.str
    | _ => none

def decB (s : String) : Option Bool :=
  if s == "1" then some true else if s == "0" then some false else none

def decCfg (s : String) : Option Cfg :=
  if head1 s != some 'c' then none else
  match (tail1 s).splitOn ";" with
  | [sv, nm, nodot, dbg, gil, pym, usz, rc, ext, wide, suf, det, _probe] => do
    let sv ← decNats sv
    let nm ← decS nm
    let nodot ← decCV nodot
    let dbg ← decCV dbg
    let gil ← decCV gil
    let pym ← decCV pym
    let usz ← decCV usz
    let rc ← decB rc
    let ext ← decB ext
    let wide ← decB wide
    let suf ← decCV suf
    let det ← decStrs det
    pure { sysVersion := sv, implName := nm, pyVersionNodot := nodot, pyDebug := dbg, gilDisabled := gil,
           withPymalloc := pym, unicodeSize := usz, hasRefcount := rc, hasDebugExt := ext,
           maxUnicodeWide := wide, extSuffix := suf, detected := det }
  | _ => none

def encTag (t : Tag) : String := encS t.interp ++ "," ++ encS t.abi ++ "," ++ encS t.plat
def encTags (l : List Tag) : String := "ok " ++ ";".intercalate (l.map encTag)
def encETags : Except String (List Tag) → String
  | .ok l => encTags l
  | .error e => "raw " ++ e
def encStrs (l : List Str) : String := "ok " ++ ",".intercalate (l.map encS)

def opCpython : List String → String
  | [c, v, a, p] =>
    match decCfg c, decVer v, decOStrs a, decOStrs p with
    | some c, some v, some a, some p => encTags (cpythonTags c v a p)
    | _, _, _, _ => "bad-arg"
  | _ => "bad-op"

def opGeneric : List String → String
  | [c, i, a, p] =>
    match decCfg c, decOS i, decOStrs a, decOStrs p with
    | some c, some i, some a, some p => encETags (genericTags c i a p)
    | _, _, _, _ => "bad-arg"
  | _ => "bad-op"

def opCompatible : List String → String
  | [c, v, i, p] =>
    match decCfg c, decVer v, decOS i, decOStrs p with
    | some c, some v, some i, some p => encTags (compatibleTags c v i p)
    | _, _, _, _ => "bad-arg"
  | _ => "bad-op"

def opSys : List String → String
  | [c] => match decCfg c with
    | some c => encETags (sysTags c)
    | none => "bad-arg"
  | _ => "bad-op"

def opAbis : List String → String
  | [c, v] =>
    match decCfg c, decVer v with
    | some c, some (some v) => encStrs (cpythonAbis c v)
    | _, _ => "bad-arg"
  | _ => "bad-op"

def opGenericAbi : List String → String
  | [c] => match decCfg c with
    | some c => (match genericAbi c with | .ok l => encStrs l | .error e => "raw " ++ e)
    | none => "bad-arg"
  | _ => "bad-op"

/-! reference sequences (explicit inputs only) -/
def opSpecCpython : List String → String
  | [v, a, p] =>
    match decVer v, decOStrs a, decOStrs p with
    | some (some v), some (some a), some (some p) => encTags (TagSpec.cpythonSpec v a p)
    | _, _, _ => "bad-arg"
  | _ => "bad-op"

def opSpecCompatible : List String → String
  | [v, i, p] =>
    match decVer v, decOS i, decOStrs p with
    | some (some v), some i, some (some p) => encTags (TagSpec.compatibleSpec v i p)
    | _, _, _ => "bad-arg"
  | _ => "bad-op"

def opSpecGeneric : List String → String
  | [i, a, p] =>
    match decS i, decOStrs a, decOStrs p with
    | some i, some (some a), some (some p) => encTags (TagSpec.genericSpec i a p)
    | _, _, _ => "bad-arg"
  | _ => "bad-op"

def ops : List (String × (List String → String)) :=
  [ ("tags.cpython", opCpython), ("tags.generic", opGeneric), ("tags.compatible", opCompatible),
    ("tags.sys", opSys), ("tags.abis", opAbis), ("tags.generic_abi", opGenericAbi),
    ("s.tags.cpython", opSpecCpython), ("s.tags.compatible", opSpecCompatible),
    ("s.tags.generic", opSpecGeneric) ]

end DriverTags
