import PkgModel.Specifier
import PkgModel.Spec.Admits
/-! driver operations for the specifier model -/
namespace DriverSpec
open Py V S

def decOB (s : String) : Option (Option Bool) :=
  if s == "~" then some none else if s == "1" then some (some true) else if s == "0" then some (some false) else none

def encR (r : S.R Bool) : String :=
  match r with
  | .ok b => encB b
  | .error e => "raw " ++ e

def encStrs (l : List Str) : String := ",".intercalate (l.map encS)

def decStrs (s : String) : Option (List Str) :=
  if s == "" then some [] else (s.splitOn ",").mapM decS

def opParse : List String → String
  | [a] => match decS a with
    | some s => (match parseSpec s with
      | some sp => "ok " ++ encS sp.op.str ++ " " ++ encS sp.ver
      | none => "err InvalidSpecifier")
    | none => "bad-arg"
  | _ => "bad-op"

def opPre : List String → String
  | [a, o] => match decS a, decOB o with
    | some s, some ov => (match parseSpec s with
      | some sp => encR (sp.prereleases ov)
      | none => "err InvalidSpecifier")
    | _, _ => "bad-arg"
  | _ => "bad-op"

def opContains : List String → String
  | [a, o, c, p] => match decS a, decOB o, decS c, decOB p with
    | some s, some ov, some cs, some pre => (match parseSpec s with
      | none => "err InvalidSpecifier"
      | some sp =>
        -- `prereleases` is resolved before the candidate is coerced
        let early : Option String := match pre with
          | some _ => none
          | none => (match sp.prereleases ov with | .error e => some ("raw " ++ e) | .ok _ => none)
        match early with
        | some e => e
        | none => (match scan cs with
          | none => "raw InvalidVersion"
          | some v => encR (sp.contains ov v pre)))
    | _, _, _, _ => "bad-arg"
  | _ => "bad-op"

def opFilter : List String → String
  | [a, o, p, cs] => match decS a, decOB o, decOB p, decStrs cs with
    | some s, some ov, some pre, some cands => (match parseSpec s with
      | none => "err InvalidSpecifier"
      | some sp =>
        match cands.mapM scan with
        | none => "raw InvalidVersion"
        | some vs =>
          match sp.filter ov pre ((List.range vs.length).zip vs) with
          | .ok idx => "ok " ++ encNats idx
          | .error e => "raw " ++ e)
    | _, _, _, _ => "bad-arg"
  | _ => "bad-op"

def opSplit : List String → String
  | [a] => match decS a with
    | some s => encStrs (versionSplit s)
    | none => "bad-arg"
  | _ => "bad-op"

def opPad : List String → String
  | [a, b] => match decStrs a, decStrs b with
    | some l, some r => let (x, y) := padVersion l r; encStrs x ++ "|" ++ encStrs y
    | _, _ => "bad-arg"
  | _ => "bad-op"

def opCanon : List String → String
  | [a] => match decS a with
    | some s => (match parseSpec s with
      | none => "err InvalidSpecifier"
      | some sp => match sp.canonical with
        | .ok (op, c) => encS op.str ++ " " ++ encS c
        | .error e => "raw " ++ e)
    | none => "bad-arg"
  | _ => "bad-op"

/-- reference semantics: `s.spec.admits clause candidate` = `Pep440.admits` on the parsed structures -/
def opAdmits : List String → String
  | [a, c] => match decS a, decS c with
    | some s, some cs => (match parseSpec s with
      | none => "err InvalidSpecifier"
      | some sp =>
        match scan cs with
        | none => "raw InvalidVersion"
        | some cv =>
          match Pep440.readClause sp with
          | none => "unreadable-clause"
          | some (v, wild) => encB (Pep440.admits sp.op v wild sp.ver cv))
    | _, _ => "bad-arg"
  | _ => "bad-op"

/-- `spec.clause s`: does `Specifier(s)` parse, and is what it stores a clause the reference semantics can read
(`Pep440.readClause`, the hypothesis of theorem `C03.contains_eq_spec`)?  `ok <wildcard?>` -/
def opClause : List String → String
  | [a] => match decS a with
    | some s => (match parseSpec s with
      | none => "err InvalidSpecifier"
      | some sp => match Pep440.readClause sp with
        | none => "unreadable-clause"
        | some (_, wild) => "ok " ++ encB wild)
    | none => "bad-arg"
  | _ => "bad-op"

def ops : List (String × (List String → String)) :=
  [ ("s.spec.admits", opAdmits), ("spec.clause", opClause), ("spec.parse", opParse), ("spec.pre", opPre), ("spec.contains", opContains), ("spec.filter", opFilter),
    ("spec.split", opSplit), ("spec.pad", opPad), ("spec.canon", opCanon) ]

end DriverSpec
