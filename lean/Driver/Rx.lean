import PkgModel.Py
import PkgModel.Spec.Pep440Rx
import PkgModel.Generated.VersionRx
import PkgModel.Generated.SpecifierRx
import PkgModel.Generated.NameValidRx
/-! driver operations for generated and spec regexes -/
namespace DriverRx
open Py Rx

structure Entry where
  n : Nat
  reps : List Nat
  ranges : List (Nat × Nat × Nat)
  gen : R
  spec : R

def table : List (String × Entry) :=
  [ ("VersionRx", ⟨Gen.VersionRx.nClasses, Gen.VersionRx.reps, Gen.VersionRx.ranges, Gen.VersionRx.rx,
       Pep440Rx.version Gen.VersionRx.kinds⟩),
    ("SpecifierRx", ⟨Gen.SpecifierRx.nClasses, Gen.SpecifierRx.reps, Gen.SpecifierRx.ranges, Gen.SpecifierRx.rx,
       Pep440Rx.specifier Gen.SpecifierRx.kinds⟩) ]

def opMatch (spec : Bool) : List String → String
  | [name, a] =>
    match table.lookup name, decS a with
    | some e, some s => encB (accepts e.ranges (if spec then e.spec else e.gen) s)
    | _, _ => "bad-arg"
  | _ => "bad-op"

def opDistinguish : List String → String
  | [name] =>
    match table.lookup name with
    | some e =>
      (match distinguish e.n e.gen e.spec with
       | some w => "word " ++ encS (w.map fun c => e.reps.getD c 0)
       | none => "none")
    | none => "bad-arg"
  | _ => "bad-op"

def ops : List (String × (List String → String)) :=
  [ ("rx.match", opMatch false), ("s.rx.match", opMatch true), ("rx.distinguish", opDistinguish) ]

end DriverRx
