import PkgModel.Cache
import PkgModel.Py
/-! driver operation for the lru_cache model -/
namespace DriverCache
open Cache

def probe (n : Nat) : Nat := n * n + 1

/-- misses = number of times the wrapped function is really called -/
def runCount (maxsize : Nat) : State Nat Nat → List Nat → List Nat × Nat
  | _, [] => ([], 0)
  | s, a :: as =>
    let miss := (lookup a s.entries).isNone
    let (s', v) := call maxsize probe s a
    let (vs, m) := runCount maxsize s' as
    (v :: vs, m + (if miss then 1 else 0))

def opRun : List String → String
  | [m, cs] =>
    match m.toNat?, (if cs == "" then some [] else (cs.splitOn ",").mapM String.toNat?) with
    | some maxsize, some calls =>
      let (vs, misses) := runCount maxsize empty calls
      Py.encNats vs ++ "|" ++ toString misses
    | _, _ => "bad-arg"
  | _ => "bad-op"

def ops : List (String × (List String → String)) := [("cache.run", opRun)]
end DriverCache
