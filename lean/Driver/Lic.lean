import PkgModel.License
import PkgModel.Spec.Spdx
/-! driver operations for the licence-expression model (C19) -/
namespace DriverLic
open Py

def withS (a : String) (f : Str → String) : String :=
  match decS a with | some s => f s | none => "bad-arg"

/-- `lic.canon s`: the model of `canonicalize_license_expression` -/
def opCanon : List String → String
  | [a] => withS a fun s => match Lic.canon s with
      | some r => "ok " ++ encS r
      | none => "err InvalidLicenseExpression"
  | _ => "bad-op"

/-- `s.lic.canon s`: the reference semantics (`Spdx.WF` / `Spdx.canon` on `Spdx.lex s`) -/
def opSpec : List String → String
  | [a] => withS a fun s => match Spdx.canon (Spdx.lex s) with
      | some r => "ok " ++ encS r
      | none => "err InvalidLicenseExpression"
  | _ => "bad-op"

def ops : List (String × (List String → String)) :=
  [ ("lic.canon", opCanon), ("s.lic.canon", opSpec) ]

end DriverLic
