import PkgModel.License
import PkgModel.Spec.Spdx
/-! driver operations for the licence-expression model (C19) -/
namespace DriverLic
open Py

def withS (a : String) (f : Str → String) : String :=
  match decS a with | some s => f s | none => "bad-arg"

/-- `lic.canon s`: the model of `canonicalize_license_expression` -/
def opCanon : List String → String
  | [a] => withS a fun s => match Lic.canon s with
      | .ok r => "ok " ++ encS r
      | .error .invalid => "err InvalidLicenseExpression"
      | .error .keyError => "raw KeyError"
  | _ => "bad-op"

/-- `s.lic.canon s`: the reference semantics (`Spdx.WF` / `Spdx.canon` on `Spdx.lex s`) -/
def opSpec : List String → String
  | [a] => withS a fun s => match Spdx.canon (Spdx.lex s) with
      | some r => "ok " ++ encS r
      | none => "err InvalidLicenseExpression"
  | _ => "bad-op"

def ptok (c : Char) : Option Lic.PTok :=
  if c == 'F' then some .F else if c == 'a' then some .and else if c == 'o' then some .or
  else if c == '(' then some .lp else if c == ')' then some .rp else none

/-- `lic.eval skeleton`: skeleton written with `F a o ( )`; `-` is the empty skeleton -/
def opEval : List String → String
  | [a] =>
    let cs := if a == "-" then [] else a.toList
    match cs.mapM ptok with
    | none => "bad-arg"
    | some ts => (match Lic.pyEval ts with
        | none => "err SyntaxError"
        | some .e => "err TypeError"
        | some .f => "False"
        | some .t => "()")
  | _ => "bad-op"

def ops : List (String × (List String → String)) :=
  [ ("lic.canon", opCanon), ("s.lic.canon", opSpec), ("lic.eval", opEval) ]

end DriverLic
