import PkgModel.Version
import PkgModel.Spec.Pep440
import PkgModel.Generated.VersionRx
/-! driver operations for the version model -/
namespace DriverVer
open Py V

def encPre : Option (PreL × Nat) → String
  | none => "~"
  | some (l, n) => toStringLossy l.str ++ toString n
def encON : Option Nat → String
  | none => "~" | some n => toString n
def encSeg : LSeg → String
  | .num n => "n" ++ toString n
  | .str s => "s" ++ encS s
def encLoc : Option (List LSeg) → String
  | none => "~"
  | some l => ",".intercalate (l.map encSeg)

def encVer (v : Ver) : String :=
  s!"{v.epoch}|{encNats v.release}|{encPre v.pre}|{encON v.post}|{encON v.dev}|{encLoc v.loc}"

def withS (a : String) (f : Str → String) : String :=
  match decS a with | some s => f s | none => "bad-arg"

def opParse : List String → String
  | [a] => withS a fun s => match scan s with
      | some v => "ok " ++ encVer v
      | none => "err InvalidVersion"
  | _ => "bad-op"

def opView : List String → String
  | [a] => withS a fun s => match scan s with
      | none => "err InvalidVersion"
      | some v => "|".intercalate
          [encS v.str, encS v.public, encS v.base, encOS v.localStr, toString v.major, toString v.minor,
           toString v.micro, encB v.isPre, encB v.isPost, encB v.isDev]
  | _ => "bad-op"

def opCmp : List String → String
  | [a, b] => withS a fun s => withS b fun t =>
      match scan s, scan t with
      | some v, some w =>
        String.join [encB (v.lt w), encB (v.le w), encB (v.eq w), encB (v.ne w), encB (v.ge w), encB (v.gt w)]
      | _, _ => "err InvalidVersion"
  | _ => "bad-op"

def encOrd : Ordering → String | .lt => "lt" | .eq => "eq" | .gt => "gt"

def opSpecCmp : List String → String
  | [a, b] => withS a fun s => withS b fun t =>
      match scan s, scan t with
      | some v, some w => encOrd (Pep440.cmp v w)
      | _, _ => "err InvalidVersion"
  | _ => "bad-op"

def opCanon : List String → String
  | [f, a] => withS a fun s => match canonicalizeVersion s (f == "1") with
      | some r => encS r
      | none => "raw InvalidVersion"
  | _ => "bad-op"

/-- `canonicalize_version(Version(s), strip_trailing_zero=f)`: the `Version`-object arm of the dispatch -/
def opCanonV : List String → String
  | [f, a] => withS a fun s => match scan s with
      | none => "err InvalidVersion"
      | some v => (match v.canon (f == "1") with
        | some r => encS r
        | none => "raw InvalidVersion")
  | _ => "bad-op"

/-- acceptance by the hand-written scanner, then by the regex regenerated from `Version._regex` -/
def opAccept : List String → String
  | [a] => withS a fun s =>
      encB (scan s).isSome ++ encB (Rx.accepts Gen.VersionRx.ranges Gen.VersionRx.rx s)
  | _ => "bad-op"

def ops : List (String × (List String → String)) :=
  [ ("ver.parse", opParse), ("ver.view", opView), ("ver.cmp", opCmp),
    ("s.ver.cmp", opSpecCmp), ("ver.canon", opCanon), ("ver.canonv", opCanonV), ("ver.accept", opAccept) ]

end DriverVer
