import PkgModel.Names
import PkgModel.Filenames
import PkgModel.Spec.Names
import PkgModel.Spec.Filenames
import Driver.Ver
/-! driver operations for names (C13) and wheel / sdist filenames, tags (C14) -/
namespace DriverNames
open Py Names Fn

def withS (a : String) (f : Str → String) : String :=
  match decS a with | some s => f s | none => "bad-arg"

/-- a list of strings: atoms joined by `,` (an empty list is `!`) -/
def decL (a : String) : Option (List Str) :=
  if a == "!" then some [] else (a.splitOn ",").mapM decS

def opCanon : List String → String
  | [a] => withS a fun s => encS (canon s)
  | _ => "bad-op"

def opLower : List String → String
  | [a] => withS a fun s => encS (lower s)
  | _ => "bad-op"

/-- a shortest string on which a regenerated name pattern and its spec regex differ, if any -/
def opDistinguish : List String → String
  | [name] =>
    let r : Option (Nat × List Nat × Rx.R × Rx.R) :=
      if name == "NameValidRx" then
        some (Gen.NameValidRx.nClasses, Gen.NameValidRx.reps, Gen.NameValidRx.rx, NameSpec.validRx Gen.NameValidRx.kinds)
      else if name == "NormalizedRx" then
        some (Gen.NormalizedRx.nClasses, Gen.NormalizedRx.reps, Gen.NormalizedRx.rx, NameSpec.normalizedRx Gen.NormalizedRx.kinds)
      else none
    match r with
    | some (n, reps, g, sp) =>
      (match Rx.distinguish n g sp with
       | some w => "word " ++ encS (w.map fun c => reps.getD c 0)
       | none => "none")
    | none => "bad-arg"
  | _ => "bad-op"

def opCanonV : List String → String
  | [a] => withS a fun s => match canonicalizeName s true with
      | some r => "ok " ++ encS r
      | none => "err InvalidName"
  | _ => "bad-op"

def opIsNorm : List String → String
  | [a] => withS a fun s => encB (isNormalized s)
  | _ => "bad-op"

/-- all three observables of a name at once: canon | validate=True result | is_normalized -/
def opAll : List String → String
  | [a] => withS a fun s =>
      encS (canon s) ++ " " ++ (match canonicalizeName s true with | some r => encS r | none => "InvalidName")
        ++ " " ++ encB (isNormalized s)
  | _ => "bad-op"

def opSpecFold : List String → String
  | [a] => withS a fun s => encS (NameSpec.fold lowerCp s)
  | _ => "bad-op"
def opSpecValid : List String → String
  | [a] => withS a fun s => encB (NameSpec.validName s)
  | _ => "bad-op"
def opSpecNormalized : List String → String
  | [a] => withS a fun s => encB (NameSpec.normalized lowerCp s)
  | _ => "bad-op"

def opSpecAll : List String → String
  | [a] => withS a fun s =>
      encS (NameSpec.fold lowerCp s) ++ " " ++ encB (NameSpec.validName s) ++ " " ++ encB (NameSpec.normalized lowerCp s)
  | _ => "bad-op"

/-! ### tags, filenames -/

def encTag (t : Tag) : String := encS t.i ++ ":" ++ encS t.a ++ ":" ++ encS t.p

/-- a set of tags: encoded, sorted, duplicates removed, joined by `,` (`!` when empty) -/
def encTags (l : List Tag) : String :=
  let xs := (l.map encTag).toArray.qsort (· < ·) |>.toList
  let ys := xs.foldr (fun x acc => match acc with | y :: _ => if x == y then acc else x :: acc | [] => [x]) []
  if ys.isEmpty then "!" else ",".intercalate ys

def encBuild : Option (Nat × Str) → String
  | none => "~"
  | some (n, s) => toString n ++ ":" ++ encS s

def opTagParse : List String → String
  | [a] => withS a fun s => match parseTag s with
      | some l => "ok " ++ encTags l
      | none => "raw ValueError"
  | _ => "bad-op"

/-- `Tag(i,a,p)` and `Tag(i',a',p')`: str of the first, `==`, equality of hashes -/
def opTagPair : List String → String
  | [i, a, p, i', a', p'] =>
    match decS i, decS a, decS p, decS i', decS a', decS p' with
    | some i, some a, some p, some i', some a', some p' =>
      let t := mkTag i a p
      let u := mkTag i' a' p'
      encS t.str ++ " " ++ encB (Tag.eq (fun _ => 0) t u) ++ " " ++ encB (t.key == u.key)
    | _, _, _, _, _, _ => "bad-arg"
  | _ => "bad-op"

def opWheel : List String → String
  | [a] => withS a fun s => match parseWheel s with
      | .ok w => "ok " ++ encS w.name ++ " " ++ DriverVer.encVer w.ver ++ " " ++ encBuild w.build ++ " " ++ encTags w.tags
      | .error .rawTag => "raw ValueError"
      | .error _ => "err InvalidWheelFilename"
  | _ => "bad-op"

def opSdist : List String → String
  | [a] => withS a fun s => match parseSdist s with
      | .ok (n, v) => "ok " ++ encS n ++ " " ++ DriverVer.encVer v
      | .error _ => "err InvalidSdistFilename"
  | _ => "bad-op"

/-- spec: assemble a wheel filename from name, version *string*, build (`~` or `n:suffix`), three tag lists -/
def opAssemble : List String → String
  | [n, v, b, py, abi, plat] =>
    match decS n, decS v, decL py, decL abi, decL plat with
    | some n, some v, some py, some abi, some plat =>
      match V.scan v with
      | none => "bad-arg"
      | some ver =>
        let build : Option (Option (Nat × Str)) :=
          if b == "~" then some none else
          match b.splitOn ":" with
          | [k, s] => (match k.toNat?, decS s with | some k, some s => some (some (k, s)) | _, _ => none)
          | _ => none
        match build with
        | none => "bad-arg"
        | some build => encS (FnSpec.assembleWheel lowerCp n ver build py abi plat)
    | _, _, _, _, _ => "bad-arg"
  | _ => "bad-op"

def ops : List (String × (List String → String)) :=
  [ ("name.canon", opCanon), ("str.lower", opLower), ("name.distinguish", opDistinguish), ("name.canonv", opCanonV), ("name.isnorm", opIsNorm), ("name.all", opAll),
    ("s.name.fold", opSpecFold), ("s.name.valid", opSpecValid), ("s.name.normalized", opSpecNormalized), ("s.name.all", opSpecAll),
    ("tag.parse", opTagParse), ("tag.pair", opTagPair), ("whl.parse", opWheel), ("sdist.parse", opSdist),
    ("s.whl.assemble", opAssemble) ]

end DriverNames
