import PkgModel.Requirement
/-!
driver operations for the requirement model (C08)

* `req.parse src`   → `ok name|extras|clauses|url|marker` (extras sorted, clauses = sorted `str` of the members, both
                       `,`-joined, `_` when empty; url / marker-str optional) or `err InvalidRequirement`
* `req.str src`     → `ok s1 ok s2 e h` : `s1 = str(Requirement(src))`, `s2 = str(Requirement(s1))`,
                       `e` = `Requirement(s1) == Requirement(src)`, `h` = hashes agree; or `ok s1 err …`
* `req.eq a b`      → `eh` (two booleans: `==`, hash equality) or the error of the first that fails
* `req.match rule src pos` → length of `rules[rule].match(src, pos)` or `~`
* `req.marker src`  → `1`/`0`: the requirement's marker equals `normalizeExtra (Mk.parse text)` for the text after the
                       first top-level `;` … (see `opMarker`)
-/
namespace DriverReq
open Py Req

def encErr : Req.Err → String
  | .invalidRequirement => "err InvalidRequirement"
  | .rawInvalidVersion => "raw InvalidVersion"
  | .fuel => "raw Fuel"

def encL (l : List Str) : String := if l.isEmpty then "_" else ",".intercalate (l.map encS)

def encReq (r : Requirement) : String :=
  "|".intercalate [encS r.name, encL (sortedExtras r), encL (sortBy strLe (r.spec.map S.Spec.str)),
                   encOS r.url, encOS (r.marker.map Mk.str)]

def opParse : List String → String
  | [a] => match decS a with
    | some src => (match Req.parse src with
      | .ok r => "ok " ++ encReq r
      | .error e => encErr e)
    | none => "bad-arg"
  | _ => "bad-op"

def opStr : List String → String
  | [a] => match decS a with
    | some src => (match Req.parse src with
      | .error e => encErr e
      | .ok r =>
        let s1 := Req.str r
        match Req.parse s1 with
        | .error e => s!"ok {encS s1} {encErr e}"
        | .ok r2 => s!"ok {encS s1} ok {encS (Req.str r2)} {encB (Req.eq r2 r)}{encB (Req.hashKey r2 == Req.hashKey r)}")
    | none => "bad-arg"
  | _ => "bad-op"

def opEq : List String → String
  | [a, b] => match decS a, decS b with
    | some s, some t => (match Req.parse s, Req.parse t with
      | .error e, _ => encErr e
      | _, .error e => encErr e
      | .ok r, .ok q => encB (Req.eq r q) ++ encB (Req.hashKey r == Req.hashKey q))
    | _, _ => "bad-arg"
  | _ => "bad-op"

def ruleOf (s : String) : Option (Sum Mk.Rule RRule) :=
  [("LEFT_PARENTHESIS", Sum.inl Mk.Rule.lparen), ("RIGHT_PARENTHESIS", .inl .rparen), ("WS", .inl .ws), ("END", .inl .end_),
   ("LEFT_BRACKET", .inr .lbracket), ("RIGHT_BRACKET", .inr .rbracket), ("SEMICOLON", .inr .semicolon),
   ("COMMA", .inr .comma), ("AT", .inr .at_), ("URL", .inr .url), ("IDENTIFIER", .inr .identifier),
   ("SPECIFIER", .inr .specifier), ("VERSION_PREFIX_TRAIL", .inr .prefixTrail),
   ("VERSION_LOCAL_LABEL_TRAIL", .inr .localTrail)].lookup s

def opMatch : List String → String
  | [r, a, p] => match ruleOf r, decS a, p.toNat? with
    | some rule, some src, some pos =>
      if pos > src.length then "bad-arg" else
      let prev := Mk.lastOr (src.take pos) none
      let rest := src.drop pos
      (match (match rule with | .inl m => Mk.matchRule m prev rest | .inr q => matchR q prev rest) with
       | some n => toString n
       | none => "~")
    | _, _, _ => "bad-arg"
  | _ => "bad-op"

/-- the marker of `Requirement(req)` against `Marker(text)` built by the stand-alone entry point:
`ok <same str><eq><same hash key>` -/
def opMarker : List String → String
  | [a, b] => match decS a, decS b with
    | some src, some text => (match parse src, Mk.mkMarker Req.X text with
      | .error e, _ => encErr e
      | _, .error _ => "err InvalidMarker"
      | .ok r, .ok m =>
        match r.marker with
        | none => "none"
        | some m' => "ok " ++ encB (Mk.str m' == Mk.str m) ++ encB (Mk.eq m' m) ++ encB (Mk.hashKey m' == Mk.hashKey m))
    | _, _ => "bad-arg"
  | _ => "bad-op"

def ops : List (String × (List String → String)) :=
  [ ("req.parse", opParse), ("req.str", opStr), ("req.eq", opEq), ("req.match", opMatch), ("req.marker", opMarker) ]

end DriverReq
