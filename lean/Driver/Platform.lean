import PkgModel.Platform
import PkgModel.Spec.Platform
import Driver.Tags
/-! driver operations for the platform-tag and ELF models (C16)

argument forms (besides those of `Driver/Tags.lean`):
* bytes    `~` (no file) | `h` + lower-case hex pairs
* policy   `a` (no module) | `f<tri>` + zero or more `:M,m,<arch atom>,<tri>` | `g<tri><tri><tri>`   (tri = n/t/f)
* LCfg     `k` + exe `;` confstr `;` ctypes version `;` policy `;` loader stderr `;` probe description (ignored here)
-/
namespace DriverPlat
open Py Tags Plat Elf DriverTags

def hexVal (c : Char) : Option Nat := unhexChar c

def decHexAux : List Char → Option Bytes
  | [] => some []
  | [_] => none
  | a :: b :: rest => do
    let x ← hexVal a
    let y ← hexVal b
    let r ← decHexAux rest
    pure ((x * 16 + y) :: r)

def decBytes (s : String) : Option (Option Bytes) :=
  if s == "~" then some none
  else if head1 s == some 'h' then (decHexAux (s.toList.drop 1)).map some else none

def encHex (b : Bytes) : String :=
  String.ofList (b.flatMap fun x => [hexDigit (x / 16), hexDigit (x % 16)])

def decTri (c : Char) : Option (Option Bool) :=
  if c == 'n' then some none else if c == 't' then some (some true) else if c == 'f' then some (some false) else none

def decRule (s : String) : Option ((Nat × Nat × Str) × Option Bool) :=
  match s.splitOn "," with
  | [a, b, c, d] => do
    let a ← a.toNat?
    let b ← b.toNat?
    let c ← decS c
    let d ← (match d.toList with | [ch] => decTri ch | _ => none)
    pure ((a, b, c), d)
  | _ => none

def decPolicy (s : String) : Option Policy :=
  match s.toList with
  | ['a'] => some .absent
  | ['g', a, b, c] => do
    let a ← decTri a
    let b ← decTri b
    let c ← decTri c
    pure (.legacy a b c)
  | 'f' :: d :: rest => do
    let d ← decTri d
    let rules ← (match rest with
      | [] => some []
      | ':' :: more => ((String.ofList more).splitOn ":").mapM decRule
      | _ => none)
    pure (.func d rules)
  | _ => none

def decLCfg (s : String) : Option LCfg :=
  if head1 s != some 'k' then none else
  match (tail1 s).splitOn ";" with
  | [exe, cs, ct, pol, ld, _probe] => do
    let exe ← decBytes exe
    let cs ← decOS cs
    let ct ← decOS ct
    let pol ← decPolicy pol
    let ld ← decS ld
    pure { exe := exe, confstr := cs, ctypesVersion := ct, policy := pol, ldStderr := ld }
  | _ => none

def decPair (s : String) : Option (Option (Nat × Nat)) :=
  match decVer s with
  | some none => some none
  | some (some [a, b]) => some (some (a, b))
  | _ => none

def encList (l : List Str) : String := "ok " ++ ",".intercalate (l.map encS)
def encEList : Except String (List Str) → String
  | .ok l => encList l
  | .error e => "raw " ++ e

def encInt (i : Int) : String := toString i

def opManylinux : List String → String
  | [k, a] => match decLCfg k, decOStrs a with
    | some k, some (some a) => encList (manylinuxTags k a)
    | _, _ => "bad-arg"
  | _ => "bad-op"

def opMusllinux : List String → String
  | [k, a] => match decLCfg k, decOStrs a with
    | some k, some (some a) => encList (musllinuxTags k a)
    | _, _ => "bad-arg"
  | _ => "bad-op"

def opLinux : List String → String
  | [k, p, b] => match decLCfg k, decS p, decB b with
    | some k, some p, some b => encList (linuxPlatforms k p b)
    | _, _, _ => "bad-arg"
  | _ => "bad-op"

def opGlibc : List String → String
  | [a, b, _probe] => match decOS a, decOS b with
    | some a, some b => let v := getGlibcVersion a b; encInt v.1 ++ "," ++ encInt v.2
    | _, _ => "bad-arg"
  | _ => "bad-op"

def opGlibcParse : List String → String
  | [a] => match decS a with
    | some a => let v := parseGlibcVersion a; encInt v.1 ++ "," ++ encInt v.2
    | _ => "bad-arg"
  | _ => "bad-op"

def opMuslParse : List String → String
  | [a] => match decS a with
    | some a => (match parseMuslVersion a with | some (x, y) => s!"{x},{y}" | none => "~")
    | _ => "bad-arg"
  | _ => "bad-op"

def opMac : List String → String
  | [vs, cpu, c0, b, v, a] => match decS vs, decS cpu, decS c0, decB b, decPair v, decOS a with
    | some vs, some cpu, some c0, some b, some v, some a => encEList (macPlatforms vs cpu c0 b v a)
    | _, _, _, _, _, _ => "bad-arg"
  | _ => "bad-op"

def opMacFormats : List String → String
  | [v, a] => match decPair v, decS a with
    | some (some (x, y)), some a => encList (macBinaryFormats [x, y] a)
    | _, _ => "bad-arg"
  | _ => "bad-op"

def opMacArch : List String → String
  | [a, b] => match decS a, decB b with
    | some a, some b => encS (macArch a b)
    | _, _ => "bad-arg"
  | _ => "bad-op"

def opIos : List String → String
  | [r, pm, v, m] => match decS r, decS pm, decPair v, decOS m with
    | some r, some pm, some v, some m => encEList (iosPlatforms r pm v m)
    | _, _, _, _ => "bad-arg"
  | _ => "bad-op"

def opElfParse : List String → String
  | [b] => match decBytes b with
    | some (some f) => (match parse f with
      | none => "err ELFInvalid"
      | some h => s!"ok {h.capacity},{h.encoding},{h.machine},{h.flags},{h.phoff},{h.phentsize},{h.phnum}")
    | _ => "bad-arg"
  | _ => "bad-op"

def opElfInterp : List String → String
  | [b] => match decBytes b with
    | some (some f) => (match parse f with
      | none => "err ELFInvalid"
      | some h => match interpreter f h with
        | .error _ => "err ELFInvalid"
        | .ok none => "~"
        | .ok (some p) => "ok b" ++ encHex p)
    | _ => "bad-arg"
  | _ => "bad-op"

/-! reference sequences -/
def opSpecManylinux : List String → String
  | [g, a, pol, ok] => match decPair g, decOStrs a, decPolicy pol, decB ok with
    | some (some g), some (some a), some pol, some ok =>
      encList (PlatSpec.manylinuxSpec g a (PlatSpec.policyAllows pol) ok (fun M => (lastGlibcMinor M).toNat))
    | _, _, _, _ => "bad-arg"
  | _ => "bad-op"

def opSpecMusllinux : List String → String
  | [v, a] => match decPair v, decOStrs a with
    | some (some v), some (some a) => encList (PlatSpec.musllinuxSpec v a)
    | _, _ => "bad-arg"
  | _ => "bad-op"

def opSpecMac : List String → String
  | [v, a] => match decPair v, decS a with
    | some (some v), some a => encList (PlatSpec.macSpec v a)
    | _, _ => "bad-arg"
  | _ => "bad-op"

def opSpecIos : List String → String
  | [v, a] => match decPair v, decS a with
    | some (some v), some a => encList (PlatSpec.iosSpec v a)
    | _, _ => "bad-arg"
  | _ => "bad-op"

def ops : List (String × (List String → String)) :=
  [ ("plat.manylinux", opManylinux), ("plat.musllinux", opMusllinux), ("plat.linux", opLinux),
    ("plat.glibc", opGlibc), ("plat.glibc_parse", opGlibcParse), ("plat.musl_parse", opMuslParse),
    ("plat.mac", opMac), ("plat.mac_formats", opMacFormats), ("plat.mac_arch", opMacArch), ("plat.ios", opIos),
    ("elf.parse", opElfParse), ("elf.interp", opElfInterp),
    ("s.plat.manylinux", opSpecManylinux), ("s.plat.musllinux", opSpecMusllinux),
    ("s.plat.mac", opSpecMac), ("s.plat.ios", opSpecIos) ]

end DriverPlat
