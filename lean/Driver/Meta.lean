import PkgModel.Metadata
import PkgModel.Email
/-! driver operations for the metadata models (C17: `meta.*`, C18: `email.*`)

Argument syntax (atoms as in `Py.encS`; `_` is the empty list at argument level):
* value  : `n` | `s<atom>` | `l<atom>,<atom>…` | `d<atom>=<atom>,…`
* dict   : `<key>><value>;…`
* oracle : `<kind>:<atom>:<answer>;…`  kinds `n v s r l` (answer `o<atom>` | `b` | `x<atom>`),
           `c` (answer `p<ctype>,<charset|~>,<variant|~>` | `b` | `x<atom>`), `L` / `wp` (answer `<atom>`), `pa` / `wa` (`0`/`1`)
* hdrs   : `<name>><hval>;…` with hval `s<atom>` | `h<bytes>,<bytes>…` | `e<atom>`
* payload: `s<atom>` | `b<bytes>` | `o`
-/
namespace DriverMeta
open Py Meta Email Gen.Meta

def splitL (sep : String) (s : String) : List String :=
  if s == "_" || s == "" then [] else s.splitOn sep

def mapM' {α β} (f : α → Option β) : List α → Option (List β)
  | [] => some []
  | a :: r => do let b ← f a; let bs ← mapM' f r; pure (b :: bs)

def decAtoms (s : String) : Option (List Str) := mapM' decS (splitL "," s)

/-- split at the first occurrence of a separator character -/
def cut (sep : Char) (s : String) : Option (String × String) :=
  match s.splitOn (String.singleton sep) with
  | a :: b :: r => some (a, (String.singleton sep).intercalate (b :: r))
  | _ => none

def decVal (s : String) : Option Val :=
  match s.toList with
  | 'n' :: [] => some .none
  | 's' :: r => (decS (String.ofList r)).map .str
  | 'l' :: r => (decAtoms (String.ofList r)).map .list
  | 'd' :: r =>
    (mapM' (fun e => do
      let (k, v) ← cut '=' e
      pure ((← decS k), (← decS v))) (splitL "," (String.ofList r))).map .dict
  | _ => none

def decDict (s : String) : Option Dict :=
  mapM' (fun e => do
    let (k, v) ← cut '>' e
    pure ((← decS k), (← decVal v))) (splitL ";" s)

def decVerdict (s : String) : Option Verdict :=
  match s.toList with
  | 'o' :: r => (decS (String.ofList r)).map .ok
  | 'b' :: [] => some .bad
  | 'x' :: r => (decS (String.ofList r)).map .esc
  | _ => none

def decCT (s : String) : Option CTVerdict :=
  match s.toList with
  | 'x' :: r => (decS (String.ofList r)).map .esc
  | 'b' :: [] => some .bad
  | 'p' :: r =>
    match (String.ofList r).splitOn "," with
    | [a, b, c] => do pure (.parsed (← decS a) (← decOS b) (← decOS c))
    | _ => none
  | _ => none

structure Tab where
  verdicts : List (String × Str × Verdict) := []
  cts : List (Str × CTVerdict) := []
  strs : List (String × Str × Str) := []
  bools : List (String × Str × Bool) := []

def decTab (s : String) : Option Tab :=
  (splitL ";" s).foldlM (fun (t : Tab) e =>
    match e.splitOn ":" with
    | [kind, key, ans] => do
      let k ← decS key
      if kind == "c" then pure { t with cts := (k, (← decCT ans)) :: t.cts }
      else if kind == "L" || kind == "wp" then pure { t with strs := (kind, k, (← decS ans)) :: t.strs }
      else if kind == "pa" || kind == "wa" then pure { t with bools := (kind, k, ans == "1") :: t.bools }
      else pure { t with verdicts := (kind, k, (← decVerdict ans)) :: t.verdicts }
    | _ => none) {}

def Tab.verdict (t : Tab) (kind : String) (s : Str) : Verdict :=
  match t.verdicts.find? (fun e => e.1 == kind && e.2.1 == s) with
  | some e => e.2.2
  | none => .esc (ofString "MissingOracle")

def Tab.str (t : Tab) (kind : String) (s : Str) : Str :=
  match t.strs.find? (fun e => e.1 == kind && e.2.1 == s) with
  | some e => e.2.2
  | none => ofString "<missing oracle>"

def Tab.bool (t : Tab) (kind : String) (s : Str) : Bool :=
  match t.bools.find? (fun e => e.1 == kind && e.2.1 == s) with
  | some e => e.2.2
  | none => true

def Tab.oracle (t : Tab) : Oracle where
  name := t.verdict "n"
  version := t.verdict "v"
  spec := t.verdict "s"
  req := t.verdict "r"
  lic := t.verdict "l"
  ctype s := match t.cts.find? (·.1 == s) with | some e => e.2 | none => .esc (ofString "MissingOracle")
  lower := t.str "L"
  posixAbs := t.bool "pa"
  winAbs := t.bool "wa"
  winPosix := t.str "wp"

/-! ### output -/

def sortStrs (l : List Str) : List Str := sortBy strLe l
def sortKV {β} (l : List (Str × β)) : List (Str × β) := sortBy (fun a b => strLe a.1 b.1) l

def encAtoms (l : List Str) : String := ",".intercalate (l.map encS)

def encVal : Val → String
  | .none => "n"
  | .str s => "s" ++ encS s
  | .list l => "l" ++ encAtoms l
  | .dict d => "d" ++ ",".intercalate ((sortKV d).map fun (k, v) => encS k ++ "=" ++ encS v)

def encRead : Except Exc Val → String
  | .ok v => "v" ++ encVal v
  | .error (.invalid f) => "e" ++ encS f
  | .error (.escape c) => "x" ++ encS c

def encOutcome (o : Oracle) (rd : List Str) : Outcome → String
  | .raised c => "raw " ++ toStringLossy c
  | .group es => "err ExceptionGroup " ++ encAtoms es      -- in the order raised
  | .ok st =>
    let (rs, st') := reads o rd st
    "ok " ++ ";".intercalate (rs.map encRead) ++ "|" ++ encAtoms (sortStrs (akeys st'.raw))
      ++ "|" ++ encAtoms (sortStrs (akeys st'.cache))

/-- `meta.run oracle order validate data reads` -/
def opRun : List String → String
  | [tab, ks, val, data, rd] =>
    match decTab tab, decAtoms ks, decDict data, decAtoms rd with
    | some t, some ks, some d, some rd => encOutcome t.oracle rd (fromRaw t.oracle ks d (val == "1"))
    | _, _, _, _ => "bad-arg"
  | _ => "bad-op"

/-- `meta.fields data` — the canonical `fields_to_check` (as a sorted set) -/
def opFields : List String → String
  | [data] => match decDict data with
    | some d => encAtoms (sortStrs (fieldsToCheck d))
    | none => "bad-arg"
  | _ => "bad-op"

/-! ### C18 -/

def decBytes (s : String) : Option (List Nat) := decS s

def decHVal (s : String) : Option HVal :=
  match s.toList with
  | 's' :: r => (decS (String.ofList r)).map .str
  | 'h' :: r => (mapM' decBytes (splitL "," (String.ofList r))).map .hdr
  | 'e' :: r => (decS (String.ofList r)).map .err
  | _ => none

def decHdrs (s : String) : Option (List (Str × HVal)) :=
  mapM' (fun e => do
    let (k, v) ← cut '>' e
    pure ((← decS k), (← decHVal v))) (splitL ";" s)

def decPayload (s : String) : Option Payload :=
  match s.toList with
  | 's' :: r => (decS (String.ofList r)).map .str
  | 'b' :: r => (decBytes (String.ofList r)).map .bytes
  | 'o' :: [] => some .other
  | _ => none

def encUVal : UVal → String
  | .str s => "s" ++ encS s
  | .bytes b => "b" ++ encS b

def encParsed (r : Dict × Unparsed) : String :=
  ";".intercalate ((sortKV r.1).map fun (k, v) => encS k ++ ">" ++ encVal v) ++ "|" ++
  ";".intercalate ((sortKV r.2).map fun (k, vs) => encS k ++ ">" ++ ",".intercalate (vs.map encUVal))

/-- `email.parse doc order hdrs payload` (`doc`, the document text, is for the implementation side only) -/
def opParse : List String → String
  | [_, order, hdrs, payload] =>
    match decAtoms order, decHdrs hdrs, decPayload payload with
    | some order, some hdrs, some payload =>
      match parseEmail { hdrs := hdrs, payload := payload } order with
      | .ok r => "ok " ++ encParsed r
      | .error c => "raw " ++ toStringLossy c
    | _, _, _ => "bad-arg"
  | _ => "bad-op"

/-- `meta.email doc oracle ks order validate hdrs payload reads` — `from_email` = `parse_email` then `from_raw` -/
def opEmail : List String → String
  | [_, tab, ks, order, val, hdrs, payload, rd] =>
    match decTab tab, decAtoms ks, decAtoms order, decHdrs hdrs, decPayload payload, decAtoms rd with
    | some t, some ks, some order, some hdrs, some payload, some rd =>
      match parseEmail { hdrs := hdrs, payload := payload } order with
      | .error c => "raw " ++ toStringLossy c
      | .ok (raw, unp) => encOutcome t.oracle rd (fromEmail t.oracle ks raw (sortStrs (akeys unp)) (val == "1"))      -- unparsed keys: as a sorted list
    | _, _, _, _, _, _ => "bad-arg"
  | _ => "bad-op"

/-- `email.utf8 bytes` — the strict decoder alone -/
def opUtf8 : List String → String
  | [b] => match decBytes b with
    | some bs => match utf8Decode bs with | some s => "ok " ++ encS s | none => "err UnicodeDecodeError"
    | none => "bad-arg"
  | _ => "bad-op"

def ops : List (String × (List String → String)) :=
  [ ("meta.run", opRun), ("meta.fields", opFields), ("meta.email", opEmail),
    ("email.parse", opParse), ("email.utf8", opUtf8) ]

end DriverMeta
