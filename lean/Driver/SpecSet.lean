import PkgModel.SpecifierSet
import Driver.Spec
/-!
driver operations for the SpecifierSet model

A set is described by two atoms `src ov`:
* `src` = `s:<str>`  — `SpecifierSet(<str>, prereleases=ov)`
* `src` = `l:<clause>;<ob>,<clause>;<ob>,…` — `SpecifierSet([Specifier(clause, prereleases=ob), …], prereleases=ov)`
`order` = the member strings in the implementation's iteration order (`e` for the empty set, `=` for
"insertion order"); it must be a permutation of the model's members, else `bad-perm`.
`hist` = assignments to `.prereleases` (`~`,`0`,`1`) and reading calls (`c`), `-` when empty.
-/
namespace DriverSpecSet
open Py V S SSet DriverSpec

def encErr (e : String) : String :=
  if e == "InvalidSpecifier" || e == "ValueError" then "err " ++ e else "raw " ++ e

def encOB : Option Bool → String
  | none => "~" | some true => "1" | some false => "0"

def decHist (s : String) : Option (List Ev) :=
  if s == "-" then some [] else
  s.toList.mapM fun c =>
    if c == '~' then some (Ev.set none) else if c == '1' then some (Ev.set (some true))
    else if c == '0' then some (Ev.set (some false)) else if c == 'c' then some Ev.call else none

def decMember (s : String) : Option (Str × Option Bool) :=
  match s.splitOn ";" with
  | [c, o] => (match decS c, decOB o with | some c, some o => some (c, o) | _, _ => none)
  | _ => none

/-- `Specifier(clause, prereleases=o)` for each list element; `none` is `InvalidSpecifier` -/
def parseMembers : List (Str × Option Bool) → Option (List Member)
  | [] => some []
  | (c, o) :: r =>
    match parseSpec c with
    | none => none
    | some sp => (match parseMembers r with | none => none | some l => some ((sp, o) :: l))

/-- outer `none`: malformed request -/
def buildSet (src ov : String) : Option (R SpecSet) :=
  match decOB ov with
  | none => none
  | some o =>
    if src.startsWith "s:" then
      (decS (src.drop 2).toString).map fun s => ofString s o
    else if src.startsWith "l:" then
      let body := (src.drop 2).toString
      let parts := if body == "" then some [] else (body.splitOn ",").mapM decMember
      parts.map fun ps =>
        match parseMembers ps with
        | none => .error "InvalidSpecifier"
        | some ms => ofSpecs ms o
    else none

/-- the iteration order announced by the implementation, as a reordering of the model's members -/
def reorder (specs : List Member) (order : String) : Option (List Member) :=
  if order == "=" then some specs
  else if order == "e" then (if specs.isEmpty then some [] else none)
  else match decStrs order with
    | none => none
    | some strs =>
      if strs.length != specs.length then none
      else if !(specs.all fun m => strs.contains m.1.str) then none
      else strs.mapM fun s => specs.find? fun m => m.1.str == s

def applyHist (ss : SpecSet) (h : List Ev) : SpecSet := { ss with pre := runHist ss.pre h }

/-- common prologue: build, apply the history, reorder -/
def withSet (src ov hist order : String) (k : SpecSet → List Member → String) : String :=
  match buildSet src ov, decHist hist with
  | some (.ok ss), some h =>
    let ss := applyHist ss h
    (match reorder ss.specs order with
     | some it => k ss it
     | none => "bad-perm")
  | some (.error e), some _ => encErr e
  | _, _ => "bad-arg"

def encMembers (l : List Member) : String :=
  let strs := sortBy strLe (l.map fun m => m.1.str)
  ",".intercalate (strs.map fun s =>
    match l.find? fun m => m.1.str == s with
    | some m => encS s ++ ";" ++ encOB m.2
    | none => encS s ++ ";?")

def opParse : List String → String
  | [src, ov] => withSet src ov "-" "=" fun ss _ =>
      "ok " ++ toString ss.len ++ " " ++ encMembers ss.specs ++ " rt=" ++ encB (ss.specs.all fun m => roundtrips m.1)
  | _ => "bad-op"

def opStr : List String → String
  | [src, ov, order] => withSet src ov "-" order fun ss it => "ok " ++ encS (ss.str it)
  | _ => "bad-op"

def opPre : List String → String
  | [src, ov, hist, order] => withSet src ov hist order fun ss it =>
      match ss.prereleases it with
      | .ok p => "ok " ++ encOB p
      | .error e => encErr e
  | _ => "bad-op"

def opContains : List String → String
  | [src, ov, hist, order, c, p, i] => withSet src ov hist order fun ss it =>
      match decS c, decOB p, decOB i with
      | some cs, some pre, some inst =>
        (match scan cs with
         | none => "raw InvalidVersion"
         | some v => match ss.contains it v pre (truthy inst) with
           | .ok b => encB b
           | .error e => encErr e)
      | _, _, _ => "bad-arg"
  | _ => "bad-op"

def opAnd : List String → String
  | [sa, oa, sb, ob] =>
    match buildSet sa oa, buildSet sb ob with
    | some (.ok a), some (.ok b) =>
      (match a.and b with
       | .ok r => "ok " ++ toString r.len ++ " " ++ encMembers r.specs ++ " " ++ encOB r.pre
       | .error e => encErr e)
    | some (.error e), some _ => encErr e
    | some (.ok _), some (.error e) => encErr e
    | _, _ => "bad-arg"
  | _ => "bad-op"

/-- `(a & b).contains(cand, prereleases=p, installed=i)`, `order` being the iteration order of the result -/
def opAndContains : List String → String
  | [sa, oa, sb, ob, order, c, p, i] =>
    match buildSet sa oa, buildSet sb ob with
    | some (.ok a), some (.ok b) =>
      (match a.and b with
       | .error e => encErr e
       | .ok r =>
         match reorder r.specs order, decS c, decOB p, decOB i with
         | none, _, _, _ => "bad-perm"
         | some it, some cs, some pre, some inst =>
           (match scan cs with
            | none => "raw InvalidVersion"
            | some v => match r.contains it v pre (truthy inst) with
              | .ok b => encB b
              | .error e => encErr e)
         | _, _, _, _ => "bad-arg")
    | some (.error e), some _ => encErr e
    | some (.ok _), some (.error e) => encErr e
    | _, _ => "bad-arg"
  | _ => "bad-op"

def opEq : List String → String
  | [sa, oa, sb, ob] =>
    match buildSet sa oa, buildSet sb ob with
    | some (.ok a), some (.ok b) => encB (a.eq b) ++ "1"
    | some (.error e), some _ => encErr e
    | some (.ok _), some (.error e) => encErr e
    | _, _ => "bad-arg"
  | _ => "bad-op"

def opFilter : List String → String
  | [src, ov, hist, order, p, cs] => withSet src ov hist order fun ss it =>
      match decOB p, decStrs cs with
      | some pre, some cands =>
        -- `self.prereleases` is read before the first item is coerced
        let early : Option String := match pre with
          | some _ => none
          | none => (match ss.prereleases it with | .error e => some (encErr e) | .ok _ => none)
        (match early with
         | some e => e
         | none => match cands.mapM scan with
           | none => "raw InvalidVersion"
           | some vs => match ss.filter it pre ((List.range vs.length).zip vs) with
             | .ok idx => "ok " ++ encNats idx
             | .error e => encErr e)
      | _, _ => "bad-arg"
  | _ => "bad-op"

/-! `Specifier` with an assignment history (C06 "histories") -/

def withSpecHist (a ov hist : String) (k : Spec → Option Bool → String) : String :=
  match decS a, decOB ov, decHist hist with
  | some s, some o, some h =>
    (match parseSpec s with
     | none => "err InvalidSpecifier"
     | some sp => k sp (runHist o h))
  | _, _, _ => "bad-arg"

def opHPre : List String → String
  | [a, ov, hist] => withSpecHist a ov hist fun sp o => encR (sp.prereleases o)
  | _ => "bad-op"

def opHContains : List String → String
  | [a, ov, hist, c, p] => withSpecHist a ov hist fun _ o =>
      DriverSpec.opContains [a, encOB o, c, p]
  | _ => "bad-op"

def opHFilter : List String → String
  | [a, ov, hist, p, cs] => withSpecHist a ov hist fun _ o =>
      DriverSpec.opFilter [a, encOB o, p, cs]
  | _ => "bad-op"

def ops : List (String × (List String → String)) :=
  [ ("set.parse", opParse), ("set.str", opStr), ("set.pre", opPre), ("set.contains", opContains),
    ("set.and", opAnd), ("set.andcontains", opAndContains), ("set.eq", opEq), ("set.filter", opFilter),
    ("spec.h.pre", opHPre), ("spec.h.contains", opHContains), ("spec.h.filter", opHFilter) ]

end DriverSpecSet
