import Driver.Ver
import Driver.Rx
import Driver.Mk
