import Driver.Ver
import Driver.Rx
import Driver.Spec
import Driver.SpecSet

/-- every driver operation; each model area contributes its own table -/
def allDriverOps : List (String × (List String → String)) :=
  DriverVer.ops ++ DriverRx.ops ++ DriverSpec.ops ++ DriverSpecSet.ops
