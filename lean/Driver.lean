import Driver.Ver
import Driver.Rx
