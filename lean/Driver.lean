import Driver.Ver
