import Driver.Ver
import Driver.Rx
import Driver.Tags
import Driver.Platform
