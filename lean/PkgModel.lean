import PkgModel.Py
import PkgModel.Rx
import PkgModel.Version
