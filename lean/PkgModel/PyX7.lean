import PkgModel.PyRt
import PkgModel.PyRx
import PkgModel.PySet
import PkgModel.Repr
import PkgModel.Email
import PkgModel.PyElf
/-!
# PyX7 — run-time additions of the seventh translator round

* `repr(v)` (`{v!r}` in an f-string) for `None`, `bool`, `int` and **ASCII** `str` (printability of a non-ASCII code
  point is a table of the interpreter's Unicode data base: outside the run-time, `PyRtUnsupported`);
* `<compiled pattern>.split(s)` for a pattern that is one character class (the class is swept from the interpreter's
  regex parser by the translator, as for `PyRx.match_seq`);
* bound methods obtained by reflection (`getattr(self, f"_compare_{…}")`) as values: an object `method` that knows the
  function's name and the receiver.
-/
namespace PyRt
open Py

/-- `repr(v)` for the values an f-string of the selected functions formats with `!r` -/
def repr : PyVal → M Str
  | .str s => if isAsciiStr s then pure (reprAscii s) else throw "PyRtUnsupported"
  | .int i => pure (if i < 0 then 45 :: dec i.natAbs else dec i.toNat)
  | .bool true => pure (ofString "True")
  | .bool false => pure (ofString "False")
  | .none => pure (ofString "None")
  | _ => throw "PyRtUnsupported"

end PyRt

namespace PyX7
open Py PyRt

/-- `P.split(s)` for a compiled pattern `P` that is a single character class (no groups, never an empty match) -/
def re_split_class (t : List (Nat × Nat)) (s : PyVal) : M PyVal :=
  match s with
  | .str s => pure (.list ((splitBy (PyRx.inRanges t) s).map .str))
  | _ => throw typeError

/-- the bound method `getattr(self, name)` for a name among the functions `methods` the class defines; any other
name is `AttributeError` (instance attributes never carry such names for the classes that use this) -/
def bound_method (methods : List String) (self name : PyVal) : M PyVal :=
  match name with
  | .str n =>
    if methods.any (fun m => ofString m == n) then pure (.obj "method" [("name", .str n), ("self", self)])
    else throw attributeError
  | _ => throw typeError

/-- `D[k]` on a class-level dict of constants (its current contents) -/
def const_dict_getitem (kvs : List (PyVal × PyVal)) (k : PyVal) : M PyVal :=
  match kvs.find? (fun kv => PyVal.eq kv.1 k) with
  | some kv => pure kv.2
  | Option.none => throw "KeyError"

end PyX7

/-! ## exceptions as objects

Code translated in earlier rounds raises *class names* (`M = Except PyExc`).  The functions of this round that handle exception
*objects* (`except C as e`, `exceptions.append(e)`, `raise ExceptionGroup(msg, list)`) run in `MX = Except Exc`: an exception
in flight is either a legacy class name (raised by a callee in `M`, lifted) or an object `obj cls fields`.  What an exception
object keeps: its class and the attributes its own `__init__` sets (`InvalidMetadata.field`); the message (`args`),
`__cause__`, `__context__`, `__traceback__` and notes are not kept.  An `ExceptionGroup` keeps `.exceptions` (a tuple). -/
namespace PyX7
open Py PyRt

inductive Exc where
  | cls (c : PyExc)
  | obj (v : PyVal)
  deriving Inhabited

abbrev MX := Except Exc

def liftX {α} : M α → MX α
  | .ok a => .ok a
  | .error c => .error (.cls c)

instance : MonadLift M MX := ⟨liftX⟩

/-- the class of an exception in flight -/
def excClass : Exc → String
  | .cls c => c
  | .obj v => className v

/-- the value `except C as e` binds: a legacy exception appears as an object of its class without attributes -/
def excValue : Exc → PyVal
  | .cls c => .obj c []
  | .obj v => v

def catchesX (handler : PyExc) (e : Exc) : Bool := PyRt.catches handler (excClass e)

/-- `raise <object>` -/
def raise_obj {α} (v : PyVal) : MX α := .error (.obj v)

/-- for `src.call`: an escaping exception object is answered as the value `raised{exc=…}`, a legacy one by its class -/
def runX : MX PyVal → M PyVal
  | .ok v => .ok v
  | .error (.cls c) => .error c
  | .error (.obj v) => .ok (.obj "raised" [("exc", v)])

/-- `ExceptionGroup(msg, excs)`: the message is not kept; an empty sequence is `ValueError` -/
def exception_group (excs : PyVal) : M PyVal :=
  match excs with
  | .list l => if l.isEmpty then throw valueError else pure (.obj "ExceptionGroup" [("exceptions", .tuple l)])
  | .tuple l => if l.isEmpty then throw valueError else pure (.obj "ExceptionGroup" [("exceptions", .tuple l)])
  | _ => throw typeError

/-! ## class and instance dictionaries, the descriptor protocol -/

/-- `cls.__dict__.get(key)` restricted to what the caller can tell apart: the descriptor objects of the class
(`table`, generated from the class) or `None`-like for every other entry / missing key -/
def class_dict_get (table : List (Str × PyVal)) (key : PyVal) : M PyVal :=
  if !hashable key then throw typeError else
  match key with
  | .str k => pure (match table.find? (fun kv => kv.1 == k) with | some kv => kv.2 | Option.none => .none)
  | _ => pure .none

/-- the instance `__dict__` (the field list of the record) looked up by a run-time name: `(v,)` or `None` -/
def inst_lookup (o key : PyVal) : M PyVal :=
  match o, key with
  | .obj _ fs, .str k => pure (match lookupField fs (toStringLossy k) with | some v => .tuple [v] | Option.none => .none)
  | .obj _ _, _ => throw typeError
  | _, _ => throw attributeError

/-- `L.index(x)` for a list constant -/
def list_index (l x : PyVal) : M PyVal :=
  match l with
  | .list xs | .tuple xs =>
    (match xs.findIdx? (fun y => PyVal.eq y x) with
     | some i => pure (.int i)
     | Option.none => throw valueError)
  | _ => throw attributeError

/-! ## sets of plain values (strings) -/

/-- `frozenset(d)` for a dict: its keys -/
def set_of_keys (d : PyVal) : M PyVal :=
  match d with
  | .dict kvs => pure (PyRx.mkSet "frozenset" (kvs.map (·.1)))
  | _ => throw typeError

def memPlain (x : PyVal) (l : List PyVal) : Bool := l.any fun y => PyVal.eq y x

/-- `a | b` on sets of plain values: members of `a`, then the members of `b` not yet present -/
def set_union_plain (a b : PyVal) : M PyVal :=
  match PyRx.setItems a, PyRx.setItems b with
  | some la, some lb => pure (PyRx.mkSet "frozenset" (la ++ lb.filter fun y => !memPlain y la))
  | _, _ => throw typeError

/-- `a - b` on sets of plain values -/
def set_diff_plain (a b : PyVal) : M PyVal :=
  match PyRx.setItems a, PyRx.setItems b with
  | some la, some lb => pure (PyRx.mkSet "frozenset" (la.filter fun x => !memPlain x lb))
  | _, _ => throw typeError

/-- `sorted(xs, key=str)` for members that are `str` (then `key=str` is the identity); anything else is outside the run-time -/
def sorted_key_str (xs : PyVal) : M PyVal := PySet.sorted_ xs

end PyX7

namespace PyX7
open Py PyRt

/-- `k in D` for a module-level dict of constants (its keys) -/
def const_keys_contains (keys : List PyVal) (k : PyVal) : M PyVal :=
  if !hashable k then throw typeError else pure (.bool (keys.any fun y => PyVal.eq y k))

end PyX7

/-! ## `email.message.Message` as data

What `email.parser` hands to `parse_email` enters as a value `obj "Message" fields` (exactly the data `PkgModel/Email.lean` takes):
`headers` — the list of `(name, value)` in document order, a value being a `str`, a `Header` object `obj "Header" [("chunks", [bytes…])]`
(what `email.header.decode_header` returns for it) or `obj "HeaderErr" [("cls", name)]` (`decode_header` raises); `payload` — `get_payload()`;
`decoded` / `decoded_cte` — `get_payload(decode=True)` without / with a `Content-Transfer-Encoding` header in the message. -/
namespace PyX7
open Py PyRt

def msgHeaders (m : PyVal) : Option (List PyVal) :=
  match m with
  | .obj "Message" fs => (match lookupField fs "headers" with | some (.list l) => some l | _ => Option.none)
  | _ => Option.none

def headerName : PyVal → Str
  | .tuple [.str n, _] => n
  | _ => []

/-- `del msg[name]`: every header of that name (ASCII case-insensitive) goes; no error when there is none -/
def msg_del (m name : PyVal) : M PyVal :=
  match m, name, msgHeaders m with
  | .obj c fs, .str n, some hs =>
    pure (.obj c (setField fs "headers" (.list (hs.filter fun h => lowerStr (headerName h) != lowerStr n))))
  | _, _, _ => throw typeError

def hasHeader (m : PyVal) (n : Str) : Bool :=
  match msgHeaders m with
  | some hs => hs.any fun h => lowerStr (headerName h) == lowerStr n
  | Option.none => false

/-- `msg.get_payload(decode=d)` -/
def msg_get_payload (m d : PyVal) : M PyVal :=
  if truthy d then
    getattr m (if hasHeader m (ofString "content-transfer-encoding") then "decoded_cte" else "decoded")
  else getattr m "payload"

end PyX7

namespace PyX7
open Py PyRt

/-- `b.decode("utf8", "strict")` (`Email.utf8Decode`: no overlong forms, no surrogates, nothing above U+10FFFF) -/
def bytes_decode_utf8 (b : PyVal) : M PyVal :=
  match PyElf.bytesOf b with
  | some bs => (match Email.utf8Decode bs with | some s => pure (.str s) | Option.none => throw "UnicodeDecodeError")
  | Option.none => throw attributeError

end PyX7
