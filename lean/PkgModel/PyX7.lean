import PkgModel.PyRt
import PkgModel.PyRx
import PkgModel.Repr
/-!
# PyX7 — run-time additions of the seventh translator round

* `repr(v)` (`{v!r}` in an f-string) for `None`, `bool`, `int` and **ASCII** `str` (printability of a non-ASCII code
  point is a table of the interpreter's Unicode data base: outside the run-time, `PyRtUnsupported`);
* `<compiled pattern>.split(s)` for a pattern that is one character class (the class is swept from the interpreter's
  regex parser by the translator, as for `PyRx.match_seq`);
* bound methods obtained by reflection (`getattr(self, f"_compare_{…}")`) as values: an object `method` that knows the
  function's name and the receiver.
-/
namespace PyRt
open Py

/-- `repr(v)` for the values an f-string of the selected functions formats with `!r` -/
def repr : PyVal → M Str
  | .str s => if isAsciiStr s then pure (reprAscii s) else throw "PyRtUnsupported"
  | .int i => pure (if i < 0 then 45 :: dec i.natAbs else dec i.toNat)
  | .bool true => pure (ofString "True")
  | .bool false => pure (ofString "False")
  | .none => pure (ofString "None")
  | _ => throw "PyRtUnsupported"

end PyRt

namespace PyX7
open Py PyRt

/-- `P.split(s)` for a compiled pattern `P` that is a single character class (no groups, never an empty match) -/
def re_split_class (t : List (Nat × Nat)) (s : PyVal) : M PyVal :=
  match s with
  | .str s => pure (.list ((splitBy (PyRx.inRanges t) s).map .str))
  | _ => throw typeError

/-- the bound method `getattr(self, name)` for a name among the functions `methods` the class defines; any other
name is `AttributeError` (instance attributes never carry such names for the classes that use this) -/
def bound_method (methods : List String) (self name : PyVal) : M PyVal :=
  match name with
  | .str n =>
    if methods.any (fun m => ofString m == n) then pure (.obj "method" [("name", .str n), ("self", self)])
    else throw attributeError
  | _ => throw typeError

/-- `D[k]` on a class-level dict of constants (its current contents) -/
def const_dict_getitem (kvs : List (PyVal × PyVal)) (k : PyVal) : M PyVal :=
  match kvs.find? (fun kv => PyVal.eq kv.1 k) with
  | some kv => pure kv.2
  | Option.none => throw "KeyError"

end PyX7
