import PkgModel.Py
import PkgModel.Generated.TagTables
/-!
# Tags — model of the interpreter-tag generators of `packaging/tags.py` (C15)

`cpython_tags`, `_cpython_abis`, `_is_threaded_cpython`, `_abi3_applies`, `_generic_abi`,
`generic_tags`, `_py_interpreter_range`, `compatible_tags`, `interpreter_name`,
`interpreter_version`, `sys_tags` as pure functions of their explicit arguments and of a
configuration record `Cfg` standing for the interpreter probes (`sys.version_info`,
`sys.implementation.name`, `sysconfig.get_config_var`, `hasattr(sys, "gettotalrefcount")`,
`EXTENSION_SUFFIXES`, `sys.maxunicode`, and the list `platform_tags()` evaluates to).

The code is mirrored as it is: `list.remove` of the *first* explicit `abi3`/`none`, the threaded
test on the *first remaining* ABI, `not python_version`, `not interpreter`, Python's tuple comparison on version tuples, and `Tag`'s
lower-casing of all three components.

Strings are ASCII here: `str.lower` is modelled by `Py.lowerStr` and `\d` by `Py.isDigit`.
-/
namespace Tags
open Py

/-! ## string constants (code points) -/
def sCp : Str := [99, 112]
def sPy : Str := [112, 121]
def sPp : Str := [112, 112]
def sPp3 : Str := [112, 112, 51]
def sAbi3 : Str := [97, 98, 105, 51]
def sNone : Str := [110, 111, 110, 101]
def sAny : Str := [97, 110, 121]
def sCpython : Str := [99, 112, 121, 116, 104, 111, 110]
def sPypy : Str := [112, 121, 112, 121]
def sGraalpy : Str := [103, 114, 97, 97, 108, 112, 121]
def sDebugExt : Str := [95, 100, 46, 112, 121, 100]   -- "_d.pyd"

/-- a tag triple as `Tag.__init__` stores it -/
structure Tag where
  interp : Str
  abi : Str
  plat : Str
deriving DecidableEq, Repr

/-- `Tag(interpreter, abi, platform)`: every component is lower-cased -/
def mkTag (i a p : Str) : Tag := ⟨lowerStr i, lowerStr a, lowerStr p⟩

/-- a `sysconfig.get_config_var` value: `None`, an int or a str -/
inductive CV where
  | none
  | int (n : Nat)
  | str (s : Str)
deriving DecidableEq, Repr

namespace CV
def truthy : CV → Bool
  | .none => false
  | .int n => n != 0
  | .str s => !s.isEmpty
def isNone : CV → Bool
  | .none => true
  | _ => false
/-- `str(value)` -/
def toStr : CV → Str
  | .none => [78, 111, 110, 101]
  | .int n => dec n
  | .str s => s
end CV

/-- the interpreter probes -/
structure Cfg where
  /-- `sys.version_info[:2]` -/
  sysVersion : List Nat
  /-- `sys.implementation.name` -/
  implName : Str
  /-- config var `py_version_nodot` -/
  pyVersionNodot : CV
  pyDebug : CV
  gilDisabled : CV
  withPymalloc : CV
  unicodeSize : CV
  /-- `hasattr(sys, "gettotalrefcount")` -/
  hasRefcount : Bool
  /-- `"_d.pyd" in EXTENSION_SUFFIXES` -/
  hasDebugExt : Bool
  /-- `sys.maxunicode == 0x10FFFF` -/
  maxUnicodeWide : Bool
  extSuffix : CV
  /-- `list(platform_tags())` (the subject of C16) -/
  detected : List Str
deriving Repr

/-! ## helpers -/

/-- `_version_nodot`: `"".join(map(str, version))` -/
def versionNodot (v : List Nat) : Str := (v.map dec).flatten

/-- Python `<` on tuples of ints -/
def tupLt : List Nat → List Nat → Bool
  | [], [] => false
  | [], _ :: _ => true
  | _ :: _, [] => false
  | a :: as, b :: bs => if a == b then tupLt as bs else a < b
/-- Python `>=` on tuples of ints -/
def tupGe (a b : List Nat) : Bool := !tupLt a b

/-- `range(hi - 1, lo - 1, -1)` for naturals: `hi-1, hi-2, …, lo` -/
def rangeDown : Nat → Nat → List Nat
  | 0, _ => []
  | h + 1, lo => if lo ≤ h then h :: rangeDown h lo else []

/-- `_normalize_string`: `.`, `-`, space ↦ `_` -/
def normalizeString (s : Str) : Str :=
  s.map fun c => if c == 46 || c == 45 || c == 32 then 95 else c

/-- substring test `x in s` for a one-character `x` -/
def hasChar (c : Nat) (s : Str) : Bool := s.contains c

/-- `_is_threaded_cpython(abis)`: `re.match(r"cp\d+(.*)", abis[0])` and `"t" in group(1)`;
    `.` does not match a newline, so the group is the text up to the first `\n`. -/
def isThreadedCpython : List Str → Bool
  | [] => false
  | a :: _ =>
    match a with
    | 99 :: 112 :: rest =>
      let dr := spanDigits rest
      if dr.1.isEmpty then false else hasChar 116 (dr.2.takeWhile (· != 10))
    | _ => false

/-- `_abi3_applies(python_version, threading)` -/
def abi3Applies (ver : List Nat) (threading : Bool) : Bool :=
  decide (ver.length > 1) && tupGe ver [3, 2] && !threading

/-- `_cpython_abis(py_version)` -/
def cpythonAbis (cfg : Cfg) (ver : List Nat) : List Str :=
  let version := versionNodot (ver.take 2)
  let debug : Str :=
    if cfg.pyDebug.truthy || (cfg.pyDebug.isNone && (cfg.hasRefcount || cfg.hasDebugExt)) then [100] else []
  let threading : Str :=
    if tupGe ver [3, 13] && cfg.gilDisabled.truthy then [116] else []
  if tupLt ver [3, 8] then
    let pymalloc : Str :=
      if cfg.withPymalloc.truthy || cfg.withPymalloc.isNone then [109] else []
    let ucs4 : Str :=
      if tupLt ver [3, 3] then
        (if cfg.unicodeSize == .int 4 || (cfg.unicodeSize.isNone && cfg.maxUnicodeWide) then [117] else [])
      else []
    [sCp ++ version ++ threading ++ debug ++ pymalloc ++ ucs4]
  else if !debug.isEmpty then
    [sCp ++ version ++ threading ++ debug, sCp ++ version ++ threading]
  else
    [sCp ++ version ++ threading ++ debug]

/-- `list(platform_tags() if platforms is None else platforms)` -/
def platformsOrDefault (cfg : Cfg) : Option (List Str) → List Str
  | none => cfg.detected
  | some l => l

/-- `if not python_version: python_version = sys.version_info[:2]` -/
def versionOrDefault (cfg : Cfg) : Option (List Nat) → List Nat
  | none => cfg.sysVersion
  | some [] => cfg.sysVersion
  | some v => v

/-- `cpython_tags(python_version, abis, platforms)` -/
def cpythonTags (cfg : Cfg) (ver : Option (List Nat)) (abis : Option (List Str))
    (plats : Option (List Str)) : List Tag :=
  let ver := versionOrDefault cfg ver
  let interp := sCp ++ versionNodot (ver.take 2)
  let abis := match abis with
    | some a => a
    | none => if ver.length > 1 then cpythonAbis cfg ver else []
  let abis := (abis.erase sAbi3).erase sNone
  let plats := platformsOrDefault cfg plats
  let useAbi3 := abi3Applies ver (isThreadedCpython abis)
  (abis.flatMap fun a => plats.map fun p => mkTag interp a p)
  ++ (if useAbi3 then plats.map fun p => mkTag interp sAbi3 p else [])
  ++ (plats.map fun p => mkTag interp sNone p)
  ++ (if useAbi3 then
        (rangeDown (ver.getD 1 0) 2).flatMap fun minor =>
          plats.map fun p => mkTag (sCp ++ versionNodot [ver.getD 0 0, minor]) sAbi3 p
      else [])

/-- `_generic_abi()`; `Except` carries the escaping exception's class name -/
def genericAbi (cfg : Cfg) : Except String (List Str) :=
  match cfg.extSuffix with
  | .str [] => .error "IndexError"                 -- `ext_suffix[0]` on the empty string
  | .str (c :: cs) =>
    if c != 46 then .error "SystemError" else
    let parts := splitOn 46 (c :: cs)
    if parts.length < 3 then .ok (cpythonAbis cfg cfg.sysVersion) else
    let soabi := parts.getD 1 []
    let dash := splitOn 45 soabi
    if startsWith soabi sCpython then
      match dash with
      | _ :: x :: _ => .ok [normalizeString (sCp ++ x)]
      | _ => .error "IndexError"
    else if startsWith soabi sCp then
      .ok [normalizeString (dash.headD [])]
    else if startsWith soabi sPypy then
      .ok [normalizeString (join [45] (dash.take 2))]
    else if startsWith soabi sGraalpy then
      .ok [normalizeString (join [45] (dash.take 3))]
    else if !soabi.isEmpty then
      .ok [normalizeString soabi]
    else .ok []
  | _ => .error "SystemError"

/-- `INTERPRETER_SHORT_NAMES.get(name) or name` -/
def interpreterName (cfg : Cfg) : Str :=
  match Gen.TagTables.interpreterShortNames.lookup cfg.implName with
  | some s => if s.isEmpty then cfg.implName else s
  | none => cfg.implName

/-- `interpreter_version()` -/
def interpreterVersion (cfg : Cfg) : Str :=
  if cfg.pyVersionNodot.truthy then cfg.pyVersionNodot.toStr else versionNodot (cfg.sysVersion.take 2)

/-- `generic_tags(interpreter, abis, platforms)` -/
def genericTags (cfg : Cfg) (interp : Option Str) (abis : Option (List Str))
    (plats : Option (List Str)) : Except String (List Tag) := do
  let interp := match interp with
    | some (c :: cs) => c :: cs
    | _ => interpreterName cfg ++ interpreterVersion cfg
  let abis ← match abis with
    | some a => pure a
    | none => genericAbi cfg
  let plats := platformsOrDefault cfg plats
  let abis := if abis.contains sNone then abis else abis ++ [sNone]
  pure (abis.flatMap fun a => plats.map fun p => mkTag interp a p)

/-- `_py_interpreter_range(py_version)` -/
def pyInterpreterRange (ver : List Nat) : List Str :=
  (if ver.length > 1 then [sPy ++ versionNodot (ver.take 2)] else [])
  ++ [sPy ++ dec (ver.getD 0 0)]
  ++ (if ver.length > 1 then
        (rangeDown (ver.getD 1 0) 0).map fun minor => sPy ++ versionNodot [ver.getD 0 0, minor]
      else [])

/-- `compatible_tags(python_version, interpreter, platforms)` -/
def compatibleTags (cfg : Cfg) (ver : Option (List Nat)) (interp : Option Str)
    (plats : Option (List Str)) : List Tag :=
  let ver := versionOrDefault cfg ver
  let plats := platformsOrDefault cfg plats
  ((pyInterpreterRange ver).flatMap fun v => plats.map fun p => mkTag v sNone p)
  ++ (match interp with
      | some (c :: cs) => [mkTag (c :: cs) sNone sAny]
      | _ => [])
  ++ ((pyInterpreterRange ver).map fun v => mkTag v sNone sAny)

/-- `sys_tags()` -/
def sysTags (cfg : Cfg) : Except String (List Tag) := do
  let name := interpreterName cfg
  let first ← if name == sCp then pure (cpythonTags cfg none none none) else genericTags cfg none none none
  let interp : Option Str :=
    if name == sPp then some sPp3
    else if name == sCp then some (sCp ++ interpreterVersion cfg)
    else none
  pure (first ++ compatibleTags cfg none interp none)

end Tags
