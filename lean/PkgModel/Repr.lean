import PkgModel.SpecifierSet
import PkgModel.Email
/-!
# Small model functions extracted in the seventh translator round (additions; nothing existing refers to them)

`repr()` of `Version`, `Specifier`, `SpecifierSet`, `_parse_local_version` as a function of the captured group,
`Version.parse`, the operator table behind `Specifier._get_operator`, `Specifier.__contains__`.
-/
namespace Py

/-- two lower-case hex digits -/
def hex2 (c : Nat) : Str :=
  let d := fun (n : Nat) => if n < 10 then 48 + n else 87 + n
  [d (c / 16 % 16), d (c % 16)]

/-- one character inside `repr(str)` with quote `q`, for a code point below 128 -/
def reprChar (q : Nat) (c : Nat) : Str :=
  if c == q || c == 92 then [92, c]
  else if c == 9 then [92, 116]
  else if c == 10 then [92, 110]
  else if c == 13 then [92, 114]
  else if c < 32 || c == 127 then [92, 120] ++ hex2 c
  else [c]

/-- `repr(s)` of an ASCII `str`: single quotes unless the text has a single quote and no double quote -/
def reprAscii (s : Str) : Str :=
  let q := if s.contains 39 && !s.contains 34 then 34 else 39
  q :: (s.flatMap (reprChar q)) ++ [q]

def isAsciiStr (s : Str) : Bool := s.all (· < 128)

end Py

namespace V
open Py

/-- `part.lower() if not part.isdigit() else int(part)` (`"".isdigit()` is false; `localSeg` is this on the non-empty
parts the version pattern captures: `localPart_eq_localSeg`) -/
def localPart (p : Str) : LSeg := if !p.isEmpty && p.all isDigit then .num (undec p) else .str (lowerStr p)

/-- `_parse_local_version(local)`: the captured group split at `[._-]`, numeric parts as ints, the others lower-cased -/
def parseLocalVersion : Option Str → Option (List LSeg)
  | none => none
  | some s => some ((splitBy isSep s).map localPart)

/-- `Version.__repr__` -/
def Ver.repr (v : Ver) : Str := ofString "<Version('" ++ v.str ++ ofString "')>"

/-- `version.parse(s)` is `Version(s)` -/
def parse (s : Str) : Option Ver := scan s

end V

namespace S
open Py V

/-- the class attribute `Specifier._operators`: operator text → suffix of the `_compare_*` method -/
def Op.method : Op → Str
  | .compatible => ofString "compatible" | .eq => ofString "equal" | .ne => ofString "not_equal"
  | .le => ofString "less_than_equal" | .ge => ofString "greater_than_equal" | .lt => ofString "less_than"
  | .gt => ofString "greater_than" | .arbitrary => ofString "arbitrary"

def allOps : List Op := [.compatible, .eq, .ne, .le, .ge, .lt, .gt, .arbitrary]

/-- the operator a text names (`KeyError` of `_operators[op]` is `none`) -/
def opOfStr (s : Str) : Option Op := allOps.find? fun o => o.str == s

/-- `Specifier._get_operator(op)`: the name of the bound method it hands back -/
def getOperator (s : Str) : Option Str := (opOfStr s).map fun o => ofString "_compare_" ++ o.method

/-- `f", prereleases={self.prereleases!r}" if self._prereleases is not None else ""` -/
def reprPre : Option Bool → Str
  | none => []
  | some true => ofString ", prereleases=True"
  | some false => ofString ", prereleases=False"

/-- `Specifier.__repr__` (ASCII text) -/
def Spec.repr (sp : Spec) (override : Option Bool) : Str :=
  ofString "<Specifier(" ++ reprAscii sp.str ++ reprPre override ++ ofString ")>"

/-- `Specifier.__contains__(item)` is `contains(item)` with the default `prereleases=None` -/
def Spec.dunderContains (sp : Spec) (override : Option Bool) (cand : Ver) : R Bool := sp.contains override cand none

end S

namespace SSet
open Py V S

/-- `SpecifierSet.__repr__` (ASCII text), for the iteration order `it` -/
def SpecSet.repr (T : SpecSet) (it : List Member) : Str :=
  Py.ofString "<SpecifierSet(" ++ reprAscii (T.str it) ++ reprPre T.pre ++ Py.ofString ")>"

end SSet

namespace Email
open Py

/-- `_get_payload(msg, source)` on the payload the parser presents (x7: extracted from `parseEmail`, which inlines it):
`.error` is the class of the exception that escapes -/
def getPayload : Payload → Except Str Str
  | .other => .error (ofString "AssertionError")
  | .str s => .ok s
  | .bytes b => match utf8Decode b with
    | some s => .ok s
    | none => .error (ofString "ValueError")

end Email
