import PkgModel.Rx
/-! GENERATED stub: the translator does not support this pattern (look-ahead). -/
namespace Gen.NormalizedRx
open Rx Rx.R
def supported : Bool := false
def nClasses : Nat := 1
def reps : List Nat := [0]
def kinds : List Nat := [0]
def ranges : List (Nat × Nat × Nat) := [(0, 1114111, 0)]
def rx : R := .empty
end Gen.NormalizedRx
