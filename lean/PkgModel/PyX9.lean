import PkgModel.PyX7
import PkgModel.PyTok
/-!
# PyX9 — run-time additions of the ninth translator round

## `parse_email` (C18)

* the message the standard-library parser returns is the value `obj "Message" …` of `PyX7` (header list, payloads); the
  parser call itself is an oracle call whose key is the source text of the call;
* `parsed.keys()`, `parsed.get_all(name)` read the header list; `email.header.decode_header(h)` hands out the chunks the
  `Header` value carries (the charset of a chunk is never read by the code: `None`), `str(email.header.make_header(chunks))`
  is `Email.renderChunks` on the chunks decoded as `utf8` / `latin1`;
* a function that changes a message it was given (`del msg[k]` in `_get_payload`) runs in `SM = ExceptT PyExc (StateM PyVal)`:
  the message is the state, so the caller sees the change also when the call raises (`runSM`).

## `Tokenizer` methods (C07, C08, C09)

The methods of `packaging._tokenizer.Tokenizer` are translated from their source into `PyTok.TM`; what stays primitive is
the access to the fields of the state (`source`, `position`, `next_token`) and the match of one rule at the current position
(`rule_match`, over the regenerated rules).  The theorems of `Props/Src/Tokenizer.lean` identify the translated methods with
the primitives `PyTok.check/read/expect/consume/raise_syntax_error/enclosing_open/enclosing_close` the translated parser calls.
-/
namespace PyX9
open Py PyRt

/-! ## messages -/

/-- `msg.keys()`: header names in document order (with repetitions) -/
def msg_keys (m : PyVal) : M PyVal :=
  match PyX7.msgHeaders m with
  | some hs => pure (.list (hs.map fun h => .str (PyX7.headerName h)))
  | Option.none => throw attributeError

def headerValue : PyVal → PyVal
  | .tuple [_, v] => v
  | _ => .none

/-- `msg.get_all(name)`: the values of the headers of that name (ASCII case-insensitive), `None` when there is none -/
def msg_get_all (m name : PyVal) : M PyVal :=
  match PyX7.msgHeaders m, name with
  | some hs, .str n =>
    let vs := (hs.filter fun h => lowerStr (PyX7.headerName h) == lowerStr n).map headerValue
    pure (if vs.isEmpty then .none else .list vs)
  | some _, _ => throw attributeError
  | Option.none, _ => throw attributeError

/-- `email.header.decode_header(h)` for a `Header` value: its byte chunks (the charset is not kept: `None`); the class the
real call raised for a `HeaderErr` value -/
def decode_header (h : PyVal) : M PyVal :=
  match h with
  | .obj "Header" fs =>
    (match lookupField fs "chunks" with
     | some (.list cs) => pure (.list (cs.map fun b => .tuple [b, .none]))
     | _ => throw "PyRtUnsupported")
  | .obj "HeaderErr" fs =>
    (match lookupField fs "cls" with
     | some (.str c) => throw (toStringLossy c)
     | _ => throw "PyRtUnsupported")
  | _ => throw "PyRtUnsupported"

/-- one `(bytes, charset)` pair of `make_header`: the text and whether the charset is `utf8` -/
def chunkText (c : PyVal) : M (Str × Bool) :=
  match c with
  | .tuple [b, .str enc] =>
    (match PyElf.bytesOf b with
     | some bs =>
       if enc == ofString "utf8" then
         (match Email.utf8Decode bs with
          | some s => pure (s, true)
          | Option.none => throw "UnicodeDecodeError")
       else if enc == ofString "latin1" then pure (bs, false)
       else throw "PyRtUnsupported"
     | Option.none => throw typeError)
  | _ => throw "PyRtUnsupported"

/-- `str(email.header.make_header(chunks))` for chunks whose charsets are `utf8` / `latin1` -/
def make_header_str (chunks : PyVal) : M PyVal := do
  let l ← iterate chunks
  let cs ← l.mapM chunkText
  pure (.str (Email.renderChunks cs))

/-! ## a message that the callee changes: the message is the state -/

abbrev SM := ExceptT PyExc (StateM PyVal)

def liftSM {α} (x : M α) : SM α := ExceptT.mk (pure x)

instance : MonadLift M SM := ⟨liftSM⟩

/-- run a function on a message: what it returned or raised, and the message afterwards -/
def runSM (x : SM PyVal) (m : PyVal) : Except PyExc PyVal × PyVal := (ExceptT.run x).run m

/-- for `src.call`: `(result, message afterwards)`; an exception is answered as the value `raised{exc=<class>{}}` -/
def runWireSM (x : SM PyVal) (m : PyVal) : M PyVal :=
  match runSM x m with
  | (.ok v, m') => pure (.tuple [v, m'])
  | (.error c, m') => pure (.tuple [.obj "raised" [("exc", .obj c [])], m'])

/-! ## dicts of lists -/

/-- `d.setdefault(k, []).append(x)` / `.extend(xs)` on an owned dict whose values are owned lists: the updated dict -/
def dict_setdefault_append (d k x : PyVal) : M PyVal := do
  let (cur, d') ← dict_setdefault d k (.list [])
  dict_setitem d' k (← list_append cur x)

def dict_setdefault_extend (d k xs : PyVal) : M PyVal := do
  let (cur, d') ← dict_setdefault d k (.list [])
  dict_setitem d' k (← list_extend cur xs)

/-- `d[k].append(x)` on an owned dict whose values are owned lists -/
def dict_item_append (d k x : PyVal) : M PyVal := do
  dict_setitem d k (← list_append (← dict_getitem d k) x)

end PyX9

/-! ## the tokenizer's fields -/
namespace PyX9
open Py PyRt PyTok

/-- `self.source` -/
def source : TM PyVal := do let st ← get; return .str (st.pre ++ st.rest)

/-- the `Token` object for the pair the state keeps -/
def tokenObj (n t : Str) (pos : Nat) : PyVal :=
  .obj "Token" [("name", .str n), ("text", .str t), ("position", .int pos)]

/-- `self.next_token` -/
def next_token : TM PyVal := do
  let st ← get
  return match st.next with
    | Option.none => .none
    | some (n, t) => tokenObj n t st.pre.length

/-- `self.next_token = v`: `None` or a `Token` whose position is the current one (the state does not keep another) -/
def set_next_token (v : PyVal) : TM PyVal := do
  let st ← get
  match v with
  | .none => set { st with next := Option.none }; pure .none
  | .obj "Token" [("name", .str n), ("text", .str t), ("position", .int p)] =>
    if p == (st.pre.length : Int) then do set { st with next := some (n, t) }; pure .none
    else throw "PyRtUnsupported"
  | _ => throw "PyRtUnsupported"

/-- `self.position += k` -/
def advance (k : PyVal) : TM PyVal := do
  let st ← get
  match k with
  | .int i =>
    if i < 0 then throw "PyRtUnsupported" else
    let t := st.rest.take i.toNat
    set (St.mk (st.pre ++ t) (Mk.lastOr t st.prev) (st.rest.drop i.toNat) st.next)
    pure .none
  | _ => throw typeError

/-- `name in self.rules` -/
def has_rule (name : PyVal) : TM PyVal :=
  match name with
  | .str n => pure (.bool (ruleOf n).isSome)
  | v => if hashable v then pure (.bool false) else throw typeError

/-- `self.rules[name].match(self.source, self.position)`: `None`, or the match object (its group 0) -/
def rule_match (name : PyVal) : TM PyVal := do
  let st ← get
  match name with
  | .str n =>
    match ruleOf n with
    | Option.none => throw "KeyError"
    | some r =>
      match matchAny r st.prev st.rest with
      | Option.none => pure .none
      | some k => pure (.obj "Match" [("0", .str (st.rest.take k))])
  | v => if hashable v then throw "KeyError" else throw typeError

/-- `m[0]` / `m.group(0)` of such a match object -/
def match_group0 (m : PyVal) : M PyVal :=
  match m with
  | .obj "Match" [("0", t)] => pure t
  | .none => throw typeError
  | _ => throw "PyRtUnsupported"

/-- states the tokenizer can be in: the text of a loaded token is what the rule matched at the current position -/
def WF (st : St) : Prop := ∀ n t, st.next = some (n, t) → t = st.rest.take t.length

end PyX9
