import PkgModel.PyRt
import PkgModel.Marker
/-!
# PyMarker — how the marker model's values appear as Python values

The translated functions of `packaging/markers.py` (`Gen.PySrc._format_marker`, `_evaluate_markers`, …) work on
`PyVal`s; the model (`PkgModel/Marker.lean`) on `Mk.M` trees.  This file fixes the representation
(`ofM`, `ofML`, `ofMarker`), the results (`ofRes`), and the oracle through which the translated code reaches the
functions that the marker model takes as parameters (`Mk.Ext`): `canonicalize_name`, `Specifier(...)`,
`Specifier.contains`, `default_environment`.
-/
namespace PyMk
open Py PyRt

/-- `Variable(value)` / `Value(value)` -/
def ofNode : Mk.Node → PyVal
  | .var s => .obj "Variable" [("value", .str s)]
  | .val s => .obj "Value" [("value", .str s)]

/-- `Op(value)` -/
def ofOp (s : Str) : PyVal := .obj "Op" [("value", .str s)]

/-- a marker item: the tuple `(lhs, Op(op), rhs)` -/
def ofAtom (a : Mk.Atom) : PyVal := .tuple [ofNode a.lhs, ofOp a.op, ofNode a.rhs]

mutual
def ofM : Mk.M → PyVal
  | .atom a => ofAtom a
  | .bool s => .str s
  | .list l => .list (ofMs l)
def ofMs : List Mk.M → List PyVal
  | [] => []
  | m :: ms => ofM m :: ofMs ms
end

/-- a `MarkerList` -/
def ofML (l : List Mk.M) : PyVal := .list (ofMs l)

/-- a `Marker` instance (its only attribute is `_markers`) -/
def ofMarker (l : List Mk.M) : PyVal := .obj "Marker" [("_markers", ofML l)]

/-! ## results -/

def rawName : Mk.RawExc → PyExc
  | .syntaxError => "SyntaxError" | .unicodeEncodeError => "UnicodeEncodeError" | .keyError => "KeyError"
  | .attributeError => "AttributeError" | .typeError => "TypeError" | .assertionError => "AssertionError"

def excName : Mk.Err → PyExc
  | .invalidMarker => "InvalidMarker"
  | .undefinedComparison => "UndefinedComparison"
  | .undefinedEnvironmentName => "UndefinedEnvironmentName"
  | .raw e => rawName e
  | .fuel => "RecursionError"

def ofRes {α} (f : α → PyVal) : Mk.Res α → M PyVal
  | .ok a => .ok (f a)
  | .error e => .error (excName e)

/-! ## the oracle

What the marker code calls but does not define.  `Specifier(s)` either raises `InvalidSpecifier` or yields an object;
`.contains(v, prereleases=True)` on it either raises `InvalidVersion` or answers.  `Mk.Ext.specMatch op rhs lhs` is the
composition on `s = op ++ rhs` (which is how `_eval_op` builds the text). -/

structure Oracle where
  /-- `canonicalize_name` -/
  canon : Str → Str
  /-- `Specifier(s)` does not raise `InvalidSpecifier` -/
  specOk : Str → Bool
  /-- `Specifier(s).contains(v, prereleases=True)`; `none` = `InvalidVersion` -/
  specContains : Str → Str → Option Bool
  /-- `default_environment()` -/
  dflt : List (Str × Str)

/-- the model's view of the same functions -/
def Oracle.toExt (O : Oracle) : Mk.Ext where
  specMatch op rhs lhs := if O.specOk (op ++ rhs) then O.specContains (op ++ rhs) lhs else none
  canonName := O.canon

/-- the object `Specifier(s)` stands for (opaque to the marker code: it is only handed back to `.contains`) -/
def specObj (s : Str) : PyVal := .obj "Specifier" [("_text", .str s)]

/-- the translated code's view: calls by name, arguments as bound by the signatures
(`canonicalize_name(name, *, validate=False)`, `Specifier(spec, prereleases=None)`,
`contains(self, item, prereleases)`) -/
def Oracle.ext (O : Oracle) : PyRt.Oracle := fun name args =>
  if name == "canonicalize_name" then
    (match args with
     | [.str s, .bool false] => .ok (.str (O.canon s))
     | _ => .error "PyRtOracleMissing")
  else if name == "Specifier" then
    (match args with
     | [.str s, .none] => if O.specOk s then .ok (specObj s) else .error "InvalidSpecifier"
     | _ => .error "PyRtOracleMissing")
  else if name == "Specifier.contains" then
    (match args with
     | [.obj "Specifier" [("_text", .str s)], .str v, .bool true] =>
       (match O.specContains s v with
        | some b => .ok (.bool b)
        | none => .error "InvalidVersion")
     | _ => .error "PyRtOracleMissing")
  else if name == "default_environment" then
    (match args with
     | [] => .ok (.dict (O.dflt.map fun p => (.str p.1, .str p.2)))
     | _ => .error "PyRtOracleMissing")
  else .error "PyRtOracleMissing"

/-! ## environments

The model's environment is an association list in which later entries win (`Mk.Env.get?`); Python's is a dict.  The
translated code only looks keys up, so the two are related by having the same lookups. -/

/-- the dict `d` and the model environment `e` answer every lookup alike -/
def EnvRel (d : List (PyVal × PyVal)) (e : Mk.Env) : Prop :=
  ∀ k : Str, dictLookup d (.str k) = (e.get? k).map ofOptStr

/-- no variable is bound to `None` (a `None` other than for `extra` is outside the domain of `Marker.evaluate`) -/
def NoNone (e : Mk.Env) : Prop := ∀ k : Str, e.get? k ≠ some none

/-- the dict a model environment stands for: inserted in order, a repeated key keeps its first position -/
def dictOfEnv (e : Mk.Env) : List (PyVal × PyVal) :=
  e.foldl (fun acc p => dictSet acc (.str p.1) (ofOptStr p.2)) []

/-- the optional `environment` argument of `Marker.evaluate` -/
def ofSupplied : Option Mk.Env → PyVal
  | none => .none
  | some e => .dict (dictOfEnv e)

end PyMk
