import PkgModel.PyRt
import PkgModel.Version
import PkgModel.Specifier
/-!
# PyObj — how model values appear as Python objects

`ofVer cls v` is an instance of `Version` (or of its subclass `_TrimmedRelease`) whose `_version` is the
`_Version` named tuple of `v` and whose `_key` is `_cmpkey(...)` of it, exactly the two attributes
`Version.__init__` sets.  The translated methods (`Gen.PySrc.Version.*`) read these records.
-/
namespace PyRt
open Py V

def ofPre (p : PreL × Nat) : PyVal := .tuple [.str p.1.str, .int p.2]
def ofLSeg : LSeg → PyVal
  | .num n => .int n
  | .str s => .str s
def ofOptPre : Option (PreL × Nat) → PyVal
  | none => .none
  | some p => ofPre p
/-- `("post", n)` / `("dev", n)` -/
def ofTagged (tag : Str) : Option Nat → PyVal
  | none => .none
  | some n => .tuple [.str tag, .int n]
def ofLocal : Option (List LSeg) → PyVal
  | none => .none
  | some l => .tuple (l.map ofLSeg)
def ofRelease (r : List Nat) : PyVal := .tuple (r.map ofNat)

/-- the `_Version` named tuple (attribute access only; field order as in the class) -/
def ofVersionTuple (v : Ver) : PyVal :=
  .obj "_Version" [("epoch", .int v.epoch), ("release", ofRelease v.release), ("dev", ofTagged (ofString "dev") v.dev),
    ("pre", ofOptPre v.pre), ("post", ofTagged (ofString "post") v.post), ("local", ofLocal v.loc)]

/-- a slot of the comparison key -/
def ofExt {α} (f : α → PyVal) : Ext α → PyVal
  | .negInf => .negInf
  | .posInf => .posInf
  | .val a => f a
def ofKSeg : KSeg → PyVal
  | .num n => .tuple [.int n, .str []]
  | .str s => .tuple [.negInf, .str s]
/-- the 6-tuple `_cmpkey` returns -/
def ofKey (k : Key) : PyVal :=
  .tuple [.int k.epoch, ofRelease k.release, ofExt ofPre k.pre,
    ofExt (fun (n : Nat) => .tuple [.str (ofString "post"), .int n]) k.post,
    ofExt (fun (n : Nat) => .tuple [.str (ofString "dev"), .int n]) k.dev,
    ofExt (fun l => .tuple (l.map ofKSeg)) k.loc]

/-- a `Version` / `_TrimmedRelease` instance -/
def ofVer (cls : String) (v : Ver) : PyVal :=
  .obj cls [("_version", ofVersionTuple v), ("_key", ofKey (cmpkey v))]

def ofOptBool : Option Bool → PyVal
  | none => .none
  | some b => .bool b

/-- a `Specifier` instance: `_spec = (operator, version text)` and the stored `prereleases` override -/
def ofSpec (sp : S.Spec) (override : Option Bool) : PyVal :=
  .obj "Specifier" [("_spec", .tuple [.str sp.op.str, .str sp.ver]), ("_prereleases", ofOptBool override)]

/-- `Version(s)` / `_TrimmedRelease(s)`: the constructor as a primitive backed by the scanner `V.scan`
(`Version.__init__`: regex match, `_Version(...)`, `_cmpkey(...)`) -/
def mkVersion (cls : String) (s : PyVal) : M PyVal :=
  match s with
  | .str s => (match scan s with | some v => pure (ofVer cls v) | none => throw "InvalidVersion")
  | _ => throw typeError

end PyRt
