import PkgModel.Py
import PkgModel.Rx
import PkgModel.Generated.NameTables
import PkgModel.Generated.NameValidRx
/-!
# Names — model of `canonicalize_name` / `is_normalized_name` (`packaging/utils.py`)

* `collapse` is `_canonicalize_regex.sub("-", name)`: every maximal run of separator characters (the
  measured atom of the pattern, `Gen.NameTables.separators`) becomes one `-`; written as the left-to-right
  scan the regex engine performs (state = "inside a run").
* `lower` is `str.lower`: ASCII by rule, other code points by the generated per-code-point table
  (U+03A3 gets its non-final form; its context-dependent final form is outside the model).
* `validName` is `_validate_regex.match(name) is not None` through the generated regex (the `$` anchor
  is part of the generated term: it also matches before one trailing newline).
* `isNormalized` mirrors `_normalized_regex.match`, pattern
  `^([a-z0-9]|[a-z0-9]([a-z0-9-](?!--))*[a-z0-9])$` : the look-ahead sits *after* the character consumed by
  the repetition, so it is evaluated at the position following each repeated character — never at the
  position following the first character of the name.
-/
namespace Names
open Py

/-! ## `_canonicalize_regex.sub("-", ·)` -/

def isSep (c : Nat) : Bool := Gen.NameTables.separators.contains c

/-- scan with the flag "the previous character belonged to a separator run (already replaced)" -/
def collapseAux : Str → Bool → Str
  | [], _ => []
  | c :: cs, inRun =>
    if isSep c then (if inRun then collapseAux cs true else 45 :: collapseAux cs true)
    else c :: collapseAux cs false

def collapse (s : Str) : Str := collapseAux s false

/-! ## `str.lower` -/

/-- the run `(lo, hi, step, t)` containing `c`, if any → the lower-cased code point -/
def findRun : List (Nat × Nat × Nat × Nat) → Nat → Option Nat
  | [], _ => none
  | (lo, hi, step, t) :: rest, c =>
    if lo ≤ c && c ≤ hi && (c - lo) % step == 0 then some (t + (c - lo)) else findRun rest c

/-- `chr(c).lower()` for `c ≥ 128` -/
def lowerNA (c : Nat) : Str :=
  match findRun Gen.NameTables.lowerRuns c with
  | some t => [t]
  | none => (Gen.NameTables.lowerSpecial.lookup c).getD [c]

def lowerCp (c : Nat) : Str := if c < 128 then [lowerAscii c] else lowerNA c

def lower (s : Str) : Str := s.flatMap lowerCp

/-- `canonicalize_name(name)` -/
def canon (s : Str) : Str := lower (collapse s)

/-- `_validate_regex.match(name) is not None` -/
def validName (s : Str) : Bool := Rx.accepts Gen.NameValidRx.ranges Gen.NameValidRx.rx s

/-- `canonicalize_name(name, validate=…)`; `none` is `InvalidName` -/
def canonicalizeName (s : Str) (validate : Bool) : Option Str :=
  if validate && !validName s then none else some (canon s)

/-! ## `_normalized_regex.match` -/

/-- `[a-z0-9]` -/
def lowAlnum (c : Nat) : Bool := isLowerAscii c || isDigit c
/-- `[a-z0-9-]` -/
def lowAlnumDash (c : Nat) : Bool := lowAlnum c || c == 45

/-- `(?!--)` at the start of `s` -/
def notDashDash (s : Str) : Bool := !startsWith s [45, 45]

/-- `$` at `s` : the end, or one newline and the end -/
def atEnd : Str → Bool
  | [] => true
  | c :: r => c == 10 && r.isEmpty

/-- `[a-z0-9]$` at `s` -/
def normFinal : Str → Bool
  | [] => false
  | c :: r => lowAlnum c && atEnd r

/-- `([a-z0-9-](?!--))*[a-z0-9]$` at `s` (the engine tries the repetition first and backtracks to the final
character; as a language this is the disjunction below) -/
def normTail : Str → Bool
  | [] => false
  | c :: r => normFinal (c :: r) || (lowAlnumDash c && notDashDash r && normTail r)

/-- `is_normalized_name(name)` -/
def isNormalized : Str → Bool
  | [] => false
  | c :: r => lowAlnum c && (atEnd r || normTail r)

end Names
