import PkgModel.Py
import PkgModel.Rx
import PkgModel.Generated.NameTables
import PkgModel.Generated.NameValidRx
import PkgModel.Generated.NormalizedRx
/-!
# Names — model of `canonicalize_name` / `is_normalized_name` (`packaging/utils.py`)

* `collapse` is `_canonicalize_regex.sub("-", name)`: every maximal run of separator characters (the
  measured atom of the pattern, `Gen.NameTables.separators`) becomes one `-`; written as the left-to-right
  scan the regex engine performs (state = "inside a run").
* `lower` is `str.lower`: ASCII by rule, other code points by the generated per-code-point table
  (U+03A3 gets its non-final form; its context-dependent final form is outside the model).
* `validName` is `_validate_regex.match(name) is not None` and `isNormalized` is
  `_normalized_regex.match(name) is not None`, both through the regex regenerated from the pattern in the
  source (anchors are part of the generated term: `$` would also match before one trailing newline, `\Z` does not).
-/
namespace Names
open Py

/-! ## `_canonicalize_regex.sub("-", ·)` -/

def isSep (c : Nat) : Bool := Gen.NameTables.separators.contains c

/-- scan with the flag "the previous character belonged to a separator run (already replaced)" -/
def collapseAux : Str → Bool → Str
  | [], _ => []
  | c :: cs, inRun =>
    if isSep c then (if inRun then collapseAux cs true else 45 :: collapseAux cs true)
    else c :: collapseAux cs false

def collapse (s : Str) : Str := collapseAux s false

/-! ## `str.lower` -/

/-- `chr(c).lower()` for `c ≥ 128` -/
def lowerNA (c : Nat) : Str :=
  match Gen.NameTables.lowerTree.find c with
  | some t => [t]
  | none => (Gen.NameTables.lowerSpecial.lookup c).getD [c]

def lowerCp (c : Nat) : Str := if c < 128 then [lowerAscii c] else lowerNA c

def lower (s : Str) : Str := s.flatMap lowerCp

/-- `canonicalize_name(name)` -/
def canon (s : Str) : Str := lower (collapse s)

/-- `_validate_regex.match(name) is not None` -/
def validName (s : Str) : Bool := Rx.accepts Gen.NameValidRx.ranges Gen.NameValidRx.rx s

/-- `canonicalize_name(name, validate=…)`; `none` is `InvalidName` -/
def canonicalizeName (s : Str) (validate : Bool) : Option Str :=
  if validate && !validName s then none else some (canon s)

/-- `is_normalized_name(name)`: `_normalized_regex.match(name) is not None`, through the generated regex -/
def isNormalized (s : Str) : Bool := Rx.accepts Gen.NormalizedRx.ranges Gen.NormalizedRx.rx s

end Names
