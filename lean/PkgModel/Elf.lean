import PkgModel.Py
import PkgModel.Generated.TagTables
/-!
# Elf — model of `packaging/_elffile.py` (`ELFFile.__init__`, `ELFFile.interpreter`)

The file object is a finite byte string with a position: `read(n)` returns the at most `n` bytes from
the position on (a short read past the end), `seek` accepts every offset up to `ssizeMax` (the
`io.BytesIO` behaviour; larger offsets or sizes raise `OverflowError`, which the code turns into
`ELFInvalid`).  `struct.unpack` fails exactly when the byte count is not the format's size.
The layout table `(class, data) ↦ (byte order, field sizes, indexes)` is regenerated from the source
(`Gen.TagTables.elfFormats`); which header field is which (`machine` second, `e_phoff` fifth, …) is
written here as in the destructuring assignment of `__init__`.
-/
namespace Elf
open Py

abbrev Bytes := List Nat

/-- little-endian value of a byte string -/
def leNat : Bytes → Nat
  | [] => 0
  | b :: bs => b + 256 * leNat bs

/-- big-endian value of a byte string -/
def beNat (bs : Bytes) : Nat := leNat bs.reverse

def unpackNum (le : Bool) (bs : Bytes) : Nat := if le then leNat bs else beNat bs

/-- consecutive fixed-width unsigned fields -/
def unpackFields (le : Bool) : List Nat → Bytes → List Nat
  | [], _ => []
  | n :: ns, d => unpackNum le (d.take n) :: unpackFields le ns (d.drop n)

/-- `struct.unpack(fmt, data)`: `none` (struct.error) unless `len(data) == calcsize(fmt)` -/
def unpack (le : Bool) (sizes : List Nat) (data : Bytes) : Option (List Nat) :=
  if data.length == sizes.sum then some (unpackFields le sizes data) else none

/-- `f.seek(pos); f.read(n)` -/
def readAt (f : Bytes) (pos n : Nat) : Bytes := (f.drop pos).take n

/-- largest offset / size a `BytesIO` accepts (`sys.maxsize` on a 64-bit build) -/
def ssizeMax : Nat := 2 ^ 63 - 1

/-- what `ELFFile.__init__` stores -/
structure Header where
  capacity : Nat
  encoding : Nat
  machine : Nat
  flags : Nat
  phoff : Nat
  phentsize : Nat
  phnum : Nat
  /-- byte order, program-header field sizes and the (p_type, p_offset, p_filesz) indexes of the layout -/
  le : Bool
  pSizes : List Nat
  pIdx : Nat × Nat × Nat
deriving DecidableEq, Repr

def magic : Bytes := [127, 69, 76, 70]

/-- `ELFFile(f)`; `none` is `ELFInvalid` -/
def parse (f : Bytes) : Option Header :=
  let ident := readAt f 0 16
  if ident.length != 16 then none else
  if ident.take 4 != magic then none else
  let capacity := ident.getD 4 0
  let encoding := ident.getD 5 0
  match Gen.TagTables.elfFormats.lookup (capacity, encoding) with
  | none => none
  | some (le, eSizes, pSizes, pIdx) =>
    match unpack le eSizes (readAt f 16 eSizes.sum) with
    | none => none
    | some fields =>
      some { capacity := capacity, encoding := encoding,
             machine := fields.getD 1 0, flags := fields.getD 6 0, phoff := fields.getD 4 0,
             phentsize := fields.getD 8 0, phnum := fields.getD 9 0,
             le := le, pSizes := pSizes, pIdx := pIdx }

/-- `.strip("\0")` on the raw bytes (NUL is one byte in every file-system encoding) -/
def stripNul (b : Bytes) : Bytes := stripBy (· == 0) b

/-- the loop of `ELFFile.interpreter` from program-header index `i` on, `n` entries left.
    `.error ()` is `ELFInvalid` (an offset or size the file object cannot take),
    `.ok none` is `None`, `.ok (some b)` the bytes of the path (before `os.fsdecode`). -/
def interpLoop (f : Bytes) (h : Header) : Nat → Nat → Except Unit (Option Bytes)
  | 0, _ => .ok none
  | n + 1, i =>
    let pos := h.phoff + h.phentsize * i
    if pos > ssizeMax then .error () else
    match unpack h.le h.pSizes (readAt f pos h.pSizes.sum) with
    | none => interpLoop f h n (i + 1)
    | some data =>
      if data.getD h.pIdx.1 0 != 3 then interpLoop f h n (i + 1) else
      let off := data.getD h.pIdx.2.1 0
      let size := data.getD h.pIdx.2.2 0
      if off > ssizeMax || size > ssizeMax then .error () else
      .ok (some (stripNul (readAt f off size)))

/-- `ELFFile(f).interpreter` -/
def interpreter (f : Bytes) (h : Header) : Except Unit (Option Bytes) := interpLoop f h h.phnum 0

/-! ## the spec side: encoders (written from the ELF specification, independent of `struct`) -/

/-- `k` little-endian bytes of `n` -/
def toLE : Nat → Nat → Bytes
  | 0, _ => []
  | k + 1, n => (n % 256) :: toLE k (n / 256)

def toBE (k n : Nat) : Bytes := (toLE k n).reverse

def encNum (le : Bool) (k n : Nat) : Bytes := if le then toLE k n else toBE k n

/-- the four layouts: word size 4 (ELFCLASS32) or 8 (ELFCLASS64), byte order -/
structure Layout where
  is64 : Bool
  le : Bool
deriving DecidableEq, Repr

def Layout.cls (l : Layout) : Nat := if l.is64 then 2 else 1
def Layout.data (l : Layout) : Nat := if l.le then 1 else 2
def Layout.word (l : Layout) : Nat := if l.is64 then 8 else 4

/-- every field of the ELF header the code reads or skips -/
structure EHeader where
  identRest : Bytes          -- e_ident[6..16): version, OS ABI, padding (10 bytes)
  etype : Nat
  machine : Nat
  version : Nat
  entry : Nat
  phoff : Nat
  shoff : Nat
  flags : Nat
  ehsize : Nat
  phentsize : Nat
  phnum : Nat
deriving Repr

/-- Elf32_Ehdr / Elf64_Ehdr up to and including `e_phnum` -/
def encodeHeader (l : Layout) (h : EHeader) : Bytes :=
  magic ++ [l.cls, l.data] ++ h.identRest
  ++ encNum l.le 2 h.etype ++ encNum l.le 2 h.machine ++ encNum l.le 4 h.version
  ++ encNum l.le l.word h.entry ++ encNum l.le l.word h.phoff ++ encNum l.le l.word h.shoff
  ++ encNum l.le 4 h.flags ++ encNum l.le 2 h.ehsize ++ encNum l.le 2 h.phentsize ++ encNum l.le 2 h.phnum

/-- a program header entry -/
structure PHeader where
  ptype : Nat
  pflags : Nat
  offset : Nat
  vaddr : Nat
  paddr : Nat
  filesz : Nat
  memsz : Nat
  align : Nat
deriving Repr

/-- Elf32_Phdr (`p_flags` after `p_memsz`) / Elf64_Phdr (`p_flags` second) -/
def encodePHeader (l : Layout) (p : PHeader) : Bytes :=
  if l.is64 then
    encNum l.le 4 p.ptype ++ encNum l.le 4 p.pflags ++ encNum l.le 8 p.offset ++ encNum l.le 8 p.vaddr
    ++ encNum l.le 8 p.paddr ++ encNum l.le 8 p.filesz ++ encNum l.le 8 p.memsz ++ encNum l.le 8 p.align
  else
    encNum l.le 4 p.ptype ++ encNum l.le 4 p.offset ++ encNum l.le 4 p.vaddr ++ encNum l.le 4 p.paddr
    ++ encNum l.le 4 p.filesz ++ encNum l.le 4 p.memsz ++ encNum l.le 4 p.pflags ++ encNum l.le 4 p.align

end Elf
