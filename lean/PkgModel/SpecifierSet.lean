import PkgModel.Specifier
/-!
# SpecifierSet — model of `packaging.specifiers.SpecifierSet`

A member is a `Specifier` object: its `_spec` and its own `_prereleases` override.  The `frozenset`
of members is modelled as a list **deduplicated by `Specifier.__eq__`/`__hash__`** (equality of
`_canonical_spec`; the first inserted of two equal members is kept, as CPython's `set_add_entry`
does) that is **iterated in an arbitrary order**: every function that iterates the set takes the
iteration order `it : List Member` as an explicit argument; it is meant to be a permutation of
`S.specs` and the theorems quantify over all of them.

The mutable `_prereleases` attribute (settable after construction on `Specifier` and on
`SpecifierSet`) is the state machine `Hist` at the end of this file.
-/
namespace SSet
open Py V S

/-- a `Specifier` object: (`_spec`, `_prereleases`) -/
abbrev Member := Spec × Option Bool

/-- `_canonical_spec`, the key of `Specifier.__eq__` / `__hash__`.  The `InvalidVersion` that the
re-parse inside `canonicalize_version` could raise is checked once, at construction (`ofSpecs`);
afterwards the key is total. -/
abbrev CKey := S.Op × Str

def key (sp : Spec) : CKey :=
  match sp.canonical with
  | .ok k => k
  | .error _ => (sp.op, sp.ver)

def hasKey (l : List Member) (k : CKey) : Bool := l.any fun x => key x.1 == k

/-- `set_add_entry`: an equal element already present is kept -/
def insert (l : List Member) (m : Member) : List Member :=
  if hasKey l (key m.1) then l else l ++ [m]

/-- `frozenset(iterable)` in first-insertion order -/
def fromList (ms : List Member) : List Member := ms.foldl insert []

structure SpecSet where
  /-- `_specs`: pairwise non-equal members, in first-insertion order (not observable) -/
  specs : List Member
  /-- `_prereleases` -/
  pre : Option Bool
  deriving DecidableEq, Repr

/-- `[s.strip() for s in specifiers.split(",") if s.strip()]` -/
def clauses (s : Str) : List Str := ((splitOn 44 s).map strip).filter fun c => !c.isEmpty

/-- `map(Specifier, clauses)`; `none` is `InvalidSpecifier` -/
def parseAll : List Str → Option (List Spec)
  | [] => some []
  | c :: cs =>
    match parseSpec c with
    | none => none
    | some sp => (match parseAll cs with | none => none | some r => some (sp :: r))

/-- `SpecifierSet(iterable_of_Specifier, prereleases)`; hashing a member evaluates `_canonical_spec` -/
def ofSpecs (ms : List Member) (pre : Option Bool) : R SpecSet :=
  if ms.all fun m => m.1.canonical.isOk then .ok ⟨fromList ms, pre⟩ else .error "InvalidVersion"

/-- `SpecifierSet(str, prereleases)` -/
def ofString (s : Str) (pre : Option Bool) : R SpecSet :=
  match parseAll (clauses s) with
  | none => .error "InvalidSpecifier"
  | some sps => ofSpecs (sps.map fun sp => (sp, none)) pre

/-- `any(s.prereleases for s in self._specs)` (short-circuits; a member may raise) -/
def anyPre : List Member → R Bool
  | [] => pure false
  | m :: r => do
    let b ← m.1.prereleases m.2
    if b then pure true else anyPre r

/-- the `prereleases` property -/
def SpecSet.prereleases (S : SpecSet) (it : List Member) : R (Option Bool) :=
  match S.pre with
  | some b => pure (some b)
  | none => if S.specs.isEmpty then pure none else do
    let b ← anyPre it
    pure (some b)

/-- `if prereleases is None: prereleases = self.prereleases` (first statement of `contains` and `filter`) -/
def SpecSet.resolve (S : SpecSet) (it : List Member) (p : Option Bool) : R (Option Bool) :=
  match p with
  | some b => pure (some b)
  | none => S.prereleases it

/-- Python truthiness of `bool | None` -/
def truthy (p : Option Bool) : Bool := p.getD false

/-- `all(s.contains(item, prereleases=prereleases) for s in self._specs)` -/
def allContain (v : Ver) (pre : Option Bool) : List Member → R Bool
  | [] => pure true
  | m :: r => do
    let c ← m.1.contains m.2 v pre
    if c then allContain v pre r else pure false

/-- `SpecifierSet.contains(item, prereleases, installed)` for an already parsed candidate -/
def SpecSet.contains (S : SpecSet) (it : List Member) (cand : Ver) (pre : Option Bool) (installed : Bool) :
    R Bool := do
  let pre ← S.resolve it pre
  if !(truthy pre) && cand.isPre then pure false
  else do
    let item ← if installed && cand.isPre then version cand.base else pure cand
    allContain item pre it

/-- `for spec in self._specs: iterable = spec.filter(iterable, prereleases=bool(prereleases))`;
items are (tag, parsed version), the tag being the identity of the object passed in -/
def filterChain {α} : List Member → Bool → List (α × Ver) → R (List (α × Ver))
  | [], _, items => pure items
  | m :: r, pre, items => do
    let out ← m.1.filter m.2 (some pre) (items.map fun x => (x, x.2))
    filterChain r pre out

/-- the loop of the empty-set branch with its two lists -/
def emptyLoop {α} (pre : Option Bool) : List (α × Ver) → (filtered found : List α) → List α × List α
  | [], fl, fo => (fl, fo)
  | (t, v) :: r, fl, fo =>
    if v.isPre && !(truthy pre) then
      (if fl.isEmpty then emptyLoop pre r fl (fo ++ [t]) else emptyLoop pre r fl fo)
    else emptyLoop pre r (fl ++ [t]) fo

/-- `SpecifierSet.filter(iterable, prereleases)`; returns the tags of the items yielded, in order -/
def SpecSet.filter {α} (S : SpecSet) (it : List Member) (pre : Option Bool) (items : List (α × Ver)) :
    R (List α) := do
  let pre ← S.resolve it pre
  if !S.specs.isEmpty then do
    let out ← filterChain it (truthy pre) items
    pure (out.map (·.1))
  else
    let (fl, fo) := emptyLoop pre items [] []
    if fl.isEmpty && !fo.isEmpty && pre.isNone then pure fo else pure fl

/-- the override table of `__and__`; `none` is the `ValueError` -/
def combinePre : Option Bool → Option Bool → Option (Option Bool)
  | none, some y => some (some y)
  | some x, none => some (some x)
  | x, y => if x == y then some x else none

/-- `frozenset(self._specs | other._specs)`: members of `self` are kept, those of `other` are added -/
def union (a b : List Member) : List Member := b.foldl insert a

/-- `SpecifierSet.__and__` -/
def SpecSet.and (a b : SpecSet) : R SpecSet :=
  match combinePre a.pre b.pre with
  | some p => .ok ⟨union a.specs b.specs, p⟩
  | none => .error "ValueError"

/-- `",".join(sorted(str(s) for s in self._specs))` -/
def SpecSet.str (_S : SpecSet) (it : List Member) : Str :=
  join [44] (sortBy strLe (it.map fun m => m.1.str))

/-- `self._specs == other._specs` on frozensets -/
def SpecSet.eq (a b : SpecSet) : Bool :=
  a.specs.length == b.specs.length && a.specs.all fun m => hasKey b.specs (key m.1)

/-- the member's own string is one clean clause that parses back to the member (decidable; hypothesis of the
`str` round-trip theorem, evaluated by the driver on every constructed set) -/
def roundtrips (sp : Spec) : Bool :=
  !(sp.str.contains 44) && strip sp.str == sp.str && parseSpec sp.str == some sp

/-- `len(self._specs)` -/
def SpecSet.len (S : SpecSet) : Nat := S.specs.length

/-- what `hash(self._specs)` is a (symmetric) function of: the member keys, as a collection -/
def SpecSet.hashKey (S : SpecSet) : List CKey := S.specs.map fun m => key m.1

/-! ## the mutable `_prereleases` attribute as a state machine

An object is created with an override (`init`), then any sequence of assignments to `.prereleases`
(`set`) and of reading calls (`call`: `.prereleases`, `contains`, `filter`, `str`, … — none of them
writes) happens; the state is the stored override. -/

inductive Ev
  | set (b : Option Bool)
  | call
  deriving DecidableEq, Repr

def Ev.step (st : Option Bool) : Ev → Option Bool
  | .set b => b
  | .call => st

/-- the stored override after a history -/
def runHist (init : Option Bool) (h : List Ev) : Option Bool := h.foldl Ev.step init

/-- the value a fresh object would have to be constructed with: the last assigned one, else the constructor's -/
def lastWrite (init : Option Bool) : List Ev → Option Bool
  | [] => init
  | .set b :: r => lastWrite b r
  | .call :: r => lastWrite init r

end SSet
