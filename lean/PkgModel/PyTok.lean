import PkgModel.PyRt
import PkgModel.Requirement
/-!
# PyTok — `packaging._tokenizer.Tokenizer` as run-time primitives for the translated parser

The recursive-descent functions of `_parser.py` are translated from their source (`Gen.PySrc._parse_marker`, …); the
`Tokenizer` object they all share and mutate is the *state* of the monad they run in (`TM = StateT St M`), and its
methods (`check`, `read`, `expect`, `consume`, `raise_syntax_error`, `enclosing_tokens`, `position`) are the primitives
below.  `rules[name].match(source, position)` is `Mk.matchRule` / `Req.matchR` on the regenerated rule data
(`Generated/MarkerTok`, `Generated/ReqTok`) — the same matchers the hand-written parser models use.

The translator (`harness/translators/pysrc.py`) checks that the source of these `Tokenizer` methods is still the text the
primitives mirror (`PRIMITIVE_GUARDS`); the `src.call` correspondence samples them through every parser function.

Restrictions: a `Tokenizer` is always built with `rules=DEFAULT_RULES`; exceptions carry only their class
(`ParserSyntaxError` without message and span); `ast.literal_eval` is modelled on QUOTED_STRING tokens only
(`Mk.pyStrLit`).
-/
namespace PyTok
open Py PyRt

/-- the tokenizer: the text already read, the character before `position`, `source[position:]`, and `next_token`
(rule name and text) between a successful `check` and the `read` that follows -/
structure St where
  pre : Str
  prev : Option Nat
  rest : Str
  next : Option (Str × Str)
  deriving Repr

abbrev TM := StateT St M

inductive AnyRule
  | mk (r : Mk.Rule)
  | req (r : Req.RRule)

/-- the keys of `DEFAULT_RULES` -/
def ruleOf (name : Str) : Option AnyRule :=
  if name == ofString "LEFT_PARENTHESIS" then some (.mk .lparen)
  else if name == ofString "RIGHT_PARENTHESIS" then some (.mk .rparen)
  else if name == ofString "QUOTED_STRING" then some (.mk .quoted)
  else if name == ofString "OP" then some (.mk .op)
  else if name == ofString "BOOLOP" then some (.mk .boolop)
  else if name == ofString "IN" then some (.mk .kwIn)
  else if name == ofString "NOT" then some (.mk .kwNot)
  else if name == ofString "VARIABLE" then some (.mk .variable)
  else if name == ofString "WS" then some (.mk .ws)
  else if name == ofString "END" then some (.mk .end_)
  else if name == ofString "LEFT_BRACKET" then some (.req .lbracket)
  else if name == ofString "RIGHT_BRACKET" then some (.req .rbracket)
  else if name == ofString "SEMICOLON" then some (.req .semicolon)
  else if name == ofString "COMMA" then some (.req .comma)
  else if name == ofString "AT" then some (.req .at_)
  else if name == ofString "URL" then some (.req .url)
  else if name == ofString "IDENTIFIER" then some (.req .identifier)
  else if name == ofString "SPECIFIER" then some (.req .specifier)
  else if name == ofString "VERSION_PREFIX_TRAIL" then some (.req .prefixTrail)
  else if name == ofString "VERSION_LOCAL_LABEL_TRAIL" then some (.req .localTrail)
  else none

/-- `rules[name].match(source, position)`: length of the match -/
def matchAny : AnyRule → Option Nat → Str → Option Nat
  | .mk r, p, s => Mk.matchRule r p s
  | .req r, p, s => Req.matchR r p s

/-- `Tokenizer(source, rules=DEFAULT_RULES)` -/
def new (source : PyVal) : M St :=
  match source with
  | .str s => pure ⟨[], none, s, none⟩
  | _ => throw "PyRtUnsupported"

/-- `tokenizer.check(name, peek=peek)` -/
def check (name peek : PyVal) : TM PyVal := do
  let st ← get
  if st.next.isSome then throw assertionError
  match name with
  | .str n =>
    match ruleOf n with
    | none => throw assertionError
    | some r =>
      match matchAny r st.prev st.rest with
      | none => pure (.bool false)
      | some k =>
        if !(truthy peek) then set { st with next := some (n, st.rest.take k) }
        pure (.bool true)
  | _ => throw assertionError

/-- `tokenizer.read()` -/
def read : TM PyVal := do
  let st ← get
  match st.next with
  | none => throw assertionError
  | some (n, t) =>
    set (St.mk (st.pre ++ t) (Mk.lastOr t st.prev) (st.rest.drop t.length) none)
    pure (.obj "Token" [("name", .str n), ("text", .str t), ("position", .int st.pre.length)])

/-- `tokenizer.raise_syntax_error(...)` -/
def raise_syntax_error : TM PyVal := throw "ParserSyntaxError"

/-- `tokenizer.expect(name, expected=…)` -/
def expect (name : PyVal) : TM PyVal := do
  if !(truthy (← check name (.bool false))) then throw "ParserSyntaxError"
  read

/-- `tokenizer.consume(name)` -/
def consume (name : PyVal) : TM PyVal := do
  if truthy (← check name (.bool false)) then
    let _ ← read
  pure .none

/-- `tokenizer.position` -/
def position : TM PyVal := do return .int (← get).pre.length

/-- `with tokenizer.enclosing_tokens(open, close, around=…):` up to the `yield`: the position of the opening token, or `None` -/
def enclosing_open (open_ : PyVal) : TM PyVal := do
  if truthy (← check open_ (.bool false)) then
    let p ← position
    let _ ← read
    pure p
  else pure .none

/-- … and after the body has run to its end -/
def enclosing_close (opened close : PyVal) : TM PyVal := do
  if isNone opened then pure .none
  else
    if !(truthy (← check close (.bool false))) then throw "ParserSyntaxError"
    let _ ← read
    pure .none

/-- a parser function applied to a fresh tokenizer -/
def run (x : TM PyVal) (s : St) : M PyVal := do
  let r ← x.run s
  pure r.1

/-- fuel for the recursion / loops of a parser function: they consume input or descend into an argument -/
def fuelOf (s : St) (args : List PyVal) : Nat := 4 * (s.rest.length + sizeL args) + 16

/-- `ast.literal_eval(text)` for a QUOTED_STRING token -/
def literal_eval (v : PyVal) : M PyVal :=
  match v with
  | .str t =>
    (match Mk.pyStrLit t with
     | .ok s => pure (.str s)
     | .error (.raw .unicodeEncodeError) => throw "UnicodeEncodeError"
     | .error _ => throw "SyntaxError")
  | _ => throw valueError

/-! ## wire form (for `src.call`): the tokenizer travels as `Tokenizer{source, position, next_token}` -/

def ofSt (s : St) : PyVal :=
  .obj "Tokenizer" [("source", .str (s.pre ++ s.rest)), ("position", .int s.pre.length),
    ("next_token", match s.next with
      | none => .none
      | some (n, t) => .obj "Token" [("name", .str n), ("text", .str t), ("position", .int s.pre.length)])]

def toSt (v : PyVal) : Option St :=
  match v with
  | .obj "Tokenizer" [("source", .str src), ("position", .int p), ("next_token", nt)] =>
    let k := p.toNat
    let pre := src.take k
    let next : Option (Str × Str) := match nt with
      | .obj "Token" [("name", .str n), ("text", .str t), ("position", _)] => some (n, t)
      | _ => none
    some ⟨pre, pre.getLast?, src.drop k, next⟩
  | _ => none

/-- a parser function run on a tokenizer sent over the wire: the result together with the tokenizer afterwards -/
def runWire (x : TM PyVal) (t : PyVal) : M PyVal :=
  match toSt t with
  | none => throw "PySrcArity"
  | some s => do
    let r ← x.run s
    pure (.tuple [r.1, ofSt r.2])

end PyTok
