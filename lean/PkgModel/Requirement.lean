import PkgModel.Marker
import PkgModel.SpecifierSet
import PkgModel.Names
import PkgModel.Generated.ReqTok
/-!
# Requirement — model of `packaging.requirements` and of the requirement part of `_parser.py` / `_tokenizer.py`

* the token rules the requirement grammar uses beyond the marker ones (`RRule`), on the same tokenizer
  state as the marker model (`Mk.St` = previous character + remaining text), rule data from
  `Generated/ReqTok.lean` (regenerated from `DEFAULT_RULES` on every run):
  finite rules through `Mk.matchFin`; `URL = [^ \t]+`; `IDENTIFIER = \b[head][tail]*\b` with the engine's
  backtracking for the closing `\b` (`identEnd`); `VERSION_LOCAL_LABEL_TRAIL`; and `SPECIFIER`, the un-anchored
  body of `Specifier._regex` matched as a *prefix* (`matchSpecifier`): operator alternation in the engine's
  order, each alternative of the version group behind its look-behind guard (evaluated on the real text: the
  character before the position plus the operator just read), bodies scanned leftmost-greedy with the
  pieces of the version scanner (`V.optNum`, `V.scanReleaseTail`, `V.scanLetterGroup`, `V.scanLocal`);
* the recursive-descent functions one-to-one (`enclosing_tokens` inlined at its two uses, `peek` checks,
  the two trail errors of `_parse_version_many`);
* `Requirement.__init__` (`url or None`, `set(extras)`, `SpecifierSet(parsed.specifier)` with
  `InvalidSpecifier → InvalidRequirement`, marker built by `Marker.__new__` + `_normalize_extra_values`),
  `_iter_parts`/`__str__`, `__eq__`, the tuple `__hash__` hashes.

The specifier set is modelled as the code holds it (`ReqSpec` section): the clause string handed to
`SpecifierSet(...)` is split at `,`, stripped, every non-empty piece goes through `S.parseSpec` (= `Specifier(...)`)
— `SSet.clauses` / `SSet.parseAll` of the `SpecifierSet` model — and the `frozenset` keeps the first of two members
with equal `_canonical_spec`.  The members are kept as plain `S.Spec` (a requirement never sets a member's or the set's
`prereleases` override), with the key as one string so that the hash key can be a sorted list.
-/
namespace Req
open Py Mk

/-! ## Token rules -/

inductive RRule
  | lbracket | rbracket | semicolon | comma | at_ | url | identifier | specifier | prefixTrail | localTrail
  deriving DecidableEq, Repr

def isIdentHead (c : Nat) : Bool := inRanges Gen.ReqTok.identHead c
def isIdentTail (c : Nat) : Bool := inRanges Gen.ReqTok.identTail c

/-- `[tail]*\b` after the character `p`: the greedy run, given back character by character until the closing
`\b` holds; the number of characters kept -/
def identEnd : Str → Nat → Option Nat
  | [], p => if isWord p then some 0 else none
  | c :: cs, p =>
    let here := if boundary (some p) (some c) then some 0 else none
    if isIdentTail c then
      match identEnd cs c with
      | some k => some (k + 1)
      | none => here
    else here

/-- `\b[head][tail]*\b` -/
def matchIdent (prev : Option Nat) : Str → Option Nat
  | [] => none
  | c :: cs => if isIdentHead c && boundary prev (some c) then (identEnd cs c).map (· + 1) else none

def isUrlChar (c : Nat) : Bool := !Gen.ReqTok.urlExcluded.contains c

/-- `[^ \t]+` -/
def matchUrl (rest : Str) : Option Nat :=
  let n := (rest.takeWhile isUrlChar).length
  if n == 0 then none else some n

def isTrailChar (c : Nat) : Bool := inRanges Gen.ReqTok.localChars c
def isTrailSep (c : Nat) : Bool := inRanges Gen.ReqTok.localSeps c

/-- `(?:[-_\.][a-z0-9]+)*`: characters consumed -/
def trailTail : Nat → Str → Nat
  | 0, _ => 0
  | _ + 1, [] => 0
  | f + 1, c :: r =>
    if isTrailSep c then
      let seg := r.takeWhile isTrailChar
      if seg.isEmpty then 0 else 1 + seg.length + trailTail f (r.drop seg.length)
    else 0

/-- `\+[a-z0-9]+(?:[-_\.][a-z0-9]+)*` (no IGNORECASE on this rule) -/
def matchLocalTrail : Str → Option Nat
  | [] => none
  | c :: r =>
    if c == Gen.ReqTok.localLead then
      let seg := r.takeWhile isTrailChar
      if seg.isEmpty then none else some (1 + seg.length + trailTail r.length (r.drop seg.length))
    else none

/-! ### SPECIFIER: prefix match of the body of `Specifier._regex` -/

def kwTable (l : List Str) : List (Str × Unit) := l.map fun k => (k, ())

/-- a letter group `[-_\.]?(kw1|kw2|…)[-_\.]?[0-9]*`, optional: what is left -/
def spelledRest (kws : List Str) (s : Str) : Str :=
  match V.scanLetterGroup (kwTable kws) s with
  | some (_, r) => r
  | none => s

/-- the implicit post release `-[0-9]+` -/
def implicitRest (s : Str) : Option Str :=
  match s with
  | 45 :: r => (match V.optNum r with | (some _, r') => some r' | (none, _) => none)
  | _ => none

/-- the `post` group `(?:-[0-9]+)|(?:[-_\.]?(post|rev|r)[-_\.]?[0-9]*)`, optional: what is left -/
def postRest (s : Str) : Str :=
  match implicitRest s with
  | some r => r
  | none => spelledRest Gen.ReqTok.specPostKws s

/-- the optional local label `(?:\+[a-z0-9]+(?:[-_\.][a-z0-9]+)*)?` of an alternative that has one -/
def locRest (r : Str) : Str :=
  match V.scanLocal r with
  | some (some _, r') => r'
  | _ => r

/-- `(pre)?(post)?(dev)?` and, if the alternative has it, `(local)?`: what is left -/
def suffixRest (loc : Bool) (r : Str) : Str :=
  let r := spelledRest Gen.ReqTok.specDevKws (postRest (spelledRest Gen.ReqTok.specPreKws r))
  if loc then locRest r else r

/-- `v?` -/
def stripV (s : Str) : Str :=
  match s with
  | c :: r => if lowerAscii c == 118 then r else s
  | [] => s

/-- `(?:[0-9]+!)?[0-9]+` after the first digit run: the epoch group is given back when no digits follow the `!` -/
def epochRest (r0 : Str) : Str :=
  match r0 with
  | 33 :: r1 => (match V.optNum r1 with
                 | (some _, r2) => r2
                 | (none, _) => r0)
  | _ => r0

/-- `\s* v? (?:[0-9]+!)? [0-9]+ (?:\.[0-9]+)*`: the release components after the first, and what is left -/
def relScan (s0 : Str) : Option (List Nat × Str) :=
  match V.optNum (stripV (s0.dropWhile V.isWs)) with
  | (none, _) => none
  | (some _, r0) => some (V.scanReleaseTail (epochRest r0).length (epochRest r0))

/-- one version alternative (after its look-behind): `\s* v? (?:[0-9]+!)? [0-9]+ (?:\.[0-9]+){minRel,} …`;
`none` = the alternative does not match here, otherwise what is left of the text -/
def verForm (minRel : Nat) (wild loc : Bool) (s0 : Str) : Option Str :=
  match relScan s0 with
  | none => none
  | some (tail, r) =>
    if tail.length < minRel then none
    else if wild && startsWith r [46, 42] then some (r.drop 2)
    else some (suffixRest loc r)

/-- the body of one alternative of the version group -/
def formRest (f : Option (Nat × Bool × Bool)) (s : Str) : Option Str :=
  match f with
  | none => some ((s.dropWhile V.isWs).dropWhile S.isArbChar)        -- `\s*[^\s;)]*`
  | some (m, w, l) => verForm m w l s

/-- a look-behind `(?<=a|b)` / `(?<!a|b)` on the text that ends at the current position -/
def guardHolds (g : Bool × List Str) (before : Str) : Bool :=
  (g.2.any fun l => endsWith before l) == g.1

/-- `rules["SPECIFIER"].match(source, position)`: operators in alternation order; for each one that is a prefix,
the alternatives of the version group in order; the first that succeeds is the match (everything after the
release is optional, so the engine never returns to an earlier choice once an alternative has matched) -/
def matchSpecifier (prev : Option Nat) (rest : Str) : Option Nat :=
  Gen.ReqTok.specOps.findSome? fun op =>
    if startsWith rest op then
      let before := prev.toList ++ op
      let after := rest.drop op.length
      Gen.ReqTok.specForms.findSome? fun gf =>
        if guardHolds gf.1 before then (formRest gf.2 after).map fun r => rest.length - r.length else none
    else none

/-- `rules[name].match(source, position)` for the requirement-only rules -/
def matchR (r : RRule) (prev : Option Nat) (rest : Str) : Option Nat :=
  match r with
  | .lbracket => matchFin Gen.ReqTok.rLbracket prev rest
  | .rbracket => matchFin Gen.ReqTok.rRbracket prev rest
  | .semicolon => matchFin Gen.ReqTok.rSemicolon prev rest
  | .comma => matchFin Gen.ReqTok.rComma prev rest
  | .at_ => matchFin Gen.ReqTok.rAt prev rest
  | .prefixTrail => matchFin Gen.ReqTok.rPrefixTrail prev rest
  | .url => matchUrl rest
  | .identifier => matchIdent prev rest
  | .specifier => matchSpecifier prev rest
  | .localTrail => matchLocalTrail rest

/-- `check(name)` + `read()` -/
def checkR (r : RRule) (st : St) : Option (Str × St) :=
  match matchR r st.prev st.rest with
  | none => none
  | some n => some (st.rest.take n, ⟨lastOr (st.rest.take n) st.prev, st.rest.drop n⟩)

/-- `check(name, peek=True)` -/
def peekR (r : RRule) (st : St) : Bool := (matchR r st.prev st.rest).isSome

def peekEnd (st : St) : Bool := (St.check .end_ st).isSome

def ws (st : St) : St := consume charTS .ws st

/-! ## Recursive descent -/

inductive Err
  /-- `ParserSyntaxError` or `InvalidSpecifier`, both re-raised as `InvalidRequirement` -/
  | invalidRequirement
  /-- `InvalidVersion` escaping from `_canonical_spec` while the specifier set is hashed (shown impossible by C02) -/
  | rawInvalidVersion
  | fuel
  deriving DecidableEq, Repr

abbrev Res := Except Err

/-- `ParsedRequirement` -/
structure Parsed where
  name : Str
  url : Str
  extras : List Str
  specifier : Str
  marker : Option (List M)

/-- the `while True` loop of `_parse_extras_list` -/
def extrasLoop : Nat → List Str → St → Res (List Str × St)
  | 0, _, _ => .error .fuel
  | f + 1, acc, st =>
    let st := ws st
    if peekR .identifier st then .error .invalidRequirement          -- "Expected comma between extra names"
    else match checkR .comma st with
      | none => .ok (acc, st)
      | some (_, st) =>
        let st := ws st
        match checkR .identifier st with
        | none => .error .invalidRequirement                           -- "extra name after comma"
        | some (t, st) => extrasLoop f (acc ++ [t]) st

/-- `_parse_extras_list` -/
def parseExtrasList (fuel : Nat) (st : St) : Res (List Str × St) :=
  match checkR .identifier st with
  | none => .ok ([], st)
  | some (t, st) => extrasLoop fuel [t] st

/-- `_parse_extras` (`enclosing_tokens("LEFT_BRACKET", "RIGHT_BRACKET")` inlined) -/
def parseExtras (fuel : Nat) (st : St) : Res (List Str × St) :=
  match checkR .lbracket st with
  | none => .ok ([], st)
  | some (_, st) => do
    let (ex, st) ← parseExtrasList fuel (ws st)
    match checkR .rbracket (ws st) with
    | none => .error .invalidRequirement                               -- "Expected matching RIGHT_BRACKET"
    | some (_, st) => pure (ex, st)

/-- `_parse_version_many`: the text accumulated from SPECIFIER and COMMA tokens (white space is dropped) -/
def versionMany : Nat → Str → St → Res (Str × St)
  | 0, _, _ => .error .fuel
  | f + 1, acc, st =>
    match checkR .specifier st with
    | none => .ok (acc, st)
    | some (t, st) =>
      let acc := acc ++ t
      if peekR .prefixTrail st then .error .invalidRequirement         -- ".* suffix can only be used with == or !="
      else if peekR .localTrail st then .error .invalidRequirement     -- "Local version label can only be used with …"
      else
        let st := ws st
        match checkR .comma st with
        | none => .ok (acc, st)
        | some (c, st) => versionMany f (acc ++ c) (ws st)

/-- `_parse_specifier` (`enclosing_tokens("LEFT_PARENTHESIS", "RIGHT_PARENTHESIS")` inlined) -/
def parseSpecifier (fuel : Nat) (st : St) : Res (Str × St) :=
  match St.check .lparen st with
  | some (_, st) => do
    let (s, st) ← versionMany fuel [] (ws st)
    match St.check .rparen (ws st) with
    | none => .error .invalidRequirement                               -- "Expected matching RIGHT_PARENTHESIS"
    | some (_, st) => pure (s, st)
  | none => do
    let (s, st) ← versionMany fuel [] (ws st)
    pure (s, ws st)

/-- `_parse_requirement_marker` -/
def parseReqMarker (fuel : Nat) (st : St) : Res (List M × St) :=
  match checkR .semicolon st with
  | none => .error .invalidRequirement                                 -- "Expected end or semicolon"
  | some (_, st) =>
    match parseMarker charTS fuel st with
    | .ok (m, st) => .ok (m, ws st)
    | .error .fuel => .error .fuel
    | .error _ => .error .invalidRequirement

/-- `_parse_requirement_details` -/
def parseDetails (fuel : Nat) (st : St) : Res (Str × Str × Option (List M) × St) :=
  match checkR .at_ st with
  | some (_, st) =>
    match checkR .url (ws st) with
    | none => .error .invalidRequirement                               -- "Expected URL after @"
    | some (url, st) =>
      if peekEnd st then .ok (url, [], none, st)
      else match St.check .ws st with
        | none => .error .invalidRequirement                           -- "Expected whitespace after URL"
        | some (_, st) =>
          if peekEnd st then .ok (url, [], none, st)
          else do
            let (m, st) ← parseReqMarker fuel st
            pure (url, [], some m, st)
  | none => do
    let (spec, st) ← parseSpecifier fuel st
    let st := ws st
    if peekEnd st then pure ([], spec, none, st)
    else do
      let (m, st) ← parseReqMarker fuel st
      pure ([], spec, some m, st)

/-- `_parse_requirement` -/
def parseRequirement (fuel : Nat) (st : St) : Res Parsed :=
  match checkR .identifier (ws st) with
  | none => .error .invalidRequirement                                 -- "Expected package name"
  | some (name, st) => do
    let (extras, st) ← parseExtras fuel (ws st)
    let (url, spec, marker, st) ← parseDetails fuel (ws st)
    if peekEnd st then pure ⟨name, url, extras, spec, marker⟩
    else .error .invalidRequirement                                    -- "Expected end of dependency specifier"

/-- `parse_requirement(source)` -/
def parseSource (src : Str) : Res Parsed := parseRequirement (fuelFor src.length) ⟨none, src⟩

/-! ## `ReqSpec`: the `SpecifierSet` a requirement holds -/

/-- `[s.strip() for s in specifiers.split(",") if s.strip()]` and `map(Specifier, clauses)` (`none` is
`InvalidSpecifier`): the functions of the `SpecifierSet` model -/
abbrev clauses := SSet.clauses
abbrev parseAll := SSet.parseAll

/-- `_canonical_spec`, the key of `Specifier.__eq__`/`__hash__`, as one string (operator index, then the text) -/
def opIndex : S.Op → Nat
  | .compatible => 0 | .eq => 1 | .ne => 2 | .le => 3 | .ge => 4 | .lt => 5 | .gt => 6 | .arbitrary => 7

def ckey (sp : S.Spec) : Option Str :=
  match sp.canonical with
  | .ok (op, v) => some (opIndex op :: v)
  | .error _ => none

/-- total version of the key (members of a constructed set all have one) -/
def key (sp : S.Spec) : Str := (ckey sp).getD (opIndex sp.op :: sp.ver)

def hasKey (l : List S.Spec) (k : Str) : Bool := l.any fun x => key x == k

/-- `set_add_entry`: an equal element already present is kept -/
def insertSpec (l : List S.Spec) (sp : S.Spec) : List S.Spec := if hasKey l (key sp) then l else l ++ [sp]

/-- `frozenset(iterable)`, in first-insertion order (the order is not observable) -/
def specSet (l : List S.Spec) : List S.Spec := l.foldl insertSpec []

/-- `SpecifierSet(parsed.specifier)._specs` -/
def mkSpecSet (s : Str) : Res (List S.Spec) :=
  match parseAll (clauses s) with
  | none => .error .invalidRequirement                                 -- `InvalidSpecifier` → `InvalidRequirement`
  | some sps => if sps.all fun sp => (ckey sp).isSome then .ok (specSet sps) else .error .rawInvalidVersion

/-- `str(SpecifierSet)`: `",".join(sorted(str(s) for s in self._specs))` -/
def specStr (ms : List S.Spec) : Str := join [44] (sortBy strLe (ms.map S.Spec.str))

/-- `SpecifierSet.__eq__`: equality of the two frozensets -/
def specEq (a b : List S.Spec) : Bool :=
  (a.all fun x => hasKey b (key x)) && (b.all fun x => hasKey a (key x))

/-! ## `Requirement` -/

/-- `set(list)` in first-insertion order -/
def dedup : List Str → List Str
  | [] => []
  | x :: xs => x :: (dedup xs).filter (· != x)

structure Requirement where
  name : Str
  url : Option Str
  /-- `set[str]`, in first-insertion order (not observable) -/
  extras : List Str
  /-- `SpecifierSet._specs` -/
  spec : List S.Spec
  marker : Option (List M)

/-- the marker model's external functions: only `canonicalize_name` is used here -/
def X : Ext := ⟨fun _ _ _ => none, Names.canon⟩

/-- `Requirement.__init__` after parsing -/
def ofParsed (p : Parsed) : Res Requirement := do
  let spec ← mkSpecSet p.specifier
  pure { name := p.name
         url := if p.url.isEmpty then none else some p.url
         extras := dedup p.extras
         spec := spec
         marker := p.marker.map (normalizeExtra X) }

/-- `Requirement(requirement_string)` -/
def parse (src : Str) : Res Requirement := parseSource src >>= ofParsed

/-- `sorted(self.extras)` -/
def sortedExtras (r : Requirement) : List Str := sortBy strLe r.extras

/-- `"".join(self._iter_parts(self.name))` -/
def str (r : Requirement) : Str :=
  r.name
  ++ (if r.extras.isEmpty then [] else [91] ++ join [44] (sortedExtras r) ++ [93])
  ++ (if r.spec.isEmpty then [] else specStr r.spec)
  ++ (match r.url with
      | some u => [64, 32] ++ u ++ (if r.marker.isSome then [32] else [])
      | none => [])
  ++ (match r.marker with
      | some m => [59, 32] ++ Mk.str m
      | none => [])

def setEq (a b : List Str) : Bool := (a.all fun x => b.contains x) && (b.all fun x => a.contains x)

def markerEq : Option (List M) → Option (List M) → Bool
  | none, none => true
  | some a, some b => Mk.eq a b
  | _, _ => false

/-- `Requirement.__eq__` -/
def eq (a b : Requirement) : Bool :=
  Names.canon a.name == Names.canon b.name && setEq a.extras b.extras && specEq a.spec b.spec &&
  a.url == b.url && markerEq a.marker b.marker

/-- what `Requirement.__hash__` hashes: canonical name, the two frozensets (as sorted lists of their
elements' own hash keys), url, the marker's hash key -/
structure HashKey where
  name : Str
  extras : List Str
  spec : List Str
  url : Option Str
  marker : Option (Str × Str)
  deriving DecidableEq, Repr

def hashKey (r : Requirement) : HashKey :=
  { name := Names.canon r.name
    extras := sortBy strLe (dedup r.extras)
    spec := sortBy strLe (dedup (r.spec.map key))
    url := r.url
    marker := r.marker.map Mk.hashKey }

end Req
