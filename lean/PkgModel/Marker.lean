import PkgModel.Py
import PkgModel.Generated.MarkerTok
/-!
# Marker — model of `packaging.markers` and of the marker part of `_parser.py` / `_tokenizer.py`

The model mirrors the code (C07, C09) **with the repairs proposed in findings_proposed/C07-fix-1,2 and
C09-fix-1…4 applied** (`_eval_op` falls back on `InvalidVersion`; `_get_env` raises
`UndefinedEnvironmentName`; `_format_marker` passes `first` on; `_normalize_extra_values` walks the whole
tree; `Value.serialize` chooses the delimiter; `literal_eval` failures become syntax errors).  The unrepaired
variants of the three string-form functions are kept as `C09.Old.*` with witnesses of what they broke.

* the context-sensitive tokenizer (`Tokenizer.check/read/consume/expect`) as `matchRule` on a state
  `(previous character, remaining text)` — the previous character is what `\b` looks at when
  `pattern.match(source, position)` is called with a position; rule data comes from
  `Generated/MarkerTok.lean` (regenerated from `DEFAULT_RULES` on every run);
* the recursive-descent functions one-to-one, generic in the token stream (`TS`), so that the same
  definitions run at character level (the driver, the correspondence) and at token level (the
  precedence theorem);
* `process_python_str` (= `ast.literal_eval` of the token text), `process_env_var`;
* `_normalize_extra_values`, `_format_marker`, `Node.serialize`, `Marker.__str__/__eq__/__hash__`;
* `_evaluate_markers`, `_eval_op`, `_normalize`, `Marker.evaluate`, `_repair_python_full_version`.

## The external interface (kept narrow on purpose)

The marker code calls two things that are modelled elsewhere: `Specifier(op + rhs).contains(lhs,
prereleases=True)` and `canonicalize_name`.  The model is parametric in exactly these two
functions (`Ext`).  In the driver they are finite tables supplied by the harness for the atoms of the
marker at hand (computed by calling the real `Specifier` / `canonicalize_name`); the integrator plugs
the Lean models in by giving another `Ext`.
-/
namespace Mk
open Py

/-- the two functions the marker code needs from elsewhere -/
structure Ext where
  /-- `specMatch op rhs lhs` = `some b` when `Specifier(op ++ rhs)` is a valid specifier, `lhs` is a valid
  version and `Specifier(op ++ rhs).contains(lhs, prereleases=True)` returns `b`; `none` when the
  constructor raises `InvalidSpecifier` or `contains` raises `InvalidVersion` (`_eval_op` treats both alike:
  it falls back to the string operator) -/
  specMatch : Str → Str → Str → Option Bool
  /-- `packaging.utils.canonicalize_name` -/
  canonName : Str → Str

/-! ## Exceptions -/

/-- exceptions that are *not* documented for the entry point at hand -/
inductive RawExc
  | syntaxError | unicodeEncodeError | keyError | attributeError | typeError | assertionError
  deriving DecidableEq, Repr

inductive Err
  /-- `ParserSyntaxError`, re-raised as `InvalidMarker` by `Marker.__init__` -/
  | invalidMarker
  /-- `UndefinedComparison` (documented for `evaluate`) -/
  | undefinedComparison
  /-- `UndefinedEnvironmentName` (documented for `evaluate`) -/
  | undefinedEnvironmentName
  | raw (e : RawExc)
  /-- the model's recursion fuel ran out (never on inputs the driver sizes fuel for) -/
  | fuel
  deriving DecidableEq, Repr

abbrev Res := Except Err

/-! ## Tree -/

/-- `Variable(value)` / `Value(value)` -/
inductive Node
  | var (s : Str)
  | val (s : Str)
  deriving DecidableEq, Repr

def Node.value : Node → Str
  | .var s => s
  | .val s => s

def Node.isVar : Node → Bool
  | .var _ => true
  | .val _ => false

/-- a marker item `(lhs, Op(op), rhs)` -/
structure Atom where
  lhs : Node
  op : Str
  rhs : Node
  deriving DecidableEq, Repr

/-- one element of a `MarkerList`: a tuple, a `str` ("and"/"or"), or a nested list -/
inductive M
  | atom (a : Atom)
  | bool (s : Str)
  | list (l : List M)
  deriving Repr

mutual
def M.beq : M → M → Bool
  | .atom a, .atom b => a == b
  | .bool s, .bool t => s == t
  | .list l, .list k => M.beqL l k
  | _, _ => false
def M.beqL : List M → List M → Bool
  | [], [] => true
  | a :: l, b :: k => M.beq a b && M.beqL l k
  | _, _ => false
end

/-! ## Tokenizer -/

inductive Rule
  | lparen | rparen | quoted | op | boolop | kwIn | kwNot | variable | ws | end_
  deriving DecidableEq, Repr

def inRanges (t : List (Nat × Nat)) (c : Nat) : Bool := t.any fun r => r.1 ≤ c && c ≤ r.2

/-- `\w` of a `str` pattern compiled without `re.ASCII` -/
def isWord (c : Nat) : Bool :=
  if c < 128 then inRanges Gen.MarkerTok.asciiWord c else inRanges Gen.MarkerTok.nonAsciiWord c

def isWordO : Option Nat → Bool
  | none => false
  | some c => isWord c

/-- `\b` between the character before the position (if any) and the character at it (if any) -/
def boundary (p n : Option Nat) : Bool := xor (isWordO p) (isWordO n)

/-- tokenizer state: the character just before `position` and `source[position:]` -/
structure St where
  prev : Option Nat
  rest : Str
  deriving DecidableEq, Repr

def lastOr : Str → Option Nat → Option Nat
  | [], d => d
  | [c], _ => some c
  | _ :: cs, d => lastOr cs d

/-- a rule with a finite language: optional `\b`, words in backtracking order, optional `\b` -/
def matchFin (d : Bool × List Str × Bool) (prev : Option Nat) (rest : Str) : Option Nat :=
  if d.1 && !boundary prev rest.head? then none else
  d.2.1.findSome? fun w =>
    if startsWith rest w && (!d.2.2 || boundary (lastOr w prev) (rest.drop w.length).head?)
    then some w.length else none

/-- index of the first occurrence -/
def indexOf? (q : Nat) : Str → Option Nat
  | [] => none
  | c :: cs => if c == q then some 0 else (indexOf? q cs).map (· + 1)

def matchQuoted (rest : Str) : Option Nat :=
  Gen.MarkerTok.quoteChars.findSome? fun q =>
    match rest with
    | c :: t => if c == q then (indexOf? q t).map (· + 2) else none
    | [] => none

def isWs (c : Nat) : Bool := Gen.MarkerTok.wsChars.contains c

def matchWs (rest : Str) : Option Nat :=
  let n := (rest.takeWhile isWs).length
  if n == 0 then none else some n

/-- `$` without MULTILINE: at the end, or just before a final newline -/
def matchEnd (rest : Str) : Option Nat :=
  if rest == [] || rest == [10] then some 0 else none

/-- `rules[name].match(source, position)`: length of the match -/
def matchRule (r : Rule) (prev : Option Nat) (rest : Str) : Option Nat :=
  match r with
  | .lparen => matchFin Gen.MarkerTok.rLparen prev rest
  | .rparen => matchFin Gen.MarkerTok.rRparen prev rest
  | .op => matchFin Gen.MarkerTok.rOp prev rest
  | .boolop => matchFin Gen.MarkerTok.rBoolop prev rest
  | .kwIn => matchFin Gen.MarkerTok.rIn prev rest
  | .kwNot => matchFin Gen.MarkerTok.rNot prev rest
  | .variable => matchFin Gen.MarkerTok.rVariable prev rest
  | .quoted => matchQuoted rest
  | .ws => matchWs rest
  | .end_ => matchEnd rest

/-- a token stream as the parser uses it: `check(name)` followed by `read()` -/
structure TS (σ : Type) where
  check : Rule → σ → Option (Str × σ)

/-- `check` + `read` on the source text -/
def St.check (r : Rule) (st : St) : Option (Str × St) :=
  match matchRule r st.prev st.rest with
  | none => none
  | some n => some (st.rest.take n, ⟨lastOr (st.rest.take n) st.prev, st.rest.drop n⟩)

def charTS : TS St := ⟨St.check⟩

/-! ## `process_python_str`, `process_env_var` -/

def hexVal? (c : Nat) : Option Nat :=
  if 48 ≤ c && c ≤ 57 then some (c - 48)
  else if 97 ≤ c && c ≤ 102 then some (c - 87)
  else if 65 ≤ c && c ≤ 70 then some (c - 55)
  else none

/-- exactly `n` hex digits -/
def takeHex : Nat → Str → Nat → Option (Nat × Str)
  | 0, s, acc => some (acc, s)
  | _ + 1, [], _ => none
  | n + 1, c :: cs, acc => match hexVal? c with
    | some d => takeHex n cs (acc * 16 + d)
    | none => none

def isOct (c : Nat) : Bool := 48 ≤ c && c ≤ 55

/-- up to `n` further octal digits -/
def takeOct : Nat → Str → Nat → Nat × Str
  | 0, s, acc => (acc, s)
  | _ + 1, [], acc => (acc, [])
  | n + 1, c :: cs, acc => if isOct c then takeOct n cs (acc * 8 + (c - 48)) else (acc, c :: cs)

def simpleEscape? (c : Nat) : Option Nat :=
  if c == 92 || c == 39 || c == 34 then some c
  else if c == 98 then some 8 else if c == 102 then some 12 else if c == 116 then some 9
  else if c == 110 then some 10 else if c == 114 then some 13 else if c == 118 then some 11
  else if c == 97 then some 7 else none

/-- the body of a Python (non-raw, non-bytes) string literal, decoded; `none` = `SyntaxError`.
`\N{…}` is not modelled (always an error here). -/
def unescape : Nat → Str → Option Str
  | 0, _ => none
  | _ + 1, [] => some []
  | _ + 1, [92] => none                       -- the backslash escapes the closing quote: unterminated
  | f + 1, 92 :: c :: r =>
    if c == 10 then unescape f r                -- line continuation
    else if c == 13 then (match r with | 10 :: r' => unescape f r' | _ => unescape f r)
    else match simpleEscape? c with
    | some v => (unescape f r).map (v :: ·)
    | none =>
      if isOct c then
        let (v, r') := takeOct 2 r (c - 48)
        (unescape f r').map (v :: ·)
      else if c == 120 then
        match takeHex 2 r 0 with
        | some (v, r') => (unescape f r').map (v :: ·)
        | none => none
      else if c == 117 then
        match takeHex 4 r 0 with
        | some (v, r') => (unescape f r').map (v :: ·)
        | none => none
      else if c == 85 then
        match takeHex 8 r 0 with
        | some (v, r') => if v ≤ 0x10FFFF then (unescape f r').map (v :: ·) else none
        | none => none
      else if c == 78 then none
      else (unescape f r).map (fun t => 92 :: c :: t)     -- unknown escape: kept (SyntaxWarning only)
  | f + 1, c :: r => if c == 10 || c == 13 then none else (unescape f r).map (c :: ·)

def isSurrogate (c : Nat) : Bool := 0xD800 ≤ c && c ≤ 0xDFFF

/-- `Value(str(ast.literal_eval(token)))` for a QUOTED_STRING token (delimiters included) -/
def pyStrLit (tok : Str) : Res Str :=
  if tok.any isSurrogate then .error (.raw .unicodeEncodeError)      -- source cannot be encoded
  else if tok.contains 0 then .error (.raw .syntaxError)              -- "cannot contain null bytes"
  else
    let body := (tok.drop 1).dropLast
    if body.contains 92 || body.contains 10 || body.contains 13 then
      match unescape (body.length + 1) body with
      | some v => .ok v
      | none => .error (.raw .syntaxError)
    else .ok body

def s_platform_python_implementation : Str :=
  [112, 108, 97, 116, 102, 111, 114, 109, 95, 112, 121, 116, 104, 111, 110, 95, 105, 109, 112, 108, 101, 109, 101, 110, 116, 97, 116, 105, 111, 110]
def s_python_implementation : Str :=
  [112, 121, 116, 104, 111, 110, 95, 105, 109, 112, 108, 101, 109, 101, 110, 116, 97, 116, 105, 111, 110]

/-- `process_env_var(text.replace(".", "_"))` -/
def processEnvVar (text : Str) : Node :=
  let v := text.map fun c => if c == 46 then 95 else c
  if v == s_platform_python_implementation || v == s_python_implementation
  then .var s_platform_python_implementation else .var v

/-! ## Recursive descent (generic in the token stream) -/

def s_in : Str := [105, 110]
def s_not_in : Str := [110, 111, 116, 32, 105, 110]
def s_and : Str := [97, 110, 100]
def s_or : Str := [111, 114]

section Parser
variable {σ : Type} (S : TS σ)

/-- `tokenizer.consume(name)` -/
def consume (r : Rule) (st : σ) : σ :=
  match S.check r st with
  | some (_, st') => st'
  | none => st

/-- `_parse_marker_var` -/
def parseVar (st : σ) : Res (Node × σ) :=
  match S.check .variable st with
  | some (t, st') => .ok (processEnvVar t, st')
  | none =>
    match S.check .quoted st with
    | some (t, st') =>
      (match pyStrLit t with                      -- `except (SyntaxError, ValueError): raise_syntax_error`
       | .ok v => .ok (.val v, st')
       | .error _ => .error .invalidMarker)
    | none => .error .invalidMarker

/-- `_parse_marker_op` -/
def parseOp (st : σ) : Res (Str × σ) :=
  match S.check .kwIn st with
  | some (_, st') => .ok (s_in, st')
  | none =>
    match S.check .kwNot st with
    | some (_, st1) =>
      (match S.check .ws st1 with
       | none => .error .invalidMarker
       | some (_, st2) =>
         match S.check .kwIn st2 with
         | none => .error .invalidMarker
         | some (_, st3) => .ok (s_not_in, st3))
    | none =>
      match S.check .op st with
      | some (t, st') => .ok (t, st')
      | none => .error .invalidMarker

/-- `_parse_marker_item` -/
def parseItem (st : σ) : Res (Atom × σ) := do
  let st := consume S .ws st
  let (l, st) ← parseVar S st
  let st := consume S .ws st
  let (o, st) ← parseOp S st
  let st := consume S .ws st
  let (r, st) ← parseVar S st
  let st := consume S .ws st
  pure (⟨l, o, r⟩, st)

mutual
/-- `_parse_marker` -/
def parseMarker : Nat → σ → Res (List M × σ)
  | 0, _ => .error .fuel
  | f + 1, st => do
    let (a, st) ← parseAtom f st
    parseRest f [a] st
/-- the `while tokenizer.check("BOOLOP")` loop of `_parse_marker` -/
def parseRest : Nat → List M → σ → Res (List M × σ)
  | 0, _, _ => .error .fuel
  | f + 1, acc, st =>
    match S.check .boolop st with
    | none => .ok (acc, st)
    | some (t, st) => do
      let (b, st) ← parseAtom f st
      parseRest f (acc ++ [.bool t, b]) st
/-- `_parse_marker_atom` (with `enclosing_tokens` inlined) -/
def parseAtom : Nat → σ → Res (M × σ)
  | 0, _ => .error .fuel
  | f + 1, st =>
    let st := consume S .ws st
    match S.check .lparen st with
    | some (_, st) => do
      let st := consume S .ws st
      let (m, st) ← parseMarker f st
      let st := consume S .ws st
      match S.check .rparen st with
      | none => .error .invalidMarker
      | some (_, st) => pure (.list m, consume S .ws st)
    | none => do
      let (a, st) ← parseItem S st
      pure (.atom a, consume S .ws st)
end

/-- `_parse_full_marker` -/
def parseFull (fuel : Nat) (st : σ) : Res (List M) := do
  let (m, st) ← parseMarker S fuel st
  match S.check .end_ st with
  | some _ => pure m
  | none => .error .invalidMarker

end Parser

/-- recursion fuel that is enough for a source of `n` characters -/
def fuelFor (n : Nat) : Nat := 3 * n + 8

/-- `parse_marker(source)` -/
def parse (src : Str) : Res (List M) := parseFull charTS (fuelFor src.length) ⟨none, src⟩

/-! ## `_normalize_extra_values`, `Marker.__init__` -/

def s_extra : Str := [101, 120, 116, 114, 97]

def isExtraVar : Node → Bool
  | .var s => s == s_extra
  | .val _ => false

/-- one tuple: the operand compared with `extra` becomes `Value(canonicalize_name(…))` -/
def normAtom (X : Ext) (a : Atom) : Atom :=
  if isExtraVar a.lhs then ⟨a.lhs, a.op, .val (X.canonName a.rhs.value)⟩
  else if isExtraVar a.rhs then ⟨.val (X.canonName a.lhs.value), a.op, a.rhs⟩
  else a

mutual
def normM (X : Ext) : M → M
  | .atom a => .atom (normAtom X a)
  | .bool s => .bool s
  | .list l => .list (normalizeExtra X l)
/-- `_normalize_extra_values`: every tuple, at every depth -/
def normalizeExtra (X : Ext) : List M → List M
  | [] => []
  | m :: ms => normM X m :: normalizeExtra X ms
end

/-- `Marker(src)._markers` -/
def mkMarker (X : Ext) (src : Str) : Res (List M) := (parse src).map (normalizeExtra X)

/-! ## `_format_marker`, `serialize`, `__str__`, `__eq__`, `__hash__` -/

/-- `Variable.serialize` / `Value.serialize`: `'…'` when the value contains `"`, else `"…"` -/
def Node.serialize : Node → Str
  | .var s => s
  | .val s => if s.contains 34 then [39] ++ s ++ [39] else [34] ++ s ++ [34]

def Atom.serialize (a : Atom) : Str :=
  a.lhs.serialize ++ [32] ++ a.op ++ [32] ++ a.rhs.serialize

def isListOrTuple : M → Bool
  | .bool _ => false
  | _ => true

def wrapParens (first : Bool) (inner : Str) : Str :=
  if first then inner else [40] ++ inner ++ [41]

mutual
/-- `_format_marker(marker, first)` for a tuple / str / list element -/
def fmtM : M → Bool → Str
  | .atom a, _ => a.serialize
  | .bool s, _ => s
  | .list l, first => fmtL l first
/-- `_format_marker(marker, first)` for a list; the single-element short cut passes `first` on -/
def fmtL : List M → Bool → Str
  | [.atom a], _ => a.serialize
  | [.list l], first => fmtL l first
  | [], first => wrapParens first []
  | [.bool s], first => wrapParens first s
  | m₁ :: m₂ :: ms, first => wrapParens first (join [32] (fmtM m₁ false :: fmtM m₂ false :: fmtEach ms))
/-- `(_format_marker(m, first=False) for m in marker)` -/
def fmtEach : List M → List Str
  | [] => []
  | m :: ms => fmtM m false :: fmtEach ms
end

/-- `str(marker)` -/
def str (m : List M) : Str := fmtL m true

/-- `Marker.__eq__` -/
def eq (a b : List M) : Bool := str a == str b

/-- the tuple `Marker.__hash__` hashes (`hash` itself is an uninterpreted function of it) -/
def hashKey (a : List M) : Str × Str := ([77, 97, 114, 107, 101, 114], str a)

/-! ## Evaluation -/

/-- environment: a `dict`, later entries override earlier ones; values may be `None` -/
abbrev Env := List (Str × Option Str)

def Env.get? (e : Env) (k : Str) : Option (Option Str) :=
  match e.reverse.find? (fun p => p.1 == k) with
  | some p => some p.2
  | none => none

def s_pfv : Str := [112, 121, 116, 104, 111, 110, 95, 102, 117, 108, 108, 95, 118, 101, 114, 115, 105, 111, 110]
def s_local : Str := [108, 111, 99, 97, 108]

/-- `Marker.evaluate`'s environment: defaults, `extra = ""`, `update(environment)`, `None → ""` for
`extra`, `_repair_python_full_version` -/
def buildEnv (dflt : List (Str × Str)) (supplied : Option Env) : Res Env := do
  let cur : Env := dflt.map (fun p => (p.1, some p.2)) ++ [(s_extra, some [])]
  let cur : Env := match supplied with
    | none => cur
    | some e =>
      let cur := cur ++ e
      match cur.get? s_extra with
      | some none => cur ++ [(s_extra, some [])]
      | _ => cur
  match cur.get? s_pfv with
  | none => .error (.raw .keyError)
  | some none => .error (.raw .attributeError)
  | some (some v) => if endsWith v [43] then pure (cur ++ [(s_pfv, some (v ++ s_local))]) else pure cur

/-- `needle in hay` -/
def isInfix : Str → Str → Bool
  | [], _ => true
  | _ :: _, [] => false
  | n, h :: hs => startsWith (h :: hs) n || isInfix n hs

/-- the behaviours found in `markers._operators` (ids as emitted by the translator) -/
def applyOp (id : Nat) (l r : Str) : Option Bool :=
  match id with
  | 0 => some (strLt l r)
  | 1 => some (strLe l r)
  | 2 => some (l == r)
  | 3 => some (l != r)
  | 4 => some (strLe r l)
  | 5 => some (strLt r l)
  | 6 => some (isInfix l r)
  | 7 => some (!isInfix l r)
  | _ => none

/-- `_eval_op` -/
def evalOp (X : Ext) (lhs op rhs : Str) : Res Bool :=
  match X.specMatch op rhs lhs with
  | some b => .ok b
  | none =>
    match Gen.MarkerTok.opTable.lookup op with
    | none => .error .undefinedComparison
    | some id => match applyOp id lhs rhs with
      | some b => .ok b
      | none => .error (.raw .typeError)

/-- `_normalize(lhs, rhs, key=key)` -/
def normalize (X : Ext) (l r key : Str) : Str × Str :=
  if key == s_extra then (X.canonName l, X.canonName r) else (l, r)

/-- `_get_env` -/
def lookupEnv (env : Env) (k : Str) : Res Str :=
  match env.get? k with
  | none => .error .undefinedEnvironmentName
  | some none => .error (.raw .typeError)      -- a `None` for a key other than `extra`: outside the domain
  | some (some v) => .ok v

/-- the operands `_evaluate_markers` hands to `_eval_op` for one tuple -/
def operands (X : Ext) (env : Env) (a : Atom) : Res (Str × Str) :=
  match a.lhs with
  | .var k => (lookupEnv env k).map fun v => normalize X v a.rhs.value k
  | .val l => (lookupEnv env a.rhs.value).map fun v => normalize X l v a.rhs.value

def evalAtom (X : Ext) (env : Env) (a : Atom) : Res Bool := do
  let (l, r) ← operands X env a
  evalOp X l a.op r

/-- `any(all(item) for item in groups)` -/
def anyAll (gs : List (List Bool)) : Bool := gs.any fun g => g.all id

mutual
/-- the value appended to `groups[-1]` for a tuple or a nested list (the recursive call of
`_evaluate_markers` is the inner `evalLoop … [] []`) -/
def evalItem (ν : Atom → Res Bool) : M → Res Bool
  | .atom a => ν a
  | .list l => (evalLoop ν l [] []).map anyAll
  | .bool _ => .error (.raw .assertionError)
/-- the `for marker in markers` loop with `groups = done ++ [cur]` -/
def evalLoop (ν : Atom → Res Bool) : List M → List (List Bool) → List Bool → Res (List (List Bool))
  | [], done, cur => .ok (done ++ [cur])
  | .bool s :: rest, done, cur =>
    if s == s_or then evalLoop ν rest (done ++ [cur]) []
    else if s == s_and then evalLoop ν rest done cur
    else .error (.raw .assertionError)
  | .atom a :: rest, done, cur => do
    let b ← evalItem ν (.atom a)
    evalLoop ν rest done (cur ++ [b])
  | .list l :: rest, done, cur => do
    let b ← evalItem ν (.list l)
    evalLoop ν rest done (cur ++ [b])
end

/-- `_evaluate_markers` -/
def evalMarkers (ν : Atom → Res Bool) (l : List M) : Res Bool :=
  (evalLoop ν l [] []).map anyAll

/-- `Marker.evaluate(environment)` -/
def evaluate (X : Ext) (dflt : List (Str × Str)) (supplied : Option Env) (m : List M) : Res Bool := do
  let env ← buildEnv dflt supplied
  evalMarkers (evalAtom X env) m

end Mk
