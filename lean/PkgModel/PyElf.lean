import PkgModel.PyRt
import PkgModel.Elf
/-!
# PyElf — run-time primitives for the translated `_elffile.ELFFile` (x6)

* `bytes` values are `obj "bytes" [("v", list of ints 0..255)]`.
* the binary file handed to `ELFFile(f)` is `obj "BytesIO" [("data", bytes), ("pos", int)]` (the `io.BytesIO` behaviour the
  C16 model `Elf.lean` also assumes: a short read past the end, `seek` accepts every offset up to `ssizeMax`).  It lives in
  the instance field `_f`; the translator turns `self._f.seek(x)` / `self._read(fmt)` into functional updates of `self`
  (`seek`, `read_struct`), guarded by a digest of the source of `ELFFile._read`, which `read_struct` mirrors:
  `struct.unpack(fmt, self._f.read(struct.calcsize(fmt)))`.
* `struct.unpack` shares the decoding of fixed-width unsigned fields with the model (`Elf.unpack`); what is run-time here
  is the reading of the *format string* (`fmtSizes`: byte-order mark, repeat counts, the codes `B H I Q`), so the layout
  strings in the source of `ELFFile.__init__` are tied to the regenerated table `Gen.TagTables.elfFormats` by the theorem.
  A `struct.error` is the exception `"error"` (the name of the class).
* when `struct.unpack` fails inside a `try`, CPython has already advanced the file position while the translated code
  restores `self`; the callers either abandon the object (`__init__`) or `seek` before the next read (`interpreter`).
* `os.fsdecode` is the identity on ASCII bytes; other bytes are outside the run-time (`PyRtUnsupported`).
-/
namespace PyElf
open Py PyRt Elf

def ofBytes (b : List Nat) : PyVal := .obj "bytes" [("v", .list (b.map fun (n : Nat) => PyVal.int n))]

def natsOf : List PyVal → Option (List Nat)
  | [] => some []
  | .int i :: r => if 0 ≤ i ∧ i < 256 then (natsOf r).map (i.toNat :: ·) else Option.none
  | _ => Option.none

def bytesOf : PyVal → Option (List Nat)
  | .obj "bytes" [("v", .list l)] => natsOf l
  | _ => Option.none

/-- `bytes(xs)` for an iterable of ints -/
def bytes_of (xs : PyVal) : M PyVal := do
  let l ← iterate xs
  match natsOf l with
  | some b => pure (ofBytes b)
  | Option.none => if l.all (fun v => (asInt v).isSome) then throw valueError else throw typeError

def fileOf (data : List Nat) (pos : Nat) : PyVal := .obj "BytesIO" [("data", ofBytes data), ("pos", .int pos)]

def fileParts : PyVal → Option (List Nat × Nat)
  | .obj "BytesIO" [("data", d), ("pos", .int p)] => (bytesOf d).bind fun b => if 0 ≤ p then some (b, p.toNat) else Option.none
  | _ => Option.none

/-! ## struct formats -/

def codeSize (c : Nat) : Option Nat :=
  if c == 66 then some 1 else if c == 72 then some 2 else if c == 73 then some 4 else if c == 81 then some 8 else Option.none

/-- items of a format: `<count><code>`; a missing count is 1 -/
def fmtItems : Nat → Str → Option (List Nat)
  | 0, _ => Option.none
  | _ + 1, [] => some []
  | fuel + 1, s =>
    let d := spanDigits s
    match d.2 with
    | [] => Option.none
    | c :: rest =>
      match codeSize c with
      | Option.none => Option.none
      | some k =>
        let n := if d.1.isEmpty then 1 else undec d.1
        (fmtItems fuel rest).map fun r => List.replicate n k ++ r

/-- `(little-endian?, field sizes)` of a format string; without a byte-order mark only single bytes are read (native
alignment is not modelled) -/
def fmtSizes (s : Str) : Option (Bool × List Nat) :=
  match s with
  | 60 :: r => (fmtItems (r.length + 1) r).map fun l => (true, l)
  | 62 :: r => (fmtItems (r.length + 1) r).map fun l => (false, l)
  | _ => (fmtItems (s.length + 1) s).bind fun l => if l.all (· == 1) then some (true, l) else Option.none

def structError : PyExc := "error"

/-- `self._read(fmt)`: the tuple of fields and the object with the file position advanced -/
def read_struct (self fmt : PyVal) : M PyVal := do
  let f ← getattr self "_f"
  match fileParts f, fmt with
  | some (data, pos), .str s =>
    (match fmtSizes s with
     | Option.none => throw "PyRtUnsupported"
     | some (le, sizes) =>
       let chunk := readAt data pos sizes.sum
       match Elf.unpack le sizes chunk with
       | Option.none => throw structError
       | some fields => do
         let self' ← setattr self "_f" (fileOf data (pos + chunk.length))
         pure (.tuple [.tuple (fields.map fun (n : Nat) => PyVal.int n), self']))
  | _, _ => throw typeError

/-- `self._f.seek(off)` -/
def seek (self off : PyVal) : M PyVal := do
  let f ← getattr self "_f"
  match fileParts f, asInt off with
  | some (data, _), some o =>
    if o < 0 then throw valueError
    else if o.toNat > ssizeMax then throw "OverflowError"
    else setattr self "_f" (fileOf data o.toNat)
  | _, _ => throw typeError

/-- `self._f.read(n)` (the position afterwards is dropped: the translator only accepts it in a `return`) -/
def read (self n : PyVal) : M PyVal := do
  let f ← getattr self "_f"
  match fileParts f, asInt n with
  | some (data, pos), some k =>
    if k < 0 then throw "PyRtUnsupported"
    else if k.toNat > ssizeMax then throw "OverflowError"
    else pure (ofBytes (readAt data pos k.toNat))
  | _, _ => throw typeError

/-- `os.fsdecode(b)` on ASCII bytes -/
def fsdecode (b : PyVal) : M PyVal :=
  match bytesOf b with
  | some l => if l.all (· < 128) then pure (.str l) else throw "PyRtUnsupported"
  | Option.none => throw typeError

/-- `s.strip(chars)` -/
def str_strip_chars (s chars : PyVal) : M PyVal :=
  match s, chars with
  | .str s, .str cs => pure (.str (stripBy (fun c => cs.contains c) s))
  | .str _, _ => throw typeError
  | _, _ => throw attributeError

end PyElf
