import PkgModel.PyRx
import PkgModel.PyObj
/-!
# PySet — run-time primitives of the fifth round (x5): frozenset fields with an *order parameter*, objects updated after
construction, `sorted`, `str.format(*args)`, `iter`, the `Specifier` constructor

Sets are the records of `PyRx.lean` (`obj "frozenset" [("items", list)]`: members in first-insertion order, without
duplicates modulo the translated `__eq__` of the member class).  CPython iterates a set in hash-table order, which is not
modelled.  Translated code that *iterates* a frozenset held in an instance field therefore goes through `iter_ord`, which
reads the order from the environment table (`PyRt.Env`, key `frozenset.order`): the value is a priority list, members
listed there come first in the listed order, the others follow in insertion order.  The equivalence theorems hold for every
environment, i.e. for every iteration order (`PkgProofs/Lemmas/PySet.lean`: every permutation of the members is `order env`
for some `env`), and `src.call` makes the real frozenset iterate in the order it sends.
-/
namespace PySet
open PyRt Py

/-! ## iteration order of a frozenset -/

def orderKey : String := "frozenset.order"

/-- the members of `prio` that occur in `l` (in the order of `prio`), then the members of `l` that `prio` does not list -/
def orderBy (prio l : List PyVal) : List PyVal :=
  prio.filter (fun p => l.any fun x => PyVal.eq p x) ++ l.filter (fun x => !(prio.any fun p => PyVal.eq p x))

/-- the iteration order of a set whose members are `l` (first-insertion order) -/
def order (env : Env) (l : List PyVal) : List PyVal :=
  match lookupField env orderKey with
  | some (.list prio) => orderBy prio l
  | _ => l

/-- `iter(s)` / `for x in s` / `(… for x in s)` for a frozenset `s` held in an instance field -/
def iter_ord (env : Env) (s : PyVal) : M PyVal :=
  match PyRx.setItems s with
  | some l => pure (.iter (order env l))
  | Option.none => do return .iter (← iterate s)

/-- truth value of a set (empty is false) -/
def set_truthy (s : PyVal) : Bool :=
  match PyRx.setItems s with
  | some l => !l.isEmpty
  | Option.none => truthy s

/-- `len(s)` -/
def set_len (s : PyVal) : M PyVal :=
  match PyRx.setItems s with
  | some l => pure (.int l.length)
  | Option.none => PyRt.len s

/-- `a | b`: the members of `a`, then those of `b` that are not equal to a member already there (`set_update_internal`) -/
def set_union (eqf : PyVal → PyVal → M PyVal) (a b : PyVal) : M PyVal :=
  match PyRx.setItems a, PyRx.setItems b with
  | some la, some lb => do return PyRx.mkSet (className a) (← PyRx.dedupM eqf la lb)
  | _, _ => throw typeError

/-- every member of `la` has an equal member in `lb` (`set_issubset`; the stored member is the left operand of `==`) -/
def subsetM (eqf : PyVal → PyVal → M PyVal) (lb : List PyVal) : List PyVal → M Bool
  | [] => pure true
  | x :: xs => do if (← PyRx.memM eqf x lb) then subsetM eqf lb xs else pure false

/-- `a == b` on sets: equal sizes and `a ⊆ b` -/
def set_eq (eqf : PyVal → PyVal → M PyVal) (a b : PyVal) : M PyVal :=
  match PyRx.setItems a, PyRx.setItems b with
  | some la, some lb => if la.length != lb.length then pure (.bool false) else do return .bool (← subsetM eqf lb la)
  | _, _ => pure (PyRt.eq a b)

/-- first occurrences, in order; `hash(x)` is evaluated for every element before the table is probed -/
def dedupHM (hashf : PyVal → M PyVal) (eqf : PyVal → PyVal → M PyVal) : List PyVal → List PyVal → M (List PyVal)
  | acc, [] => pure acc
  | acc, x :: xs => do
    let _ ← hashf x
    if (← PyRx.memM eqf x acc) then dedupHM hashf eqf acc xs else dedupHM hashf eqf (acc ++ [x]) xs

/-- `frozenset(xs)` / `set(xs)` for members whose `__hash__` is translated code (it may raise): a set is relabelled (the
stored hashes are reused), any other iterable is hashed and deduplicated element by element -/
def set_of_h (kind : String) (hashf : PyVal → M PyVal) (eqf : PyVal → PyVal → M PyVal) (xs : PyVal) : M PyVal :=
  match PyRx.setItems xs with
  | some l => pure (PyRx.mkSet kind l)
  | Option.none => do return PyRx.mkSet kind (← dedupHM hashf eqf [] (← iterate xs))

/-! ## builtins -/

/-- `iter(v)` of a sequence / iterator (materialised) -/
def iter_ (v : PyVal) : M PyVal := do return .iter (← iterate v)

def strsOf : List PyVal → Option (List Str)
  | [] => some []
  | .str s :: r => (strsOf r).map (s :: ·)
  | _ => Option.none

/-- `sorted(xs)` for strings (code-point order; stable, which is unobservable for equal strings) -/
def sorted_ (xs : PyVal) : M PyVal := do
  -- the result does not depend on the order in which a set hands out its members
  match strsOf (← (match PyRx.setItems xs with | some l => pure l | Option.none => iterate xs)) with
  | some ss => pure (.list ((sortBy strLe ss).map .str))
  | Option.none => throw "PyRtUnsupported"

/-- `"p0{}p1{}…pn".format(*args)`: the literal parts are split off by the translator; surplus arguments are ignored, a
missing one is `IndexError` -/
def formatStar : List Str → List PyVal → M Str
  | [], _ => pure []
  | [p], _ => pure p
  | _ :: _ :: _, [] => throw indexError
  | p :: q :: ps, a :: as => do return p ++ (← format a) ++ (← formatStar (q :: ps) as)

def format_star (parts : List Str) (args : PyVal) : M PyVal := do
  return .str (← formatStar parts (← iterate args))

/-- `s.strip()` (what `str.isspace` accepts) -/
def str_strip : PyVal → M PyVal
  | .str s => pure (.str (strip s))
  | _ => throw attributeError

/-! ## `Specifier(spec, prereleases)`

The constructor is a primitive backed by the scanner `S.parseSpec`, which accepts exactly the language of the regenerated
`Specifier._regex` (`C12.parseSpec_accepts_iff_source_regex`); what the groups capture is tied by the C04/C12
correspondence.  The translator only uses it while the source of `Specifier.__init__` is the text the scanner mirrors
(`PRIMITIVE_INIT_GUARDS`). -/
def mkSpecifier (cls : String) (spec pre : PyVal) : M PyVal :=
  match spec with
  | .str s =>
    (match S.parseSpec s with
     | some sp => pure (.obj cls [("_spec", .tuple [.str sp.op.str, .str sp.ver]), ("_prereleases", pre)])
     | Option.none => throw "InvalidSpecifier")
  | _ => throw typeError

end PySet
