import PkgModel.PyMeta
/-!
# PyMd — x6 additions for the translated functions of `packaging.metadata`

`_process_description_content_type` talks to an `email.message.EmailMessage`; the translator turns
`message["content-type"] = value` into the oracle call `EmailMessage.set_content_type(value)`, whose answer stands for
the pair `(message.get_content_type().lower(), message["content-type"].params)` — what `Meta.Oracle.ctype` answers in the
model (`CTVerdict`).  `extOf6` extends `PyMeta.extOf` with that call (a new definition: the existing one is left alone).
-/
namespace PyMd
open Py PyRt

def optEntry (k : String) : Option Str → List (PyVal × PyVal)
  | some v => [(.str (ofString k), .str v)]
  | Option.none => []

/-- the header setter's verdict as the outcome of the oracle call; the documented failure travels as `ValueError` -/
def ofCT : Meta.CTVerdict → M PyVal
  | .parsed ct charset variant => .ok (.tuple [.str ct, .dict (optEntry "charset" charset ++ optEntry "variant" variant)])
  | .bad => .error "ValueError"
  | .esc cls => .error (toStringLossy cls)

def extOf6 (o : Meta.Oracle) : PyRt.Oracle := fun name args =>
  if name == "EmailMessage.set_content_type" then
    (match args with
     | [.str s] => ofCT (o.ctype s)
     | _ => .error "PyRtOracleMissing")
  else PyMeta.extOf o name args

end PyMd

namespace PyMd
open Py PyRt

/-! ## x6: the instance `__dict__` of a `Metadata` object is the field list of the record -/

/-- `instance.__dict__[name] = v` -/
def setattr_dyn (o name v : PyVal) : M PyVal :=
  match name with
  | .str s => setattr o (toStringLossy s) v
  | _ => throw typeError

/-- `del o.<field>[key]` for a dict held in an instance field (`KeyError` when the key is missing) -/
def del_field_item (o : PyVal) (field : String) (key : PyVal) : M PyVal := do
  match (← getattr o field) with
  | .dict kvs =>
    if !hashable key then throw typeError else
    (match dictLookup kvs key with
     | some _ => setattr o field (.dict (dictErase kvs key))
     | Option.none => throw "KeyError")
  | _ => throw typeError

end PyMd
