import PkgModel.Py
import PkgModel.Rx
import PkgModel.Spec.Kinds
/-!
# Spec of C13, written from the property statement

* `fold` : "lower-cases and replaces every maximal run of `-`, `_` and `.` by a single `-`" — cut the string
  into its maximal groups of separator / non-separator characters, replace each separator group by `-`,
  lower-case (ASCII by rule; other code points through the `lowerCp` parameter).
* `validName` : "ASCII letters/digits, with `.`, `_`, `-` only in the interior", as a predicate on code
  points, and `validRx` the same language as a regex over the named character kinds (for the
  bisimulation with the pattern regenerated from the source).
* `normalized n` : "`n` is such a valid name and is its own canonical form".
-/
namespace NameSpec
open Py Rx

def isSep (c : Nat) : Bool := c == 45 || c == 95 || c == 46

/-- maximal groups of consecutive characters with the same value of `p` -/
def chunks (p : Nat → Bool) : Str → List Str
  | [] => []
  | c :: cs =>
    match chunks p cs with
    | (d :: ds) :: rest => if p c == p d then (c :: d :: ds) :: rest else [c] :: (d :: ds) :: rest
    | _ => [[c]]

/-- a separator group becomes `-`; any other group is lower-cased character by character -/
def renderChunk (lowerCp : Nat → Str) : Str → Str
  | [] => []
  | d :: ds => if isSep d then [45] else (d :: ds).flatMap lowerCp

def fold (lowerCp : Nat → Str) (s : Str) : Str := (chunks isSep s).flatMap (renderChunk lowerCp)

/-- ASCII letter or digit -/
def alnum (c : Nat) : Bool := isDigit c || isLowerAscii c || isUpperAscii c

/-- non-empty, only ASCII letters, digits and separators, first and last character a letter or digit -/
def validName (s : Str) : Bool :=
  s.all (fun c => alnum c || isSep c) &&
  (match s.head? with | some c => alnum c | none => false) &&
  (match s.getLast? with | some c => alnum c | none => false)

/-- "a valid name that is its own canonical form" -/
def normalized (lowerCp : Nat → Str) (s : Str) : Bool := validName s && fold lowerCp s == s

/-! ### the valid-name language over character kinds (`Kinds.kindCS`: upper-case letters 43..68) -/

def alnumKinds : List Nat := Kinds.digit :: (List.range 26).map (· + 2) ++ (List.range 26).map (· + 43)
def sepKinds : List Nat := [Kinds.dot, Kinds.dash, Kinds.under]

/-- `alnum | alnum (alnum | sep)* alnum` -/
def validRx (kinds : List Nat) : R :=
  let a := Kinds.K kinds alnumKinds
  let m := Kinds.K kinds (alnumKinds ++ sepKinds)
  .cat a (opt (.cat (.star m) a))

/-- normalised names as a regex: runs of lower-case letters/digits separated by single dashes -/
def lowKinds : List Nat := Kinds.digit :: (List.range 26).map (· + 2)
def normalizedRx (kinds : List Nat) : R :=
  let a := Kinds.K kinds lowKinds
  .cat (plus a) (.star (.cat (Kinds.K kinds [Kinds.dash]) (plus a)))

end NameSpec
