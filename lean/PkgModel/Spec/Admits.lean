import PkgModel.Specifier
import PkgModel.Spec.Pep440
/-!
# Spec: which candidates a PEP 440 specifier clause admits (pre-releases enabled)

Written from the statement of property C03, on version *structures* (`V.Ver`) and the
PEP 440 order `Pep440.cmp`; no strings are involved except for `===`, whose meaning is
string equality.

* `==V` / `!=V`     : equal as versions, the candidate's local label being ignored unless `V`
                      carries one (then the comparison is strict);
* `==V.*` / `!=V.*` : `V`'s epoch equals the candidate's and `V`'s release is a zero-padded
                      prefix of the candidate's release;
* `~=V`             : `>=V` and `==P.*` where `P` is `V`'s epoch and release minus its last component;
* `<=V` / `>=V`     : the PEP 440 order on the candidate's public version;
* `===S`            : case-insensitive equality of `S` with the candidate's normalised string;
* `<V`              : below `V` in the order, but not a pre-release of `V`'s own release unless `V`
                      is itself a pre-release;
* `>V`              : above `V` in the order, but not a post-release of `V`'s own release unless `V`
                      is itself a post-release, and not a local version of `V`.
-/
namespace Pep440
open V Py

/-- the candidate without its local label (`Version.public` as a version) -/
def pub (c : Ver) : Ver := { c with loc := none }

def isLT : Ordering → Bool | .lt => true | _ => false
def isEQ : Ordering → Bool | .eq => true | _ => false
def isGT : Ordering → Bool | .gt => true | _ => false

/-- `r` is a zero-padded prefix of `cr`: with the missing components of `cr` read as zero, the first
`r.length` components of `cr` are exactly `r` -/
def zeroPadPrefix : List Nat → List Nat → Bool
  | [], _ => true
  | a :: as, [] => a == 0 && zeroPadPrefix as []
  | a :: as, b :: bs => a == b && zeroPadPrefix as bs

/-- `V.*`: same epoch, and `V`'s release is a zero-padded prefix of the candidate's -/
def prefixMatch (epoch : Nat) (release : List Nat) (c : Ver) : Bool :=
  c.epoch == epoch && zeroPadPrefix release c.release

/-- the two versions have the same release (same epoch, releases equal up to trailing zeros) -/
def sameRelease (a b : Ver) : Bool :=
  a.epoch == b.epoch && isEQ (padCmp a.release b.release)

/-- `c` is a local version of `v`: it has a local label and is `v` without it -/
def localVersionOf (c v : Ver) : Bool := c.loc.isSome && isEQ (cmp (pub c) v)

/-- Does the clause `op V` (`V.*` when `wild`; `raw` is the clause text after the operator, used by
`===` only) admit candidate `c`, pre-releases being enabled? -/
def admits (op : S.Op) (v : Ver) (wild : Bool) (raw : Str) (c : Ver) : Bool :=
  match op with
  | .eq =>
    if wild then prefixMatch v.epoch v.release c
    else isEQ (cmp (if v.loc.isNone then pub c else c) v)
  | .ne =>
    if wild then !prefixMatch v.epoch v.release c
    else !isEQ (cmp (if v.loc.isNone then pub c else c) v)
  | .compatible => !isLT (cmp (pub c) v) && prefixMatch v.epoch v.release.dropLast c
  | .le => !isGT (cmp (pub c) v)
  | .ge => !isLT (cmp (pub c) v)
  | .arbitrary => lowerStr c.str == lowerStr raw
  | .lt => isLT (cmp c v) && !(!v.isPre && c.isPre && sameRelease c v)
  | .gt => isGT (cmp c v) && !(!v.isPost && c.isPost && sameRelease c v) && !localVersionOf c v

/-- The reading of a parsed clause `(operator, text)`: the version it names and whether it is a prefix (`.*`)
clause — defined when the text has the form the operator's grammar gives it: it reads as a version; `.*` only
after `==`/`!=` and on a bare release; a local label only after `==`/`!=`; at least two release components
after `~=`.  For `===` any text is admitted (the version is irrelevant). -/
def readClause (sp : S.Spec) : Option (Ver × Bool) :=
  if sp.op == .arbitrary then some (⟨0, [], none, none, none, none⟩, false) else
  let wild := (sp.op == .eq || sp.op == .ne) && endsWith sp.ver [46, 42]
  let vtext := if wild then sp.ver.take (sp.ver.length - 2) else sp.ver
  match scan vtext with
  | none => none
  | some v =>
    let bare := v.pre.isNone && v.post.isNone && v.dev.isNone && v.loc.isNone
    if (!wild || bare) &&
       (v.loc.isNone || sp.op == .eq || sp.op == .ne) &&
       (sp.op != .compatible || decide (2 ≤ v.release.length)) then some (v, wild) else none

end Pep440
