import PkgModel.Py
import PkgModel.Generated.SpdxTables
import PkgModel.Generated.SpdxUnicode
/-!
# Spec: well-formed SPDX licence expressions over the bundled tables, and their canonical form

Written from the property statement (and the SPDX annex it paraphrases), not from the code:

    simple   := license-id | license-id "+" | LicenseRef-[A-Za-z0-9.-]+
    with     := simple | simple WITH exception-id
    compound := with | compound AND compound | compound OR compound | "(" compound ")"

Identifiers and operators match in any ASCII letter case; tokens are separated by parentheses and white
space.  "White space" is what the implementation language calls white space (`str.isspace`,
`Gen.SpdxUnicode.spaces`), so that layout can never be the reason for a disagreement.
The canonical form has operators upper-cased, identifiers in the spelling of the tables' `id` field,
`LicenseRef-` normalised with its suffix kept, single spaces, and no space inside parentheses.
-/
namespace Spdx
open Py

inductive Tok | lp | rp | and | or | with | word (w : Str)
  deriving DecidableEq, Repr, Inhabited

/-! ## lexing -/

def isSpace (c : Nat) : Bool := Gen.SpdxUnicode.spaces.contains c

/-- `"and"`, `"or"`, `"with"`, `"licenseref-"`, `"LicenseRef-"` -/
def sAnd : Str := [97, 110, 100]
def sOr : Str := [111, 114]
def sWith : Str := [119, 105, 116, 104]
def sRefLower : Str := [108, 105, 99, 101, 110, 115, 101, 114, 101, 102, 45]
def sRef : Str := [76, 105, 99, 101, 110, 115, 101, 82, 101, 102, 45]

/-- a maximal run of non-space, non-parenthesis characters -/
def classify (w : Str) : Tok :=
  let l := lowerStr w
  if l == sAnd then .and else if l == sOr then .or else if l == sWith then .with else .word w

def flush (acc : Str) : List Tok := if acc.isEmpty then [] else [classify acc]

def lexGo : Str → Str → List Tok
  | [], acc => flush acc
  | c :: cs, acc =>
    if isSpace c then flush acc ++ lexGo cs []
    else if c == 40 then flush acc ++ .lp :: lexGo cs []
    else if c == 41 then flush acc ++ .rp :: lexGo cs []
    else lexGo cs (acc ++ [c])

def lex (s : Str) : List Tok := lexGo s []

/-! ## identifiers -/

abbrev Entry := Gen.SpdxTables.Entry

/-- the official spelling of the table entry whose id equals `w` up to ASCII case -/
def officialId (tbl : List Entry) (w : Str) : Option Str :=
  (tbl.find? fun e => lowerStr e.2.1 == lowerStr w).map (·.2.1)

def refChar (c : Nat) : Bool := isAlnumAscii c || c == 46 || c == 45

/-- `LicenseRef-` (any case) followed by one or more of `[A-Za-z0-9.-]` -/
def isRef (w : Str) : Bool :=
  lowerStr (w.take 11) == sRefLower && !(w.drop 11).isEmpty && (w.drop 11).all refChar

/-- canonical spelling of a simple expression, if `w` is one -/
def canonSimple (w : Str) : Option Str :=
  if isRef w then some (sRef ++ w.drop 11)
  else match officialId Gen.SpdxTables.licenses w with
    | some id => some id
    | none =>
      if w.getLast? == some 43 then (officialId Gen.SpdxTables.licenses w.dropLast).map (· ++ [43])
      else none

def canonException (w : Str) : Option Str := officialId Gen.SpdxTables.exceptions w

def isSimple (w : Str) : Bool := (canonSimple w).isSome
def isException (w : Str) : Bool := (canonException w).isSome

/-! ## the grammar, as a recursive-descent recogniser

`parse n ts` reads one compound expression from the front of `ts` and returns the rest
(`n` bounds the recursion; every recursive call is on a strictly shorter list, so `length + 1` suffices). -/

/-- term := "(" compound ")" | simple WITH exception | simple      (`sub` reads a compound) -/
def term (sub : List Tok → Option (List Tok)) : List Tok → Option (List Tok)
  | .lp :: r =>
    (match sub r with
     | some (.rp :: r') => some r'
     | _ => none)
  | .word a :: .with :: .word e :: r => if isSimple a && isException e then some r else none
  | .word a :: r => if isSimple a then some r else none
  | _ => none

/-- compound := term | term AND compound | term OR compound -/
def parse : Nat → List Tok → Option (List Tok)
  | 0, _ => none
  | n + 1, ts =>
    match term (parse n) ts with
    | some (.and :: r) => parse n r
    | some (.or :: r) => parse n r
    | x => x

def WF (ts : List Tok) : Bool := parse (ts.length + 1) ts == some []

/-- the same grammar, declaratively (the SPDX annex's ABNF over tokens); `C19.WF_iff_compound` proves that
the recogniser above decides exactly this predicate -/
inductive Compound : List Tok → Prop
  | simple (a : Str) : isSimple a = true → Compound [.word a]
  | withExc (a e : Str) : isSimple a = true → isException e = true → Compound [.word a, .with, .word e]
  | and (x y : List Tok) : Compound x → Compound y → Compound (x ++ .and :: y)
  | or (x y : List Tok) : Compound x → Compound y → Compound (x ++ .or :: y)
  | paren (x : List Tok) : Compound x → Compound (.lp :: x ++ [.rp])

/-! ## canonical form -/

def sLP : Str := [40]
def sRP : Str := [41]

/-- the same token list with every identifier in its official spelling
(`afterWith`: the previous token is `WITH`, so the word is an exception id) -/
def canonWords : List Tok → Bool → List Tok
  | [], _ => []
  | .word w :: r, afterWith =>
    .word ((if afterWith then canonException w else canonSimple w).getD []) :: canonWords r false
  | .with :: r, _ => .with :: canonWords r true
  | t :: r, _ => t :: canonWords r false

/-- how a token is written: operators in upper case -/
def spell : Tok → Str
  | .lp => sLP
  | .rp => sRP
  | .and => [65, 78, 68]
  | .or => [79, 82]
  | .with => [87, 73, 84, 72]
  | .word w => w

def canonToks (ts : List Tok) (afterWith : Bool) : List Str := (canonWords ts afterWith).map spell

/-- single spaces between tokens, none after `(` or before `)` -/
def render : List Str → Str
  | [] => []
  | [x] => x
  | x :: y :: r => if x == sLP || y == sRP then x ++ render (y :: r) else x ++ 32 :: render (y :: r)

def canon (ts : List Tok) : Option Str := if WF ts then some (render (canonToks ts false)) else none

/-! ## what "the same expression up to letter case" means

Identifiers and operators are compared up to ASCII case; the part of a `LicenseRef-` identifier after the
prefix is significant.  (Operators are already case-folded by `classify`.) -/

def foldWord (w : Str) : Str :=
  if lowerStr (w.take 11) == sRefLower then sRefLower ++ w.drop 11 else lowerStr w

def foldTok : Tok → Tok
  | .word w => .word (foldWord w)
  | t => t

/-- the kind of a token, forgetting the identifier -/
def shape : Tok → Nat
  | .lp => 0 | .rp => 1 | .and => 2 | .or => 3 | .with => 4 | .word _ => 5

end Spdx
