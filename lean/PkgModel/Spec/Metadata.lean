import PkgModel.Metadata
/-!
# Spec for C17 — which `RawMetadata` dicts are acceptable, and who the offenders are

Written from the property statement and the core metadata specification, not from `from_raw`:

* `introducedIn` — the metadata version that introduced each field (PEP 241 / 314 / 345 / 566 / 643 / 639),
* `Valid o f v` — "the present value is individually valid", one declarative clause per field
  (all elements valid, rather than the code's left-to-right loop with early exit),
* `Acceptable o data` — the "succeeds exactly when" clause of the statement,
* `offenders o data` — the field names the `ExceptionGroup` has to name.

`o : Oracle` stands for the component parsers / standard library, exactly as in the model.
-/
namespace MetaSpec
open Py Gen.Meta Meta

/-- core metadata specification: the version in which the field appeared -/
def introducedIn : Field → Str
  | .metadata_version | .name | .version | .platforms | .summary | .description | .keywords
  | .home_page | .author | .author_email | .license => ofString "1.0"
  | .supported_platforms | .download_url | .classifiers | .requires | .provides | .obsoletes => ofString "1.1"
  | .maintainer | .maintainer_email | .requires_dist | .provides_dist | .obsoletes_dist
  | .requires_python | .requires_external | .project_urls => ofString "1.2"
  | .description_content_type | .provides_extra => ofString "2.1"
  | .dynamic => ofString "2.2"
  | .license_expression | .license_files => ofString "2.4"

/-- core metadata specification: the header that carries the field -/
def headerName : Field → Str
  | .metadata_version => ofString "Metadata-Version"
  | .name => ofString "Name"
  | .version => ofString "Version"
  | .dynamic => ofString "Dynamic"
  | .platforms => ofString "Platform"
  | .supported_platforms => ofString "Supported-Platform"
  | .summary => ofString "Summary"
  | .description => ofString "Description"
  | .description_content_type => ofString "Description-Content-Type"
  | .keywords => ofString "Keywords"
  | .home_page => ofString "Home-page"
  | .download_url => ofString "Download-URL"
  | .author => ofString "Author"
  | .author_email => ofString "Author-email"
  | .maintainer => ofString "Maintainer"
  | .maintainer_email => ofString "Maintainer-email"
  | .license => ofString "License"
  | .license_expression => ofString "License-Expression"
  | .license_files => ofString "License-File"
  | .classifiers => ofString "Classifier"
  | .requires_dist => ofString "Requires-Dist"
  | .requires_python => ofString "Requires-Python"
  | .requires_external => ofString "Requires-External"
  | .project_urls => ofString "Project-URL"
  | .provides_extra => ofString "Provides-Extra"
  | .provides_dist => ofString "Provides-Dist"
  | .obsoletes_dist => ofString "Obsoletes-Dist"
  | .requires => ofString "Requires"
  | .provides => ofString "Provides"
  | .obsoletes => ofString "Obsoletes"

/-- how a field is represented in `RawMetadata`: single-use string, multiple-use list, the comma-separated
Keywords, the label → URL dict of Project-URL -/
inductive FieldType where
  | str | list | keywords | dict
  deriving DecidableEq, Repr

def fieldType : Field → FieldType
  | .platforms | .supported_platforms | .classifiers | .requires | .provides | .obsoletes | .requires_dist
  | .provides_dist | .obsoletes_dist | .requires_external | .provides_extra | .dynamic | .license_files => .list
  | .keywords => .keywords
  | .project_urls => .dict
  | _ => .str

def knownVersions : List Str :=
  [ofString "1.0", ofString "1.1", ofString "1.2", ofString "2.1", ofString "2.2", ofString "2.3", ofString "2.4"]

def Verdict.isOk : Verdict → Bool
  | .ok _ => true
  | _ => false

/-- the content-type clause: one of the three types (and spelled in the value), UTF-8 only,
GFM / CommonMark for Markdown -/
def ctValid (o : Oracle) (s : Str) : Bool :=
  match o.ctype s with
  | .parsed ct charset variant =>
    contentTypes.contains ct && isInfix ct (o.lower s)
    && (charset.getD (ofString "UTF-8") == ofString "UTF-8")
    && (!(ct == ofString "text/markdown") || markdownVariants.contains (variant.getD (ofString "GFM")))
  | _ => false

/-- is the value under key `f` individually valid?  `none` = key absent, `some .none` = `None` -/
def Valid (o : Oracle) (f : Field) (ov : Option Val) : Bool :=
  match f, ov.getD .none with
  | .metadata_version, .str s => knownVersions.contains s
  | .metadata_version, _ => false
  | .name, .str s => !s.isEmpty && Verdict.isOk (o.name s)
  | .name, _ => false                         -- required
  | .version, .str s => !s.isEmpty && Verdict.isOk (o.version s)
  | .version, _ => false                      -- required
  | _, .none => true                          -- optional and absent
  | .summary, .str s => !(s.contains 10)
  | .description_content_type, .str s => ctValid o s
  | .dynamic, .list l => l.all fun d => dynamicOk (o.lower d)
  | .provides_extra, .list l => l.all fun s => Verdict.isOk (o.name s)
  | .requires_python, .str s => Verdict.isOk (o.spec s)
  | .requires_dist, .list l => l.all fun s => Verdict.isOk (o.req s)
  | .license_expression, .str s => Verdict.isOk (o.lic s)
  | .license_files, .list l => l.all (pathOk o)
  | .summary, _ | .description_content_type, _ | .dynamic, _ | .provides_extra, _ | .requires_python, _
  | .requires_dist, _ | .license_expression, _ | .license_files, _ => false      -- wrong type for a validated field
  | _, _ => true                              -- fields without a validator

/-- position of a version in the specification's list -/
def ageIn (v : Str) : Option Nat := indexOf v knownVersions

/-- `f` is not newer than the declared version `mv` -/
def oldEnough (f : Field) (mv : Str) : Bool :=
  match ageIn (introducedIn f), ageIn mv with
  | some fa, some a => fa ≤ a
  | _, _ => false

/-- the keys the statement talks about: every present key, and Name / Version even when absent -/
def InScope (data : Dict) (k : Str) : Prop :=
  (k ∈ akeys data ∨ k = Field.name.rawName ∨ k = Field.version.rawName) ∧ k ≠ mvKey

/-- "succeeds exactly when Metadata-Version is a known version, Name and Version are present and valid, every
present field is individually valid, no field is newer than the declared metadata version, no key is unknown" -/
def Acceptable (o : Oracle) (data : Dict) : Prop :=
  ∃ mv, aget mvKey data = some (.str mv) ∧ mv ∈ knownVersions ∧
    ∀ k, InScope data k → ∃ f, fieldOfRaw k = some f ∧ oldEnough f mv = true ∧ Valid o f (aget k data) = true

/-- the declared version when it is a known one -/
def declared (data : Dict) : Option Str :=
  match aget mvKey data with
  | some (.str s) => if knownVersions.contains s then some s else none
  | _ => none

/-- the name under which key `k` offends, if it does -/
def offenderOf (o : Oracle) (data : Dict) (k : Str) : Option Str :=
  match fieldOfRaw k with
  | none => some k                                        -- unknown key: named as it is
  | some f =>
    match declared data with
    | some mv => if !oldEnough f mv then some f.emailName
                 else if Valid o f (aget k data) then none else some f.emailName
    | none => if Valid o f (aget k data) then none else some f.emailName

def offenders (o : Oracle) (data : Dict) : List Str :=
  (if (declared data).isSome then [] else [Field.metadata_version.emailName])
  ++ (fieldsToCheck data).filterMap (offenderOf o data)

end MetaSpec
