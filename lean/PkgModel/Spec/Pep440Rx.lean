import PkgModel.Spec.Kinds
/-!
# Spec: the PEP 440 version language (Appendix B) and the specifier clause language

Transcribed by hand over named character kinds: ASCII letters and digits only,
case-insensitive, optional leading `v`, optional surrounding (ASCII) whitespace.
`kinds` is the generated kind-of-class table; nothing else of the generated data is used.
-/
namespace Pep440Rx
open Rx Rx.R Kinds

variable (kinds : List Nat)

def D : R := K kinds [digit]
def digits : R := plus (D kinds)
def sepc : R := K kinds [dot, dash, under]
def alnum : R := K kinds (digit :: (List.range 26).map (· + 2))
def wsp : R := K kinds [ws]
def w (s : String) : R := word kinds s

def preL : R := alts (["alpha", "a", "beta", "b", "preview", "pre", "c", "rc"].map (w kinds))
def postL : R := alts (["post", "rev", "r"].map (w kinds))

def epoch : R := opt (seq [digits kinds, K kinds [bang]])
def release : R := seq [digits kinds, .star (seq [K kinds [dot], digits kinds])]
def pre : R := seq [opt (sepc kinds), preL kinds, opt (sepc kinds), opt (digits kinds)]
def post : R := alts [seq [K kinds [dash], digits kinds],
                      seq [opt (sepc kinds), postL kinds, opt (sepc kinds), opt (digits kinds)]]
def dev : R := seq [opt (sepc kinds), w kinds "dev", opt (sepc kinds), opt (digits kinds)]
def localLabel : R := seq [K kinds [plus], plus (alnum kinds), .star (seq [sepc kinds, plus (alnum kinds)])]

/-- PEP 440 Appendix B, anchored, with surrounding whitespace -/
def version : R := seq [
  .star (wsp kinds), opt (w kinds "v"), epoch kinds, release kinds,
  opt (pre kinds), opt (post kinds), opt (dev kinds), opt (localLabel kinds), .star (wsp kinds)]

/-! ### specifier clauses: one operator, then the version form that operator permits -/

/-- public version form without wildcard or local label -/
def publicForm (minRelease2 : Bool) : R := seq [
  opt (w kinds "v"), epoch kinds,
  (if minRelease2 then seq [digits kinds, plus (seq [K kinds [dot], digits kinds])] else release kinds),
  opt (pre kinds), opt (post kinds), opt (dev kinds)]

/-- `==` / `!=`: additionally a trailing `.*` directly after the release, or a local label -/
def eqForm : R := seq [
  opt (w kinds "v"), epoch kinds, release kinds,
  alts [seq [K kinds [dot], K kinds [star]],
        seq [opt (pre kinds), opt (post kinds), opt (dev kinds), opt (localLabel kinds)]]]

/-- `===`: arbitrary text free of whitespace, `;` and `)` -/
def arbitraryForm : R := .star (notK kinds [ws, semi, rpar])

def opw (ks : List Nat) : R := seq (ks.map fun k => K kinds [k])

def clause (op form : R) : R := seq [.star (wsp kinds), op, .star (wsp kinds), form, .star (wsp kinds)]

/-- the eight PEP 440 comparison operators, in the order the clause list below uses -/
def specOps : List String := ["~=", "==", "!=", "<=", ">=", "<", ">", "==="]

/-- what may follow each operator -/
def clauseFor : String → R
  | "~=" => clause kinds (opw kinds [tilde, eq]) (publicForm kinds true)
  | "==" => clause kinds (opw kinds [eq, eq]) (eqForm kinds)
  | "!=" => clause kinds (opw kinds [bang, eq]) (eqForm kinds)
  | "<=" => clause kinds (opw kinds [lt, eq]) (publicForm kinds false)
  | ">=" => clause kinds (opw kinds [gt, eq]) (publicForm kinds false)
  | "<" => clause kinds (opw kinds [lt]) (publicForm kinds false)
  | ">" => clause kinds (opw kinds [gt]) (publicForm kinds false)
  | "===" => clause kinds (opw kinds [eq, eq, eq]) (arbitraryForm kinds)
  | _ => .empty

def specifier : R := alts ((specOps).map (clauseFor kinds))

end Pep440Rx
