import PkgModel.Tags
/-!
# Spec of the interpreter tag sequences (C15), written from the property statement

"cpython_tags yields exactly cpXY-<abi>-<plat> for each given ABI, then cpXY-abi3 and cpXY-none,
then cpXZ-abi3 for every older minor Z down to 3.2 (abi3 only from 3.2 on and never for
free-threaded ABIs; a major-only version yields only the given ABIs and none); compatible_tags
yields pyXY, pyX, then each older pyXZ down to pyX0 with none-<plat>, then
<interpreter>-none-any, then the same py range with none-any; generic_tags yields
<interp>-<abi>-<plat> for each ABI with the none ABI appended when absent."

The sequences are list comprehensions over the *given* version, ABI list and platform list
(no defaults, no probes).  Tags are case-insensitive triples, represented in lower case.
Only `Tag`, `mkTag`, `versionNodot` and the string constants are shared with the model.
-/
namespace TagSpec
open Py Tags

/-- `l` without the first occurrence of `x` -/
def dropFirst (x : Str) : List Str → List Str
  | [] => []
  | a :: t => if a = x then t else a :: dropFirst x t

/-- the ABIs "given" besides the two that have a fixed position: an explicitly listed `abi3` / `none`
    is taken out (once), since it is yielded at its normal position -/
def givenAbis (abis : List Str) : List Str :=
  dropFirst sNone (dropFirst sAbi3 abis)

/-- a free-threaded CPython ABI name: `cp`, at least one digit, then flags containing `t`
    (flags end at a line break) -/
def isFreeThreadedAbi (a : Str) : Bool :=
  startsWith a sCp &&
  (let rest := a.drop 2
   let flags := rest.dropWhile isDigit
   decide (flags.length < rest.length) && (flags.takeWhile (· != 10)).elem 116)

/-- the list is "free-threaded" when its leading ABI is -/
def freeThreaded (given : List Str) : Bool :=
  match given.head? with
  | some a => isFreeThreadedAbi a
  | none => false

/-- the minors `lo ≤ Z < hi`, newest first -/
def olderMinors (hi lo : Nat) : List Nat :=
  ((List.range hi).filter (lo ≤ ·)).reverse

/-- abi3 exists from 3.2 on, needs a minor version, and never applies to free-threaded ABIs -/
def abi3Ok (ver : List Nat) (given : List Str) : Bool :=
  match ver with
  | [x, y] => (decide (x > 3) || (x == 3 && decide (y ≥ 2))) && !freeThreaded given
  | _ => false

def cpInterp (ver : List Nat) : Str := sCp ++ versionNodot ver

def cpythonSpec (ver : List Nat) (abis plats : List Str) : List Tag :=
  let given := givenAbis abis
  let ok := abi3Ok ver given
  (given.flatMap fun a => plats.map fun p => mkTag (cpInterp ver) a p)
  ++ (if ok then plats.map fun p => mkTag (cpInterp ver) sAbi3 p else [])
  ++ (plats.map fun p => mkTag (cpInterp ver) sNone p)
  ++ (if ok then
        (olderMinors (ver.getD 1 0) 2).flatMap fun z =>
          plats.map fun p => mkTag (cpInterp [ver.getD 0 0, z]) sAbi3 p
      else [])

/-- pyXY, pyX, pyX(Y-1) … pyX0 — or just pyX for a major-only version -/
def pyRange : List Nat → List Str
  | [x] => [sPy ++ dec x]
  | [x, y] => (sPy ++ dec x ++ dec y) :: (sPy ++ dec x) :: (olderMinors y 0).map fun z => sPy ++ dec x ++ dec z
  | _ => []

def compatibleSpec (ver : List Nat) (interp : Option Str) (plats : List Str) : List Tag :=
  ((pyRange ver).flatMap fun v => plats.map fun p => mkTag v sNone p)
  ++ (match interp with | some i => [mkTag i sNone sAny] | none => [])
  ++ ((pyRange ver).map fun v => mkTag v sNone sAny)

def genericSpec (interp : Str) (abis plats : List Str) : List Tag :=
  (abis ++ (if sNone ∈ abis then [] else [sNone])).flatMap fun a => plats.map fun p => mkTag interp a p

/-- default CPython ABI list as a table of flags:
    `t` free-threaded build (3.13+), `d` debug, `m` pymalloc (< 3.8), `u` wide unicode (< 3.3);
    from 3.8 on a debug build also loads the non-debug ABI. -/
def defaultAbisSpec (xy : Nat × Nat) (debug gil pymalloc wide : Bool) : List Str :=
  let (x, y) := xy
  let v := sCp ++ dec x ++ dec y
  let ge (a b : Nat) : Bool := decide (x > a) || (x == a && decide (y ≥ b))
  let t : Str := if ge 3 13 && gil then [116] else []
  let d : Str := if debug then [100] else []
  let m : Str := if !ge 3 8 && pymalloc then [109] else []
  let u : Str := if !ge 3 3 && wide then [117] else []
  (v ++ t ++ d ++ m ++ u) :: (if ge 3 8 && debug then [v ++ t] else [])

end TagSpec
