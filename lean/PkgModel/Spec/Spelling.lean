import PkgModel.Version
/-!
# Spec: spellings of a PEP 440 version and their meaning

A `Spelling` is a parse tree of the Appendix B grammar that records every choice the grammar
leaves to the writer: surrounding white space, the `v` prefix, digit strings with their leading
zeros, which alternate word is used (`alpha`/`a`, `c`/`rc`/`pre`/`preview`, `post`/`rev`/`r`), the
letter case of every word, every optional separator, the implicit post-release form `-N`, the
separators and letter case inside the local label.

* `render` writes the tree out;
* `meaning` is the PEP 440 reading: numbers by value, missing numbers read as 0, words replaced
  by their normal form `a`/`b`/`rc`/`post`/`dev`, local segments integer if all digits and
  lower-cased otherwise;
* `normalise` is the tree of the normal form (PEP 440 "Normalization"), `render ∘ normalise` is
  the normal-form string.

The grammar is ambiguous in exactly one place: after a pre-release word written without
separator and without number, `-N` could be the implicit post-release or that word's number
(`1.0a-1`).  The regular expression engine reads it greedily as the number; `Valid` excludes the
other tree.  Written from the property statement; nothing here looks at how the code scans.
-/
namespace Spelling
open Py V

/-- the optional separator `[-_.]?` -/
inductive Sep | none | dot | dash | under
  deriving DecidableEq, Repr

def Sep.render : Sep → Str
  | .none => [] | .dot => [46] | .dash => [45] | .under => [95]

/-- ASCII white space -/
def isSpace (c : Nat) : Bool := [9, 10, 11, 12, 13, 32].contains c

/-- a number as written (leading zeros allowed) -/
abbrev Digits := Str
def digitsOk (d : Digits) : Bool := !d.isEmpty && d.all isDigit
/-- its value -/
def value (d : Digits) : Nat := undec d

inductive PreWord | alpha | a | beta | b | c | rc | pre | preview
  deriving DecidableEq, Repr
inductive PostWord | post | rev | r
  deriving DecidableEq, Repr

def PreWord.text : PreWord → Str
  | .alpha => ofString "alpha" | .a => ofString "a" | .beta => ofString "beta" | .b => ofString "b"
  | .c => ofString "c" | .rc => ofString "rc" | .pre => ofString "pre" | .preview => ofString "preview"

/-- the normal form of each pre-release word -/
def PreWord.letter : PreWord → PreL
  | .alpha => .a | .a => .a | .beta => .b | .b => .b
  | .c => .rc | .rc => .rc | .pre => .rc | .preview => .rc

def PostWord.text : PostWord → Str
  | .post => ofString "post" | .rev => ofString "rev" | .r => ofString "r"

def devText : Str := ofString "dev"

/-- `[-_.]? word [-_.]? digits?`: the word as written (any letter case), the two optional
separators, the optional number -/
structure Group (W : Type) where
  sep1 : Sep
  kind : W
  word : Str
  sep2 : Sep
  num : Option Digits
  deriving Repr

/-- neither separator nor number after the word -/
def Group.bare {W} (g : Group W) : Bool := g.sep2 == .none && g.num.isNone

def Group.render {W} (g : Group W) : Str :=
  g.sep1.render ++ (g.word ++ (g.sep2.render ++ g.num.getD []))

/-- the word is `text` up to letter case; the number, if written, is a digit string -/
def Group.ok {W} (text : W → Str) (g : Group W) : Bool :=
  lowerStr g.word == text g.kind && (match g.num with | some d => digitsOk d | none => true)

/-- implicit 0 -/
def Group.number {W} (g : Group W) : Nat := (g.num.map value).getD 0

inductive Post
  | implicit (n : Digits)          -- `-N`
  | spelled (g : Group PostWord)
  deriving Repr

def Post.render : Post → Str
  | .implicit n => 45 :: n
  | .spelled g => g.render
def Post.ok : Post → Bool
  | .implicit n => digitsOk n
  | .spelled g => g.ok PostWord.text
def Post.number : Post → Nat
  | .implicit n => value n
  | .spelled g => g.number

/-- local label: first segment, then (separator, segment) pairs -/
structure Local where
  first : Str
  rest : List (Sep × Str)
  deriving Repr

def segOk (s : Str) : Bool := !s.isEmpty && s.all isAlnumAscii
def Local.ok (l : Local) : Bool := segOk l.first && l.rest.all fun p => p.1 != .none && segOk p.2
def restRender : List (Sep × Str) → Str
  | [] => []
  | (s, x) :: r => s.render ++ (x ++ restRender r)
def Local.render (l : Local) : Str := 43 :: (l.first ++ restRender l.rest)

/-- a segment made of digits only is an integer, any other is compared case-insensitively -/
def segMeaning (s : Str) : LSeg := if s.all isDigit then .num (value s) else .str (lowerStr s)
def Local.meaning (l : Local) : List LSeg := segMeaning l.first :: l.rest.map fun p => segMeaning p.2

structure Spelling where
  ws1 : Str
  v : Option Nat                 -- the `v` prefix as written (`v` or `V`)
  epoch : Option Digits
  rel0 : Digits
  rels : List Digits
  pre : Option (Group PreWord)
  post : Option Post
  dev : Option (Group Unit)
  loc : Option Local
  ws2 : Str
  deriving Repr

def relRender : List Digits → Str
  | [] => []
  | d :: ds => 46 :: (d ++ relRender ds)

def optR {α} (f : α → Str) : Option α → Str
  | some a => f a
  | none => []

def render (sp : Spelling) : Str :=
  sp.ws1 ++ (optR (fun c => [c]) sp.v ++ (optR (fun d => d ++ [33]) sp.epoch ++ (sp.rel0 ++ (relRender sp.rels ++
    (optR Group.render sp.pre ++ (optR Post.render sp.post ++ (optR Group.render sp.dev ++
      (optR Local.render sp.loc ++ sp.ws2))))))))

/-- the one ambiguity of the grammar, resolved as the regular expression engine does: `-N` directly
after a bare pre-release word is that word's number, not an implicit post-release -/
def ambiguous (sp : Spelling) : Bool :=
  match sp.pre, sp.post with
  | some g, some (.implicit _) => g.bare
  | _, _ => false

def Valid (sp : Spelling) : Bool :=
  sp.ws1.all isSpace && sp.ws2.all isSpace &&
  (match sp.v with | some c => lowerAscii c == 118 | none => true) &&
  (match sp.epoch with | some d => digitsOk d | none => true) &&
  digitsOk sp.rel0 && sp.rels.all digitsOk &&
  (match sp.pre with | some g => g.ok PreWord.text | none => true) &&
  (match sp.post with | some p => p.ok | none => true) &&
  (match sp.dev with | some g => g.ok (fun _ => devText) | none => true) &&
  (match sp.loc with | some l => l.ok | none => true) &&
  !ambiguous sp

/-- the PEP 440 reading -/
def meaning (sp : Spelling) : Ver :=
  { epoch := (sp.epoch.map value).getD 0
    release := value sp.rel0 :: sp.rels.map value
    pre := sp.pre.map fun g => (g.kind.letter, g.number)
    post := sp.post.map Post.number
    dev := sp.dev.map Group.number
    loc := sp.loc.map Local.meaning }

/-! ### the normal form, as a spelling -/

def normGroup {W} (sep1 : Sep) (kind : W) (text : Str) (n : Nat) : Group W :=
  { sep1 := sep1, kind := kind, word := text, sep2 := .none, num := some (dec n) }

def normPreWord : PreL → PreWord
  | .a => .a | .b => .b | .rc => .rc

def normSeg : LSeg → Str
  | .num n => dec n
  | .str s => s

/-- no white space, no `v`, epoch only when non-zero, numbers without leading zeros, `a`/`b`/`rc` directly
after the release with an explicit number, `.postN`, `.devN`, local segments joined by `.` -/
def normalise (sp : Spelling) : Spelling :=
  let m := meaning sp
  { ws1 := [], v := none
    epoch := if m.epoch = 0 then none else some (dec m.epoch)
    rel0 := dec (value sp.rel0)
    rels := sp.rels.map fun d => dec (value d)
    pre := m.pre.map fun p => normGroup .none (normPreWord p.1) (normPreWord p.1).text p.2
    post := m.post.map fun n => .spelled (normGroup .dot .post PostWord.post.text n)
    dev := m.dev.map fun n => normGroup .dot () devText n
    loc := sp.loc.map fun l =>
      { first := normSeg (segMeaning l.first), rest := l.rest.map fun p => (.dot, normSeg (segMeaning p.2)) }
    ws2 := [] }

end Spelling
