import PkgModel.Version
/-!
# Spec: the PEP 440 version order, written from the prose of the property statement

epoch first; release numerically with missing components read as zero; within one
release `devN`-only < `aN` < `bN` < `rcN` < final < `postN`, a `.devM` suffix sorting just
below and a `.postM` suffix just above the thing it is attached to; then the local label
(none < any; segment-wise, numeric above alphanumeric, numeric by value, alphanumeric
lexically, a proper prefix first).
-/
namespace Pep440
open V Py

/-- lexicographic list order, proper prefix first -/
def lexList {α} (c : α → α → Ordering) : List α → List α → Ordering
  | [], [] => .eq
  | [], _ :: _ => .lt
  | _ :: _, [] => .gt
  | a :: as, b :: bs => (c a b).then (lexList c as bs)

/-- release comparison with missing components read as zero -/
def padCmp : List Nat → List Nat → Ordering
  | [], [] => .eq
  | [], b :: bs => (compare 0 b).then (padCmp [] bs)
  | a :: as, [] => (compare a 0).then (padCmp as [])
  | a :: as, b :: bs => (compare a b).then (padCmp as bs)

/-- dev-only 0 < a 1 < b 2 < rc 3 < final (with or without post) 4 -/
def phase (v : Ver) : Nat :=
  match v.pre, v.post, v.dev with
  | some (.a, _), _, _ => 1
  | some (.b, _), _, _ => 2
  | some (.rc, _), _, _ => 3
  | none, none, some _ => 0
  | none, _, _ => 4

def preNum (v : Ver) : Nat := match v.pre with | some (_, n) => n | none => 0

/-- absent post-release sorts below any post-release -/
def postCmp : Option Nat → Option Nat → Ordering
  | none, none => .eq | none, some _ => .lt | some _, none => .gt
  | some a, some b => compare a b

/-- a dev-release sorts below the same thing without `.dev` -/
def devCmp : Option Nat → Option Nat → Ordering
  | none, none => .eq | none, some _ => .gt | some _, none => .lt
  | some a, some b => compare a b

/-- numeric above alphanumeric, numeric by value, alphanumeric lexically -/
def segCmp : LSeg → LSeg → Ordering
  | .num a, .num b => compare a b
  | .str s, .str t => lexList compare s t
  | .num _, .str _ => .gt
  | .str _, .num _ => .lt

def localCmp : Option (List LSeg) → Option (List LSeg) → Ordering
  | none, none => .eq | none, some _ => .lt | some _, none => .gt
  | some a, some b => lexList segCmp a b

def cmp (a b : Ver) : Ordering :=
  (compare a.epoch b.epoch).then <|
  (padCmp a.release b.release).then <|
  (compare (phase a) (phase b)).then <|
  (compare (preNum a) (preNum b)).then <|
  (postCmp a.post b.post).then <|
  (devCmp a.dev b.dev).then <|
  (localCmp a.loc b.loc)

end Pep440
