import PkgModel.Platform
/-!
# Spec of the platform tag sequences (C16), written from the property statement

"For a glibc system at version G on architecture A the manylinux tags are manylinux_M_m_A for every
version from G down to the floor (2.5 on x86_64/i686, 2.17 elsewhere), newest first, each legacy alias
(manylinux2014/2010/1) immediately after its PEP 600 equivalent, with any tag vetoed by an installed
_manylinux policy module omitted and nothing emitted when the interpreter's ABI is incompatible; musllinux,
macOS and iOS tags likewise enumerate every OS version from the running one down to the platform's floor,
newest first, with the binary formats valid for that architecture and version."

Versions are pairs of naturals.  The legacy names are the constants of PEP 513 / 571 / 599 written here by
hand; the table regenerated from `_LEGACY_MANYLINUX_MAP` lives in `Gen.TagTables` and theorem
`C16.legacy_map_is_peps` connects the two.  Only the string constants and `Py.dec` are shared with the model.
-/
namespace PlatSpec
open Py Plat

/-- `hi, hi-1, …, lo` (empty when `hi < lo`) -/
def descending (lo hi : Nat) : List Nat := ((List.range (hi + 1)).filter (lo ≤ ·)).reverse

/-! ## manylinux -/

/-- PEP 513: manylinux1 is glibc 2.5 -/
def pep513 : (Nat × Nat) × Str := ((2, 5), ofString "manylinux1")
/-- PEP 571: manylinux2010 is glibc 2.12 -/
def pep571 : (Nat × Nat) × Str := ((2, 12), ofString "manylinux2010")
/-- PEP 599: manylinux2014 is glibc 2.17 -/
def pep599 : (Nat × Nat) × Str := ((2, 17), ofString "manylinux2014")

def legacyName (v : Nat × Nat) : Option Str := [pep513, pep571, pep599].lookup v

/-- oldest glibc a wheel for this architecture may target: 2.5 on x86_64/i686 (PEP 513), 2.17 elsewhere (PEP 599) -/
def glibcFloor (arch : Str) : Nat × Nat := if arch = sX86_64 ∨ arch = sI686 then (2, 5) else (2, 17)

/-- every glibc version from `G` down to `floor`, newest first; a previous major series `M` ends at `last M`
    and starts at `M.0` (the floor's major series starts at the floor) -/
def glibcVersionsDown (G floor : Nat × Nat) (last : Nat → Nat) : List (Nat × Nat) :=
  (descending floor.1 G.1).flatMap fun M =>
    (descending (if M = floor.1 then floor.2 else 0) (if M = G.1 then G.2 else last M)).map fun m => (M, m)

def pep600Tag (v : Nat × Nat) (arch : Str) : Str := sManylinux_ ++ dec v.1 ++ us ++ dec v.2 ++ us ++ arch

/-- the manylinux sequence: per architecture, per version newest first, the PEP 600 tag immediately followed by its
    legacy alias; a vetoed version contributes nothing; an incompatible ABI gives nothing at all -/
def manylinuxSpec (G : Nat × Nat) (archs : List Str) (allowed : Nat × Nat → Str → Bool) (abiOk : Bool)
    (last : Nat → Nat) : List Str :=
  if !abiOk then [] else
  archs.flatMap fun a =>
    (glibcVersionsDown G (glibcFloor a) last).flatMap fun v =>
      if allowed v a then
        pep600Tag v a :: (match legacyName v with | some l => [l ++ us ++ a] | none => [])
      else []

/-- the verdict of the installed policy module on `(version, arch)` (PEP 600 `manylinux_compatible`, or the legacy
    attributes of PEP 513/571/599 which speak about exactly one version each); no module or no opinion: allowed -/
def policyAllows (p : Policy) (v : Nat × Nat) (arch : Str) : Bool :=
  match p with
  | .absent => true
  | .func dflt rules => ((rules.lookup (v.1, v.2, arch)).getD dflt).getD true
  | .legacy m1 m2010 m2014 =>
    if v = (2, 5) then m1.getD true
    else if v = (2, 12) then m2010.getD true
    else if v = (2, 17) then m2014.getD true
    else true

/-! ## musllinux -/

def musllinuxSpec (V : Nat × Nat) (archs : List Str) : List Str :=
  archs.flatMap fun a => (descending 0 V.2).map fun m => sMusllinux_ ++ dec V.1 ++ us ++ dec m ++ us ++ a

/-! ## macOS -/

def verLe (a b : Nat × Nat) : Bool := decide (a.1 < b.1) || (a.1 == b.1 && decide (a.2 ≤ b.2))

/-- binary formats loadable by a CPU architecture, most specific first, with the macOS versions
    (inclusive bounds, `none` = unbounded) for which that architecture exists at all -/
def macFormatTable : List (Str × (Option (Nat × Nat) × Option (Nat × Nat) × List Str)) :=
  [ (sX86_64, (some (10, 4), none, [sX86_64, sIntel, sFat64, sFat32, sUniversal2, sUniversal])),
    (sI386,   (some (10, 4), none, [sI386, sIntel, sFat32, sFat, sUniversal])),
    (sPpc64,  (some (10, 4), some (10, 5), [sPpc64, sFat64, sUniversal])),
    (sPpc,    (none, some (10, 6), [sPpc, sFat32, sFat, sUniversal])),
    (sArm64,  (none, none, [sArm64, sUniversal2])),
    (sIntel,  (none, none, [sIntel, sUniversal])) ]

def macFormatsSpec (v : Nat × Nat) (arch : Str) : List Str :=
  match macFormatTable.lookup arch with
  | none => [arch]
  | some (lo, hi, fs) =>
    if (match lo with | some l => verLe l v | none => true) && (match hi with | some h => verLe v h | none => true)
    then fs else []

/-- macOS 10.x: every 10.minor from the running one down to 10.0.
    macOS 11+: every major from the running one down to 11 (minor 0), then 10.16 … 10.4 — for x86_64 with its
    formats, for every other architecture only as `universal2`. -/
def macSpec (v : Nat × Nat) (arch : Str) : List Str :=
  if v.1 = 10 then
    (descending 0 v.2).flatMap fun m => (macFormatsSpec (10, m) arch).map fun f => macTag 10 m f
  else if v.1 ≥ 11 then
    ((descending 11 v.1).flatMap fun M => (macFormatsSpec (M, 0) arch).map fun f => macTag M 0 f)
    ++ ((descending 4 16).flatMap fun m =>
          if arch = sX86_64 then (macFormatsSpec (10, m) arch).map fun f => macTag 10 m f
          else [macTag 10 m sUniversal2])
  else []

/-! ## iOS -/

/-- highest minor release enumerated for a previous major series -/
def iosMaxMinor : Nat := 9

/-- every iOS version from the running one down to 12.0, newest first -/
def iosSpec (v : Nat × Nat) (multiarch : Str) : List Str :=
  let ma := multiarch.map fun c => if c = 45 then 95 else c
  if v.1 < 12 then [] else
  ((descending 0 v.2).map fun m => iosTag v.1 m ma)
  ++ ((descending 12 (v.1 - 1)).flatMap fun M => (descending 0 iosMaxMinor).map fun m => iosTag M m ma)

end PlatSpec
