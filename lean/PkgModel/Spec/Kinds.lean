import PkgModel.Rx
/-!
# Spec-side character kinds

A *kind* is a named set of code points the specifications talk about (ASCII digit, each ASCII
letter, each punctuation character, the six ASCII whitespace characters, everything else).
The translator refines its measured class partition by these kinds and emits the kind of every
class; `Kinds.consistent` re-checks that emitted table against the definitions below.
-/
namespace Kinds
open Rx

def other := 0
def digit := 1
/-- letter `a`..`z` in either case: 2..27 -/
def letter (c : Char) : Nat := 2 + (c.toNat - 97)
def dot := 28  def dash := 29  def under := 30  def plus := 31  def bang := 32  def star := 33
def ws := 34   def eq := 35    def lt := 36     def gt := 37    def tilde := 38 def semi := 39
def rpar := 40 def lpar := 41  def comma := 42
/-- case-sensitive tables only: upper-case letters 43..68, newline 69 -/
def upper (c : Char) : Nat := 43 + (c.toNat - 97)
def newline := 69

/-- case-insensitive kind of a code point -/
def kindCI (cp : Nat) : Nat :=
  if 48 ≤ cp && cp ≤ 57 then digit
  else if 97 ≤ cp && cp ≤ 122 then 2 + (cp - 97)
  else if 65 ≤ cp && cp ≤ 90 then 2 + (cp - 65)
  else if cp == 46 then dot else if cp == 45 then dash else if cp == 95 then under
  else if cp == 43 then plus else if cp == 33 then bang else if cp == 42 then star
  else if cp == 61 then eq else if cp == 60 then lt else if cp == 62 then gt
  else if cp == 126 then tilde else if cp == 59 then semi else if cp == 41 then rpar
  else if cp == 40 then lpar else if cp == 44 then comma
  else if cp == 32 || (9 ≤ cp && cp ≤ 13) then ws
  else other

/-- case-sensitive kind -/
def kindCS (cp : Nat) : Nat :=
  if 65 ≤ cp && cp ≤ 90 then 43 + (cp - 65)
  else if cp == 10 then newline
  else kindCI cp

/-- kinds only vary below this bound (all kinds are ASCII) -/
def kindBound := 128

/-- a range `(lo, hi, c)` carries kind `kinds[c]` on all of `[lo, hi]` -/
def rangeOk (kind : Nat → Nat) (kinds : List Nat) (r : Nat × Nat × Nat) : Bool :=
  let (lo, hi, c) := r
  let k := kinds.getD c 1000
  (hi < kindBound || k == other) &&
  (List.range (min (hi + 1) kindBound - lo)).all fun i => kind (lo + i) == k

/-- the generated class table is a tiling of the code space, consistent with the spec kinds -/
def consistent (kind : Nat → Nat) (n : Nat) (kinds : List Nat) (ranges : List (Nat × Nat × Nat)) : Bool :=
  kinds.length == n && tiles n 0 ranges && ranges.all (rangeOk kind kinds)

/-- mask of the classes whose kind is in `ks` -/
def maskAux (ks : List Nat) : List Nat → Nat → Nat
  | [], _ => 0
  | k :: rest, i => (if ks.contains k then 1 <<< i else 0) ||| maskAux ks rest (i + 1)

/-- the regex "one character of one of the kinds `ks`" over the generated class alphabet -/
def K (kinds : List Nat) (ks : List Nat) : R := .cls (maskAux ks kinds 0)

/-- "any character whose kind is *not* in `ks`" -/
def notK (kinds : List Nat) (ks : List Nat) : R :=
  .cls (maskAux ((List.range 70).filter fun k => !ks.contains k) kinds 0)

def seq : List R → R
  | [] => .eps
  | [a] => a
  | a :: as => .cat a (seq as)
def alts : List R → R
  | [] => .empty
  | [a] => a
  | a :: as => .alt a (alts as)
def word (kinds : List Nat) (w : String) : R := seq (w.toList.map fun c => K kinds [letter c])

end Kinds
