import PkgModel.Marker
/-!
# Spec: PEP 508 marker semantics, written from the prose of the property statements (C07, C09)

* a marker is a boolean formula over comparisons (`Formula`); `and` binds tighter than `or`,
  parentheses group (`Expr`, the concrete syntax with explicit parentheses, and its token sequence);
* evaluation has the boolean value of that formula (`Formula.eval`); every comparison is evaluated,
  left to right, so the first failing comparison decides the exception;
* a comparison uses specifier matching when operator + right operand form a valid specifier and the
  left operand is a valid version, otherwise the ordinary Python string operator when one exists,
  otherwise it raises `UndefinedComparison` (`compare`); `in` / `not in` are substring tests; the
  variable may be on either side; comparisons involving `extra` are made on normalised names
  (`atomSem`);
* the effective environment: detected values overridden by the supplied mapping, `extra`
  defaulting to empty and `None` read as empty, a `python_full_version` ending in `+` completed
  (`effEnv`).

Shared with the model: the data types (`Atom`, `M`), the external interface `Ext`, `Str`.
-/
namespace Pep508
open Py Mk

inductive Formula
  | atom (a : Atom)
  | and (l r : Formula)
  | or (l r : Formula)
  deriving DecidableEq, Repr

/-- boolean value of a formula under a valuation of the comparisons that may raise -/
def Formula.eval (ν : Atom → Res Bool) : Formula → Res Bool
  | .atom a => ν a
  | .and l r => do
    let a ← l.eval ν
    let b ← r.eval ν
    pure (a && b)
  | .or l r => do
    let a ← l.eval ν
    let b ← r.eval ν
    pure (a || b)

/-! ## Reading of the nested-list representation: or-separated groups of and-ed items -/

def joinOr : Option Formula → Formula → Formula
  | none, a => a
  | some o, a => .or o a

mutual
/-- an item: a comparison or a parenthesised list -/
def fOfM : M → Option Formula
  | .atom a => some (.atom a)
  | .list l => fOfL l
  | .bool _ => none
/-- `item (("and" | "or") item)*` -/
def fOfL : List M → Option Formula
  | [] => none
  | m :: rest =>
    match fOfM m with
    | none => none
    | some f => fOfRest rest none f
/-- `o` = the finished or-groups, `a` = the and-group being built -/
def fOfRest : List M → Option Formula → Formula → Option Formula
  | [], o, a => some (joinOr o a)
  | [_], _, _ => none
  | .bool s :: m :: rest, o, a =>
    match fOfM m with
    | none => none
    | some f =>
      if s == s_and then fOfRest rest o (.and a f)
      else if s == s_or then fOfRest rest (some (joinOr o a)) f
      else none
  | _ :: _ :: _, _, _ => none
end

/-- the formula a marker list denotes (`none` for lists that are not `item (op item)*`) -/
def formulaOf (l : List M) : Option Formula := fOfL l

/-! ## Comparisons -/

def s_lt : Str := [60]
def s_le : Str := [60, 61]
def s_eq : Str := [61, 61]
def s_ne : Str := [33, 61]
def s_ge : Str := [62, 61]
def s_gt : Str := [62]

/-- the ordinary Python string operator, when one exists (`~=` and `===` have none) -/
def strOp (op l r : Str) : Option Bool :=
  if op == s_lt then some (strLt l r)
  else if op == s_le then some (strLe l r)
  else if op == s_eq then some (l == r)
  else if op == s_ne then some (l != r)
  else if op == s_ge then some (strLe r l)
  else if op == s_gt then some (strLt r l)
  else if op == s_in then some (isInfix l r)
  else if op == s_not_in then some (!isInfix l r)
  else none

/-- one comparison `l op r` -/
def compare (X : Ext) (l op r : Str) : Res Bool :=
  match X.specMatch op r l with
  | some b => .ok b
  | none =>
    match strOp op l r with
    | some b => .ok b
    | none => .error .undefinedComparison

/-- comparisons involving `extra` are made on normalised names -/
def norm (X : Ext) (key s : Str) : Str := if key == s_extra then X.canonName s else s

/-- a comparison between an environment variable and a literal, in either order
(`none`: the statement does not say what a comparison of two variables or two literals means) -/
def atomSem (X : Ext) (env : Str → Option Str) (a : Atom) : Option (Res Bool) :=
  match a.lhs, a.rhs with
  | .var k, .val s => (env k).map fun v => compare X (norm X k v) a.op (norm X k s)
  | .val s, .var k => (env k).map fun v => compare X (norm X k s) a.op (norm X k v)
  | _, _ => none

/-! ## Effective environment -/

def s_plus : Str := [43]

/-- supplied mapping first, then `extra = ""`, then the detected values (`dict` reading: last entry wins) -/
def rawLookup (dflt : List (Str × Str)) (supplied : Option Env) (k : Str) : Option (Option Str) :=
  match supplied.bind (·.get? k) with
  | some v => some v
  | none =>
    if k == s_extra then some (some [])
    else (Env.get? (dflt.map fun p => (p.1, some p.2)) k)

def effEnv (dflt : List (Str × Str)) (supplied : Option Env) (k : Str) : Option Str :=
  match rawLookup dflt supplied k with
  | none => none
  | some none => if k == s_extra then some [] else none
  | some (some v) => if k == s_pfv && endsWith v s_plus then some (v ++ s_local) else some v

/-! ## Concrete syntax: expressions with explicit (possibly redundant) parentheses -/

inductive Expr
  | atom (a : Atom)
  | paren (e : Expr)
  | and (l r : Expr)
  | or (l r : Expr)
  deriving Repr

/-- parentheses group and mean nothing else -/
def Expr.sem : Expr → Formula
  | .atom a => .atom a
  | .paren e => e.sem
  | .and l r => .and l.sem r.sem
  | .or l r => .or l.sem r.sem

/-- binding strength: or 0 < and 1 < primary 2 -/
def Expr.level : Expr → Nat
  | .atom _ => 2
  | .paren _ => 2
  | .and _ _ => 1
  | .or _ _ => 0

/-- a token: rule name and text -/
abbrev Tok := Rule × Str

def nodeTok : Node → Tok
  | .var s => (.variable, s)
  | .val s => (.quoted, (Node.val s).serialize)

def opToks (op : Str) : List Tok :=
  if op == s_in then [(.kwIn, s_in)]
  else if op == s_not_in then [(.kwNot, [110, 111, 116]), (.ws, [32]), (.kwIn, s_in)]
  else [(.op, op)]

def atomToks (a : Atom) : List Tok := nodeTok a.lhs :: opToks a.op ++ [nodeTok a.rhs]

def lp : Tok := (.lparen, [40])
def rp : Tok := (.rparen, [41])

/-- the token sequence of an expression: parentheses are written where the grammar needs them
(an `or` under `and`; a right operand of the same operator, both being left-associative) and
wherever the expression has them explicitly -/
def Expr.toks : Expr → List Tok
  | .atom a => atomToks a
  | .paren e => lp :: e.toks ++ [rp]
  | .and l r =>
    (if l.level < 1 then lp :: l.toks ++ [rp] else l.toks) ++ [(.boolop, s_and)] ++
    (if r.level ≤ 1 then lp :: r.toks ++ [rp] else r.toks)
  | .or l r =>
    l.toks ++ [(.boolop, s_or)] ++ (if r.level ≤ 0 then lp :: r.toks ++ [rp] else r.toks)

/-- the token stream the parser sees when it is handed tokens instead of characters -/
def tokTS : TS (List Tok) :=
  ⟨fun r ts => match ts with
    | [] => if r == .end_ then some ([], []) else none
    | t :: ts => if t.1 == r then some (t.2, ts) else none⟩

end Pep508
