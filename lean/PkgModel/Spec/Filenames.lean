import PkgModel.Spec.Names
import PkgModel.Version
/-!
# Spec of C14: how a wheel / sdist filename is assembled (binary-distribution and source-distribution formats)

`{distribution}-{version}(-{build tag})?-{python tag}-{abi tag}-{platform tag}.whl`, the distribution name
escaped (normalised per PEP 503, then `-` → `_`), the version in its `str` form, the build tag a number followed
by an optional suffix, each tag component a `.`-joined ("compressed") set.  `{name}-{version}.tar.gz|.zip` for
source distributions.
-/
namespace FnSpec
open Py

/-- PEP 503 normalisation followed by replacing `-` with `_` -/
def escapeName (lowerCp : Nat → Str) (n : Str) : Str :=
  (NameSpec.fold lowerCp n).map fun c => if c == 45 then 95 else c

def tagSet (xs : List Str) : Str := join [46] xs

def buildStr : Option (Nat × Str) → List Str
  | none => []
  | some (n, suffix) => [dec n ++ suffix]

def assembleWheel (lowerCp : Nat → Str) (name : Str) (ver : V.Ver) (build : Option (Nat × Str))
    (py abi plat : List Str) : Str :=
  join [45] ([escapeName lowerCp name, ver.str] ++ buildStr build ++ [tagSet py, tagSet abi, tagSet plat])
    ++ [46, 119, 104, 108]

/-- `namePart` is whatever spelling of the name the file uses (escaped per the current spec, or a legacy one) -/
def assembleSdist (namePart : Str) (ver : V.Ver) (ext : Str) : Str := namePart ++ [45] ++ ver.str ++ ext

end FnSpec
