import PkgModel.Py
/-!
# Version — model of `packaging.version`

`Ver` is the `_Version` tuple, `cmpkey` is `_cmpkey`, the six rich comparisons go
through Python's tuple comparison protocol and the method tables of the two
sentinels in `_structures.py`; `scan` mirrors the anchored `Version._regex`
(leftmost-greedy captures) and `Version.__init__`; `Ver.str` is `Version.__str__`.
-/
namespace V
open Py



inductive PreL | a | b | rc
  deriving DecidableEq, Repr

/-- Python's `str` order on the three normalised letters "a" < "b" < "rc". -/
def PreL.rank : PreL → Nat
  | .a => 0 | .b => 1 | .rc => 2

inductive LSeg
  | num (n : Nat)
  | str (s : Str)
  deriving DecidableEq, Repr

structure Ver where
  epoch : Nat
  release : List Nat
  pre : Option (PreL × Nat)
  post : Option Nat
  dev : Option Nat
  loc : Option (List LSeg)
  deriving DecidableEq, Repr

/-! ### key as built by `_cmpkey` -/

/-- a slot that may hold one of the two sentinels or a real value -/
inductive Ext (α : Type)
  | negInf | val (a : α) | posInf
  deriving DecidableEq, Repr

def dropTrailingZeros (l : List Nat) : List Nat :=
  (l.reverse.dropWhile (· == 0)).reverse

/-- local segment as encoded in the key: `(i, "")` or `(-Inf, s)` -/
abbrev KSeg := LSeg

structure Key where
  epoch : Nat
  release : List Nat
  pre : Ext (PreL × Nat)
  post : Ext Nat          -- ("post", n): first component constant
  dev : Ext Nat           -- ("dev", n)
  loc : Ext (List KSeg)
  deriving DecidableEq, Repr

def cmpkey (v : Ver) : Key :=
  { epoch := v.epoch
    release := dropTrailingZeros v.release
    pre := match v.pre, v.post, v.dev with
      | none, none, some _ => .negInf
      | none, _, _ => .posInf
      | some p, _, _ => .val p
    post := match v.post with | none => .negInf | some n => .val n
    dev := match v.dev with | none => .posInf | some n => .val n
    loc := match v.loc with | none => .negInf | some l => .val l }

/-! ### Python rich comparison protocol, slot by slot

`Option Bool` is the result of a dunder call, `none` = `NotImplemented`. -/

section protocol
variable {α : Type}

/-- `x.__eq__(y)` then reflected `y.__eq__(x)`; both `NotImplemented` → identity (False here). -/
def Ext.pyEq (eqv : α → α → Bool) : Ext α → Ext α → Bool
  | .negInf, y => (match y with | .negInf => true | _ => false)      -- NegativeInfinityType.__eq__
  | .posInf, y => (match y with | .posInf => true | _ => false)      -- InfinityType.__eq__
  | .val a, .val b => eqv a b
  | .val _, .negInf => false        -- tuple.__eq__ → NotImplemented; reflected NegInf.__eq__(tuple) = False
  | .val _, .posInf => false

def Ext.pyLt (ltv : α → α → Bool) : Ext α → Ext α → Bool
  | .negInf, _ => true              -- NegativeInfinityType.__lt__ = True
  | .posInf, _ => false             -- InfinityType.__lt__ = False
  | .val a, .val b => ltv a b
  | .val _, .negInf => false        -- reflected NegInf.__gt__ = False
  | .val _, .posInf => true         -- reflected Inf.__gt__ = True

def Ext.pyLe (lev : α → α → Bool) : Ext α → Ext α → Bool
  | .negInf, _ => true
  | .posInf, _ => false
  | .val a, .val b => lev a b
  | .val _, .negInf => false        -- reflected NegInf.__ge__ = False
  | .val _, .posInf => true         -- reflected Inf.__ge__ = True

def Ext.pyGt (gtv : α → α → Bool) : Ext α → Ext α → Bool
  | .negInf, _ => false
  | .posInf, _ => true
  | .val a, .val b => gtv a b
  | .val _, .negInf => true         -- reflected NegInf.__lt__ = True
  | .val _, .posInf => false        -- reflected Inf.__lt__ = False

def Ext.pyGe (gev : α → α → Bool) : Ext α → Ext α → Bool
  | .negInf, _ => false
  | .posInf, _ => true
  | .val a, .val b => gev a b
  | .val _, .negInf => true
  | .val _, .posInf => false
end protocol

/-- comparison operator selector -/
inductive Op | lt | le | gt | ge
  deriving DecidableEq

def Op.onNat : Op → Nat → Nat → Bool
  | .lt, a, b => a < b | .le, a, b => a ≤ b | .gt, a, b => a > b | .ge, a, b => a ≥ b

/-- Python sequence comparison: first index where `==` fails decides with `op`; else lengths. -/
def seqCmp {α : Type} (eqv : α → α → Bool) (opv : Op → α → α → Bool) (op : Op) :
    List α → List α → Bool
  | [], [] => (match op with | .lt => false | .le => true | .gt => false | .ge => true)
  | [], _ :: _ => (match op with | .lt => true | .le => true | .gt => false | .ge => false)
  | _ :: _, [] => (match op with | .lt => false | .le => false | .gt => true | .ge => true)
  | a :: as, b :: bs => if eqv a b then seqCmp eqv opv op as bs else opv op a b

def seqEq {α : Type} (eqv : α → α → Bool) : List α → List α → Bool
  | [], [] => true
  | a :: as, b :: bs => eqv a b && seqEq eqv as bs
  | _, _ => false

/-- Python `str` comparison = code point lexicographic -/
def strCmp (op : Op) (s t : Str) : Bool := seqCmp (· == ·) Op.onNat op s t

/-- (letter, n) tuples -/
def preEq (p q : PreL × Nat) : Bool := p.1 == q.1 && p.2 == q.2
def preCmp (op : Op) (p q : PreL × Nat) : Bool :=
  if p.1 == q.1 then (if p.2 == q.2 then (match op with | .lt => false | .le => true | .gt => false | .ge => true)
                      else op.onNat p.2 q.2)
  else op.onNat p.1.rank q.1.rank

/-- key local segments: `(i,"")` vs `(-Inf, s)`.
  first components: int vs NegInf. `int == NegInf` False; `int < NegInf`: reflected `NegInf.__gt__` False. -/
def ksegEq : KSeg → KSeg → Bool
  | .num a, .num b => a == b          -- (a,"") == (b,"")
  | .str s, .str t => s == t          -- NegInf == NegInf True, then s == t
  | _, _ => false
def ksegCmp (op : Op) : KSeg → KSeg → Bool
  | .num a, .num b => if a == b then (match op with | .lt => false | .le => true | .gt => false | .ge => true) else op.onNat a b
  | .str s, .str t => if s == t then (match op with | .lt => false | .le => true | .gt => false | .ge => true) else strCmp op s t
  -- first components differ: `i op NegInf` → int returns NotImplemented → reflected on NegInf
  | .num _, .str _ => (match op with | .lt => false | .le => false | .gt => true | .ge => true)
  -- `NegInf op i` → NegativeInfinityType's own method
  | .str _, .num _ => (match op with | .lt => true | .le => true | .gt => false | .ge => false)

def extCmp {α : Type} (op : Op) (f : Op → α → α → Bool) : Ext α → Ext α → Bool :=
  match op with
  | .lt => Ext.pyLt (f .lt) | .le => Ext.pyLe (f .le) | .gt => Ext.pyGt (f .gt) | .ge => Ext.pyGe (f .ge)

def locEq (a b : List KSeg) : Bool := seqEq ksegEq a b
def locCmp (op : Op) (a b : List KSeg) : Bool := seqCmp ksegEq ksegCmp op a b
def relEq (a b : List Nat) : Bool := seqEq (· == ·) a b
def relCmp (op : Op) (a b : List Nat) : Bool := seqCmp (· == ·) Op.onNat op a b

/-- the 6-tuple comparison, unrolled -/
def keyEq (k l : Key) : Bool :=
  k.epoch == l.epoch && relEq k.release l.release && Ext.pyEq preEq k.pre l.pre &&
  Ext.pyEq (· == ·) k.post l.post && Ext.pyEq (· == ·) k.dev l.dev && Ext.pyEq locEq k.loc l.loc

def keyCmp (op : Op) (k l : Key) : Bool :=
  if !(k.epoch == l.epoch) then op.onNat k.epoch l.epoch
  else if !(relEq k.release l.release) then relCmp op k.release l.release
  else if !(Ext.pyEq preEq k.pre l.pre) then extCmp op preCmp k.pre l.pre
  else if !(Ext.pyEq (· == ·) k.post l.post) then extCmp op Op.onNat k.post l.post
  else if !(Ext.pyEq (· == ·) k.dev l.dev) then extCmp op Op.onNat k.dev l.dev
  else if !(Ext.pyEq locEq k.loc l.loc) then extCmp op locCmp k.loc l.loc
  else (match op with | .lt => false | .le => true | .gt => false | .ge => true)

def Ver.lt (a b : Ver) : Bool := keyCmp .lt (cmpkey a) (cmpkey b)
def Ver.le (a b : Ver) : Bool := keyCmp .le (cmpkey a) (cmpkey b)
def Ver.gt (a b : Ver) : Bool := keyCmp .gt (cmpkey a) (cmpkey b)
def Ver.ge (a b : Ver) : Bool := keyCmp .ge (cmpkey a) (cmpkey b)
def Ver.eq (a b : Ver) : Bool := keyEq (cmpkey a) (cmpkey b)
def Ver.ne (a b : Ver) : Bool := !keyEq (cmpkey a) (cmpkey b)



/-! ## Scanner mirroring `Version._regex` (compiled with `re.VERBOSE | re.IGNORECASE | re.ASCII`)

Each group is scanned greedily with group-level rollback only; see DESIGN §6.4 for
why that coincides with the backtracking engine's leftmost choice on this pattern. -/

/-- `\s` under `re.ASCII`: `[ \t\n\r\f\v]` -/
def isWs (c : Nat) : Bool := c == 32 || (9 ≤ c && c ≤ 13)
def isSep (c : Nat) : Bool := c == 45 || c == 95 || c == 46     -- `[-_\.]`

/-- case-insensitive (ASCII) prefix test; returns the rest -/
def dropKw : Str → Str → Option Str
  | [], s => some s
  | _ :: _, [] => none
  | k :: ks, c :: cs => if lowerAscii c == k then dropKw ks cs else none

/-- first keyword of the list (regex alternation order) that is a prefix -/
def takeKw {α} : List (Str × α) → Str → Option (α × Str)
  | [], _ => none
  | (k, a) :: rest, s =>
    match dropKw k s with
    | some r => some (a, r)
    | none => takeKw rest s

def optSep : Str → Str
  | c :: cs => if isSep c then cs else c :: cs
  | [] => []

/-- optional digit run: `([0-9]+)?` — `none` when absent -/
def optNum (s : Str) : Option Nat × Str :=
  let (d, r) := spanDigits s
  if d.isEmpty then (none, s) else (some (undec d), r)

def preKws : List (Str × PreL) :=
  [ (ofString "alpha", .a), (ofString "a", .a), (ofString "beta", .b), (ofString "b", .b),
    (ofString "preview", .rc), (ofString "pre", .rc), (ofString "c", .rc), (ofString "rc", .rc) ]
def postKws : List (Str × Unit) := [ (ofString "post", ()), (ofString "rev", ()), (ofString "r", ()) ]
def devKws : List (Str × Unit) := [ (ofString "dev", ()) ]

/-- `[-_\.]? KW [-_\.]? ([0-9]+)?` with the implicit number 0 (`_parse_letter_version`) -/
def scanLetterGroup {α} (kws : List (Str × α)) (s : Str) : Option ((α × Nat) × Str) :=
  match takeKw kws (optSep s) with
  | none => none
  | some (a, r) =>
    let (n, r') := optNum (optSep r)
    some ((a, n.getD 0), r')

/-- the `post` group: `-N` first, then the spelled form -/
def scanPost (s : Str) : Option Nat × Str :=
  let implicit : Option (Nat × Str) :=
    match s with
    | 45 :: r => (match optNum r with | (some n, r') => some (n, r') | (none, _) => none)
    | _ => none
  match implicit with
  | some (n, r) => (some n, r)
  | none =>
    match scanLetterGroup postKws s with
    | some ((_, n), r) => (some n, r)
    | none => (none, s)

/-- `_parse_letter_version(letter, number)` on the texts the regex groups captured (`none` = group absent):
the spelled letter is lower-cased and normalised, an absent number is 0; no letter but a (non-empty) number is the
implicit post release `-N`.  `scanLetterGroup` / `scanPost` compute this on the fly: see
`Src.scanLetterGroup_eq_parse`, `Src.scanPost_eq_parse` (`PkgProofs/Props/Src/Version.lean`). -/
def normLetter (l : Str) : Str :=
  if l == ofString "alpha" then ofString "a"
  else if l == ofString "beta" then ofString "b"
  else if l == ofString "c" || l == ofString "pre" || l == ofString "preview" then ofString "rc"
  else if l == ofString "rev" || l == ofString "r" then ofString "post"
  else l

def parseLetterVersion (letter number : Option Str) : Option (Str × Nat) :=
  match letter with
  | some (c :: cs) => some (normLetter (lowerStr (c :: cs)), match number with | some d => undec d | none => 0)
  | _ =>
    match number with
    | some (d :: ds) => some (ofString "post", undec (d :: ds))
    | _ => none

/-- release: `[0-9]+(?:\.[0-9]+)*`, given the first number already scanned -/
def scanReleaseTail : Nat → Str → List Nat × Str
  | 0, s => ([], s)
  | fuel+1, s =>
    match s with
    | 46 :: r =>
      (match optNum r with
       | (some n, r') => let (ns, r'') := scanReleaseTail fuel r'; (n :: ns, r'')
       | (none, _) => ([], s))
    | _ => ([], s)

def isLocalChar (c : Nat) : Bool := isDigit c || isAlphaAscii c

/-- one local segment value: `int(part)` if `part.isdigit()` else `part.lower()` -/
def localSeg (p : Str) : LSeg := if p.all isDigit then .num (undec p) else .str (lowerStr p)

/-- `[a-z0-9]+(?:[-_\.][a-z0-9]+)*` -/
def scanLocalTail : Nat → Str → List Str × Str
  | 0, s => ([], s)
  | fuel+1, s =>
    match s with
    | c :: r =>
      if isSep c then
        let seg := r.takeWhile isLocalChar
        if seg.isEmpty then ([], s)
        else let (segs, r') := scanLocalTail fuel (r.dropWhile isLocalChar); (seg :: segs, r')
      else ([], s)
    | [] => ([], s)

def scanLocal (s : Str) : Option (Option (List LSeg) × Str) :=
  match s with
  | 43 :: r =>
    let seg := r.takeWhile isLocalChar
    if seg.isEmpty then none
    else
      let (segs, r') := scanLocalTail r.length (r.dropWhile isLocalChar)
      some (some ((seg :: segs).map localSeg), r')
  | _ => some (none, s)

/-- the un-anchored `VERSION_PATTERN` matched at the start of `s`; returns the rest -/
def scanCore (s : Str) : Option (Ver × Str) :=
  let s := match s with
    | c :: r => if lowerAscii c == 118 then r else s      -- `v?`
    | [] => s
  match optNum s with
  | (none, _) => none
  | (some n0, r0) =>
    -- `(?:(?P<epoch>[0-9]+)!)?`
    let er : Option (Nat × Nat × Str) :=
      match r0 with
      | 33 :: r1 => (match optNum r1 with
                     | (some n1, r2) => some (n0, n1, r2)
                     | (none, _) => none)
      | _ => some (0, n0, r0)
    match er with
    | none => none
    | some (epoch, first, r) =>
      let (tail, r) := scanReleaseTail r.length r
      let (pre, r) := match scanLetterGroup preKws r with
        | some (p, r') => (some p, r')
        | none => (none, r)
      let (post, r) := scanPost r
      let (dev, r) := match scanLetterGroup devKws r with
        | some ((_, n), r') => (some n, r')
        | none => (none, r)
      match scanLocal r with
      | none => none
      | some (loc, r) =>
        some ({ epoch := epoch, release := first :: tail, pre := pre, post := post, dev := dev, loc := loc }, r)

/-- `Version(s)`: `none` is `InvalidVersion` -/
def scan (s : Str) : Option Ver :=
  match scanCore (s.dropWhile isWs) with
  | none => none
  | some (v, r) => if (r.dropWhile isWs).isEmpty then some v else none

/-! ## Rendering -/

def PreL.str : PreL → Str
  | .a => ofString "a" | .b => ofString "b" | .rc => ofString "rc"

def LSeg.render : LSeg → Str
  | .num n => dec n
  | .str s => s

def renderRelease (r : List Nat) : Str := join [46] (r.map dec)

/-- `Version.local` -/
def Ver.localStr (v : Ver) : Option Str := v.loc.map fun l => join [46] (l.map LSeg.render)

/-- `Version.base_version` -/
def Ver.base (v : Ver) : Str :=
  (if v.epoch != 0 then dec v.epoch ++ [33] else []) ++ renderRelease v.release

/-- `Version.__str__` without the local part = `Version.public` -/
def Ver.public (v : Ver) : Str :=
  v.base
  ++ (match v.pre with | some (l, n) => l.str ++ dec n | none => [])
  ++ (match v.post with | some n => ofString ".post" ++ dec n | none => [])
  ++ (match v.dev with | some n => ofString ".dev" ++ dec n | none => [])

def Ver.str (v : Ver) : Str :=
  v.public ++ (match v.localStr with | some l => 43 :: l | none => [])

def Ver.isPre (v : Ver) : Bool := v.dev.isSome || v.pre.isSome
def Ver.isPost (v : Ver) : Bool := v.post.isSome
def Ver.isDev (v : Ver) : Bool := v.dev.isSome
def Ver.major (v : Ver) : Nat := v.release.getD 0 0
def Ver.minor (v : Ver) : Nat := v.release.getD 1 0
def Ver.micro (v : Ver) : Nat := v.release.getD 2 0

/-- `_TrimmedRelease.release`: up to and including the last non-zero component (at least one) -/
def trimRelease (r : List Nat) : List Nat :=
  match dropTrailingZeros r with
  | [] => r.take 1
  | l => l

/-- `canonicalize_version(Version, strip_trailing_zero)`:
`str(_TrimmedRelease(str(version)) if strip_trailing_zero else version)`.
The re-parse of `str(version)` is kept; `none` would be an escaping `InvalidVersion`
(theorem `C02.scan_str` shows it cannot happen). -/
def Ver.canon (v : Ver) (strip : Bool) : Option Str :=
  if strip then
    match scan v.str with
    | some w => some ({ w with release := trimRelease w.release }).str
    | none => none
  else some v.str

/-- `canonicalize_version(str, strip_trailing_zero)`: non-versions pass through -/
def canonicalizeVersion (s : Str) (strip : Bool) : Option Str :=
  match scan s with
  | none => some s
  | some v => v.canon strip

end V
