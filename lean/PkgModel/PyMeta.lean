import PkgModel.PyRt
import PkgModel.Email
/-!
# PyMeta — how the metadata models' values and oracle appear to the translated functions of `packaging.metadata`

The translated `_Validator._process_*` methods (`Gen.PySrc._Validator._process_name`, …) reach the component parsers and
the standard library through a `PyRt.Oracle`; the model (`PkgModel/Metadata.lean`) through `Meta.Oracle`, whose answers are
*verdicts* (accepted with a canonical text / the documented exception / another exception).  `extOf` builds the former
from the latter: an accepted value is an opaque object that carries its class and canonical text — the model compares
enriched values by exactly that text.  Exceptions are their class names; the model's `Exc.invalid field` is
`InvalidMetadata` (the field name lives in the exception object, which the translation does not keep).
-/
namespace PyMeta
open Py PyRt

/-- an object of a class the translation does not look into (`SpecifierSet`, `Requirement`, a `pathlib` path …) -/
def opaqueObj (cls : String) (text : Str) : PyVal := .obj "opaque" [("cls", .str (ofString cls)), ("str", .str text)]

/-- a component parser's verdict as the outcome of the call; `doc` is the documented exception of that parser -/
def ofVerdict (doc : PyExc) (mk : Str → PyVal) : Meta.Verdict → M PyVal
  | .ok c => .ok (mk c)
  | .bad => .error doc
  | .esc cls => .error (toStringLossy cls)

/-- the calls `packaging/metadata.py` makes, by name, arguments as the translator binds them -/
def extOf (o : Meta.Oracle) : PyRt.Oracle := fun name args =>
  if name == "utils.canonicalize_name" then
    (match args with
     | [.str s, .bool true] => ofVerdict "InvalidName" .str (o.name s)
     | _ => .error "PyRtOracleMissing")
  else if name == "version_module.parse" then
    (match args with
     | [.str s] => ofVerdict "InvalidVersion" (opaqueObj "Version") (o.version s)
     | _ => .error "PyRtOracleMissing")
  else if name == "specifiers.SpecifierSet" then
    (match args with
     | [.str s, .none] => ofVerdict "InvalidSpecifier" (opaqueObj "SpecifierSet") (o.spec s)
     | _ => .error "PyRtOracleMissing")
  else if name == "requirements.Requirement" then
    (match args with
     | [.str s] => ofVerdict "InvalidRequirement" (opaqueObj "Requirement") (o.req s)
     | _ => .error "PyRtOracleMissing")
  else if name == "licenses.canonicalize_license_expression" then
    (match args with
     | [.str s] => ofVerdict "InvalidLicenseExpression" .str (o.lic s)
     | _ => .error "PyRtOracleMissing")
  else if name == "str.lower" then
    (match args with
     | [.str s] => .ok (.str (o.lower s))
     | _ => .error "PyRtOracleMissing")
  else if name == "pathlib.PurePosixPath" then
    (match args with
     | [.str s] => .ok (opaqueObj "PurePosixPath" s)
     | _ => .error "PyRtOracleMissing")
  else if name == "pathlib.PureWindowsPath" then
    (match args with
     | [.str s] => .ok (opaqueObj "PureWindowsPath" s)
     | _ => .error "PyRtOracleMissing")
  else if name == "PurePosixPath.is_absolute" then
    (match args with
     | [.obj "opaque" [("cls", _), ("str", .str s)]] => .ok (.bool (o.posixAbs s))
     | _ => .error "PyRtOracleMissing")
  else if name == "PureWindowsPath.is_absolute" then
    (match args with
     | [.obj "opaque" [("cls", _), ("str", .str s)]] => .ok (.bool (o.winAbs s))
     | _ => .error "PyRtOracleMissing")
  else if name == "PureWindowsPath.as_posix" then
    (match args with
     | [.obj "opaque" [("cls", _), ("str", .str s)]] => .ok (.str (o.winPosix s))
     | _ => .error "PyRtOracleMissing")
  else .error "PyRtOracleMissing"

/-- the model's exceptions as class names -/
def excName : Meta.Exc → PyExc
  | .invalid _ => "InvalidMetadata"
  | .escape cls => toStringLossy cls

/-- a model result: `view` says how the enriched value appears (per field) -/
def ofRes (view : Meta.Val → PyVal) : Except Meta.Exc Meta.Val → M PyVal
  | .ok v => .ok (view v)
  | .error e => .error (excName e)

/-- raw values -/
def ofVal : Meta.Val → PyVal
  | .none => .none
  | .str s => .str s
  | .list l => .list (l.map .str)
  | .dict d => .dict (d.map fun p => (.str p.1, .str p.2))

/-- enriched values: a string / list of strings that stands for objects of class `cls` -/
def ofEnriched (cls : String) : Meta.Val → PyVal
  | .str s => opaqueObj cls s
  | .list l => .list (l.map fun s => opaqueObj cls s)
  | v => ofVal v

end PyMeta
